//! C08 — DBSCAN and OPTICS output is the density clustering of the input.
//!
//! Every case is a point set, `min_points`, a tolerance and a metric; the check runs linfa with
//! each of the three neighbour indices and judges every result against predicates written from the
//! property statement (`oracle.rs`), then compares the three results with each other.
//!
//! Coordinates are integers in units of 1/256 (|x| <= 128), so with `scale == 1` every L1/L∞
//! distance and every squared L2 distance is exact in f64 whatever the summation order: "the
//! tolerance equals an inter-point distance" then means the same thing for the harness and for
//! linfa. The "tie" class is generated only on such unscaled data; scaled data (factor 0.1, 1/3,
//! 1e3, 1e-3) is used with tolerances that keep a relative distance >= 1e-9 from every pairwise
//! distance.

pub mod oracle;
pub mod run;

use oracle::{dbscan_violations, optics_violations, Conv, Density, Geometry, Metric, OSample, OpticsVerdict, Violations};
use proptest::prelude::*;
use serde::{Deserialize, Serialize};
use vengine::gen::{idx, perm_from_keys};
use vengine::{enum_sub, prop_sub, Obs, Property, Tier};

#[derive(Debug, Clone, Serialize, Deserialize)]
pub struct Case {
    pub dim: usize,
    pub pts: Vec<Vec<f64>>,
    pub min_points: usize,
    pub tol: f64,
    pub metric: Metric,
    /// builder recipe (see `run::Build`): constructor, then setter calls in this order; the values
    /// in force at the end are always `tol` and the index under test
    #[serde(default)]
    pub ctor: u8,
    #[serde(default)]
    pub steps: Vec<u8>,
    /// memory layout of the records handed to linfa, index into `run::LAYOUTS`
    #[serde(default)]
    pub layout: u8,
}

fn classify_build(c: &Case, obs: &mut Obs) {
    let last_tol = c.steps.iter().rposition(|&s| s == 0 || s == 1);
    let real_tol_stays = matches!(last_tol, Some(p) if c.steps[p] == 0);
    obs.class_if(c.steps.is_empty() && c.ctor == 0, "builder_plain");
    obs.class_if(c.ctor == 2 && c.metric == Metric::L2, "builder_default_constructor");
    obs.class_if(c.steps.iter().filter(|&&s| s == 0 || s == 1).count() >= 2, "builder_tolerance_set_twice");
    obs.class_if(
        real_tol_stays && last_tol.map_or(false, |p| c.steps[p + 1..].iter().any(|&s| s == 2 || s == 3)),
        "builder_tolerance_then_nn_algo",
    );
    obs.class_if(
        real_tol_stays && last_tol.map_or(false, |p| c.steps[p + 1..].iter().any(|&s| s >= 4)),
        "builder_tolerance_then_dist_fn",
    );
    obs.class_if(c.steps.iter().any(|&s| s == 3) || c.ctor != 0, "builder_index_replaced");
}

// ------------------------------------------------------------------------------------------------
// shared preparation

struct Prepared {
    g: Geometry,
    laid: run::Laid,
}

fn prepare(c: &Case, obs: &mut Obs) -> Option<Prepared> {
    let well_formed = c.pts.iter().all(|r| r.len() == c.dim && r.iter().all(|v| v.is_finite()))
        && c.min_points >= 2
        && c.tol.is_finite()
        && c.tol > 0.0
        && c.dim <= 8
        && c.pts.len() <= 4096;
    if !well_formed {
        obs.skip("malformed_case");
        return None;
    }
    let x = match run::to_array(&c.pts, c.dim) {
        Some(x) => x,
        None => {
            obs.skip("malformed_case");
            return None;
        }
    };
    let g = Geometry::new(&c.pts, c.metric, c.tol);
    let n = c.pts.len();
    obs.class(match c.dim {
        0 => "dim0",
        1 => "dim1",
        2 => "dim2",
        _ => "dim3plus",
    });
    obs.class(match c.metric {
        Metric::L1 => "metric_L1",
        Metric::L2 => "metric_L2",
        Metric::LInf => "metric_Linf",
    });
    obs.class(match n {
        0 => "n_0",
        1 => "n_1",
        2..=16 => "n_2_16_single_leaf",
        _ => "n_gt_16_tree_branches",
    });
    obs.class_if(n < c.min_points, "n_below_min_points");
    let dup = (0..n).any(|i| (i + 1..n).any(|j| c.pts[i] == c.pts[j]));
    obs.class_if(dup, "has_duplicates");
    let lattice = c.pts.iter().flatten().all(|v| (v * 256.0).fract() == 0.0 && v.abs() <= 128.0);
    obs.class_if(!lattice, "scaled_inexact_coordinates");
    if g.ambiguous {
        obs.skip("ambiguous_tolerance");
        return None;
    }
    obs.class(if g.tie { "tie" } else { "generic" });
    let laid = run::Laid::new(&x, c.layout);
    if laid.view() != x {
        obs.skip("layout_construction_error");
        return None;
    }
    obs.class(laid.name());
    obs.class_if(!laid.rows_contiguous(), "rows_not_contiguous");
    Some(Prepared { g, laid })
}

fn report(obs: &mut Obs, who: &str, v: &Violations) {
    for (sig, msg) in v {
        obs.fail(*sig, format!("{who}: {msg}"));
    }
}

const KD_PANIC_CLASSES: [&str; 7] = [
    "kdtree_panic_accepted:layout_row_major",
    "kdtree_panic_accepted:layout_column_major",
    "kdtree_panic_accepted:layout_row_gaps",
    "kdtree_panic_accepted:layout_strided_both_axes",
    "kdtree_panic_accepted:layout_reversed_rows",
    "kdtree_panic_accepted:layout_reversed_columns",
    "kdtree_panic_accepted:layout_transposed_view",
];

/// Call into linfa for one index. A panic is a failure, except KdTree's documented panic ("views
/// should be contiguous") on records whose rows are not contiguous in memory, which is counted.
fn call_index<T>(obs: &mut Obs, what: &str, index: &str, kd_may_panic: bool, layout: u8, f: impl FnOnce() -> T) -> Option<T> {
    if index == "KdTree" && kd_may_panic {
        match vengine::guard(f) {
            Ok(v) => {
                obs.class("kdtree_answered_on_noncontiguous_rows");
                Some(v)
            }
            Err(m) if m.contains("views should be contiguous") => {
                obs.class(KD_PANIC_CLASSES[(layout as usize) % KD_PANIC_CLASSES.len()]);
                None
            }
            Err(m) => {
                obs.fail(format!("panic:{what}"), format!("{index}: panicked: {m}"));
                None
            }
        }
    } else {
        obs.call(what, f)
    }
}

/// How one index treats the pairs that lie at a distance of exactly the tolerance (tie class).
#[derive(Debug, Clone, Copy, PartialEq, Eq)]
enum Probed {
    /// not probed (generic class, zero features) or the probe failed
    Unknown,
    Is(Conv),
    /// some pairs at exactly the tolerance are neighbours and others are not
    Mixed,
    /// the index' answers differ from the definition on pairs that are not at the tolerance
    Foreign,
}

fn probe(c: &Case, x: ndarray::ArrayView2<f64>, strict: &Density, incl: Option<&Density>, nn: &linfa_nn::CommonNearestNeighbour, name: &str, obs: &mut Obs) -> Probed {
    let incl = match incl {
        Some(i) if c.dim > 0 => i,
        _ => return Probed::Unknown,
    };
    let rel = match vengine::guard(|| run::relation(x, c.tol, c.metric, nn.clone())) {
        Ok(Ok(r)) => r,
        _ => return Probed::Unknown,
    };
    if rel == strict.nb {
        obs.class("tie_index_strict");
        return Probed::Is(Conv::Strict);
    }
    if rel == incl.nb {
        obs.class("tie_index_inclusive");
        return Probed::Is(Conv::Inclusive);
    }
    let between = rel.len() == strict.nb.len()
        && rel.iter().zip(strict.nb.iter().zip(incl.nb.iter())).all(|(r, (s, i))| s.iter().all(|k| r.contains(k)) && r.iter().all(|k| i.contains(k)));
    if between {
        obs.class("tie_index_mixed");
        let witness = rel.iter().zip(strict.nb.iter().zip(incl.nb.iter())).position(|(r, (s, i))| r != s && r != i);
        let asym = (0..rel.len()).find_map(|i| rel[i].iter().find(|&&j| !rel[j].contains(&i)).map(|&j| (i, j)));
        obs.fail(
            "tie:mixed-neighbourhood-convention",
            format!(
                "{name}: with the tolerance equal to an inter-point distance the index treats some pairs at exactly that distance as neighbours and others not (first sample with a partial answer: {:?}; asymmetric pair (i sees j, j does not see i): {:?})",
                witness, asym
            ),
        );
        Probed::Mixed
    } else {
        Probed::Foreign
    }
}

// ------------------------------------------------------------------------------------------------
// DBSCAN

fn check_dbscan(c: &Case, obs: &mut Obs) {
    let Prepared { g, laid } = match prepare(c, obs) {
        Some(p) => p,
        None => return,
    };
    let x = laid.view();
    // KdTree documents a panic for points that are not contiguous in memory: for that index and such
    // layouts a panic is an accepted outcome (counted); an answer, if one comes, is judged like any other
    let kd_may_panic = !laid.rows_contiguous();
    let n = g.n;
    classify_build(c, obs);
    let build = run::Build { ctor: c.ctor, steps: &c.steps };
    let strict = Density::new(&g, c.min_points, Conv::Strict);
    let incl = if g.tie { Some(Density::new(&g, c.min_points, Conv::Inclusive)) } else { None };

    // classes and the non-trivial rule, from the definition (strict neighbourhoods)
    let noise = (0..n).any(|i| strict.is_noise(i));
    let border = (0..n).any(|i| strict.is_border(i));
    let border_multi = (0..n).any(|i| strict.is_border(i) && strict.reaching_components(i).len() >= 2);
    obs.class(match strict.ncomp {
        0 => "clusters_0",
        1 => "clusters_1",
        _ => "clusters_2plus",
    });
    obs.class_if(noise, "has_noise");
    obs.class_if(border, "has_border_point");
    obs.class_if(border_multi, "border_reachable_from_two_clusters");
    obs.class_if(strict.ncomp >= 1 && !noise && !border, "all_core");
    if let Some(inc) = &incl {
        obs.class_if(inc.core != strict.core || inc.ncomp != strict.ncomp, "tie_changes_structure");
    }
    obs.nontrivial_if(border_multi || (strict.ncomp >= 2 && noise));

    let mut results: Vec<Option<Vec<Option<usize>>>> = vec![];
    let mut probed: Vec<Probed> = vec![];
    for (nn, name) in run::INDICES.iter() {
        let r = call_index(obs, "dbscan", name, kd_may_panic, c.layout, || run::dbscan(x, c.min_points, c.tol, c.metric, nn.clone(), false, build));
        let labels = match r {
            None => {
                results.push(None);
                probed.push(Probed::Unknown);
                continue;
            }
            Some(Err(e)) => {
                obs.fail("dbscan:spurious-error", format!("{name}: valid hyper-parameters rejected: {e}"));
                results.push(None);
                probed.push(Probed::Unknown);
                continue;
            }
            Some(Ok(l)) => l,
        };
        if c.dim == 0 {
            // the statement does not say what the clustering of feature-less points is:
            // all-noise (the coded behaviour) and the definitional labelling are both accepted
            let all_none = labels.len() == n && labels.iter().all(|l| l.is_none());
            if !all_none {
                let v = dbscan_violations(&strict, &labels);
                if !v.is_empty() {
                    obs.fail("dbscan:zero-features", format!("{name}: labels {:?} are neither all-noise nor the definitional labelling", labels));
                }
            }
            results.push(Some(labels));
            probed.push(Probed::Unknown);
            continue;
        }
        let pr = probe(c, x, &strict, incl.as_ref(), nn, name, obs);
        probed.push(pr);
        let v = match (pr, &incl) {
            (Probed::Mixed, _) => vec![], // reported by the probe; the run is not judged further
            (Probed::Is(Conv::Inclusive), Some(inc)) => {
                obs.class("tie_run_inclusive");
                dbscan_violations(inc, &labels)
            }
            (Probed::Is(Conv::Strict), _) => {
                obs.class("tie_run_strict");
                dbscan_violations(&strict, &labels)
            }
            _ => {
                // generic class, or a probe that tells nothing: '<', and in the tie class '<=' as the alternative
                let v = dbscan_violations(&strict, &labels);
                match &incl {
                    Some(inc) if !v.is_empty() && dbscan_violations(inc, &labels).is_empty() => vec![],
                    _ => v,
                }
            }
        };
        report(obs, name, &v);
        results.push(Some(labels));
    }

    // index independence
    let names: Vec<&str> = run::INDICES.iter().map(|x| x.1).collect();
    for a in 0..results.len() {
        for b in (a + 1)..results.len() {
            if let (Some(la), Some(lb)) = (&results[a], &results[b]) {
                if la == lb {
                    continue;
                }
                let msg = format!("{} gives {:?}, {} gives {:?}", names[a], la, names[b], lb);
                match (probed.get(a), probed.get(b)) {
                    // a run on an index with a mixed convention was reported by the probe and is not compared
                    (Some(Probed::Mixed), _) | (_, Some(Probed::Mixed)) => {}
                    // one index treats a point at distance exactly = tolerance as a neighbour, the other
                    // does not; each labelling was judged under its own convention above
                    (Some(Probed::Is(ca)), Some(Probed::Is(cb))) if ca != cb => obs.fail("dbscan:index-dependence:tie-convention", msg),
                    _ => obs.fail("dbscan:index-dependence", msg),
                }
            }
        }
    }

    // the DatasetBase form must return what the array form returns
    if let Some(Some(direct)) = results.get(1) {
        let r = call_index(obs, "dbscan(dataset)", run::INDICES[1].1, kd_may_panic, c.layout, || {
            run::dbscan(x, c.min_points, c.tol, c.metric, run::INDICES[1].0.clone(), true, build)
        });
        match r {
            Some(Ok(l)) => {
                obs.ensure(&l == direct, "dbscan:dataset-form-differs", || {
                    format!("transform(DatasetBase) gives {:?}, transform(&records) gives {:?}", l, direct)
                });
            }
            Some(Err(e)) => obs.fail("dbscan:spurious-error", format!("dataset form: {e}")),
            None => {}
        }
    }
}

// ------------------------------------------------------------------------------------------------
// OPTICS

const RECOGNISED: [&str; 2] = ["optics:core-distance:neighbour-list-order", "optics:reach-refers-to-later-start-point"];

fn unrecognised(v: &OpticsVerdict) -> usize {
    v.violations.iter().filter(|(s, _)| !RECOGNISED.contains(s)).count()
}

fn check_optics(c: &Case, obs: &mut Obs) {
    let Prepared { g, laid } = match prepare(c, obs) {
        Some(p) => p,
        None => return,
    };
    let x = laid.view();
    // KdTree documents a panic for points that are not contiguous in memory: for that index and such
    // layouts a panic is an accepted outcome (counted); an answer, if one comes, is judged like any other
    let kd_may_panic = !laid.rows_contiguous();
    let n = g.n;
    classify_build(c, obs);
    let build = run::Build { ctor: c.ctor, steps: &c.steps };
    let strict = Density::new(&g, c.min_points, Conv::Strict);
    let incl = if g.tie { Some(Density::new(&g, c.min_points, Conv::Inclusive)) } else { None };
    let ncore = strict.core.iter().filter(|&&b| b).count();
    obs.class(if ncore == 0 {
        "no_core_point"
    } else if ncore == n {
        "all_core"
    } else {
        "some_core_points"
    });
    obs.class_if(strict.ncomp >= 2, "components_2plus");

    // per index: listing, "all core distances are the definitional ones", probed convention
    let mut runs: Vec<Option<(Vec<OSample>, bool, Probed)>> = vec![];
    let mut lowered_any = false;
    for (nn, name) in run::INDICES.iter() {
        let r = call_index(obs, "optics", name, kd_may_panic, c.layout, || run::optics(x, c.min_points, c.tol, c.metric, nn.clone(), build));
        let samples = match r {
            None => {
                runs.push(None);
                continue;
            }
            Some(Err(e)) => {
                obs.fail("optics:spurious-error", format!("{name}: valid hyper-parameters rejected: {e}"));
                runs.push(None);
                continue;
            }
            Some(Ok(s)) => s,
        };
        let mut pr = Probed::Unknown;
        let verdict = if c.dim == 0 {
            // as for DBSCAN: all-undefined (the coded behaviour) or the definitional analysis
            let mut verdict = optics_violations(&g, &strict, c.min_points, &samples);
            let all_undefined = samples.iter().all(|s| s.core.is_none() && s.reach.is_none());
            if all_undefined {
                verdict.violations.retain(|(s, _)| *s == "optics:not-a-permutation");
            } else if !verdict.violations.is_empty() {
                obs.fail("optics:zero-features", format!("{name}: listing {:?} is neither all-undefined nor the definitional analysis", samples));
                verdict.violations.clear();
            }
            verdict
        } else {
            pr = probe(c, x, &strict, incl.as_ref(), nn, name, obs);
            match (pr, &incl) {
                (Probed::Mixed, _) => {
                    // reported by the probe; only "every sample exactly once" is still judged
                    let mut v = optics_violations(&g, &strict, c.min_points, &samples);
                    v.violations.retain(|(s, _)| *s == "optics:not-a-permutation");
                    v.cores_exact = false;
                    v
                }
                (Probed::Is(Conv::Inclusive), Some(inc)) => {
                    obs.class("tie_run_inclusive");
                    optics_violations(&g, inc, c.min_points, &samples)
                }
                (Probed::Is(Conv::Strict), _) => {
                    obs.class("tie_run_strict");
                    optics_violations(&g, &strict, c.min_points, &samples)
                }
                (_, None) => optics_violations(&g, &strict, c.min_points, &samples),
                (_, Some(inc)) => {
                    // the probe tells nothing: whichever of '<' / '<=' explains the run better
                    let vs = optics_violations(&g, &strict, c.min_points, &samples);
                    let vi = optics_violations(&g, inc, c.min_points, &samples);
                    if (unrecognised(&vi), vi.violations.len()) < (unrecognised(&vs), vs.violations.len()) {
                        vi
                    } else {
                        vs
                    }
                }
            }
        };
        report(obs, name, &verdict.violations);
        obs.class_if(verdict.defined_reach > 0, "some_reachability_defined");
        obs.class_if(verdict.violations.iter().any(|(s, _)| *s == RECOGNISED[0]), "hit:core-distance-neighbour-list-order");
        obs.class_if(verdict.violations.iter().any(|(s, _)| *s == RECOGNISED[1]), "hit:start-point-listed-late");
        lowered_any |= verdict.lowered > 0;
        runs.push(Some((samples, verdict.cores_exact, pr)));
    }
    obs.class_if(lowered_any, "reachability_lowered_after_set");
    obs.nontrivial_if(lowered_any);

    // index independence: bit-identical (index, core, reachability) sequences. Generic class: all
    // pairs; tie class: pairs of indices that were probed to apply the same convention.
    if c.dim > 0 {
        let first_diff = |a: &[OSample], b: &[OSample]| -> String {
            match a.iter().zip(b.iter()).position(|(x, y)| x != y) {
                Some(p) => format!("first difference at position {p}: {:?} vs {:?}", a.get(p), b.get(p)),
                None => format!("lengths {} vs {}", a.len(), b.len()),
            }
        };
        let comparable = |a: Probed, b: Probed| -> bool {
            if g.tie {
                matches!((a, b), (Probed::Is(x), Probed::Is(y)) if x == y)
            } else {
                true
            }
        };
        if let (Some(Some((kd, _, pk))), Some(Some((ball, _, pb)))) = (runs.get(1), runs.get(2)) {
            if comparable(*pk, *pb) {
                obs.class_if(g.tie, "tie_listings_compared");
                obs.ensure(kd == ball, "optics:index-dependence:kdtree-balltree", || {
                    format!("KdTree and BallTree listings differ, {}", first_diff(kd, ball))
                });
            }
        }
        // The LinearSearch run is compared when its core distances are the definitional ones AND
        // bit-identical to the other run's: among neighbours whose distances differ only by rounding,
        // LinearSearch's index-order pick (the recognised core-distance defect) can return a value one
        // ulp away, which passes the tolerance test above but legitimately re-orders exact ties.
        for other in [1usize, 2] {
            if let (Some(Some((lin, lin_exact, pl))), Some(Some((tree, _, pt)))) = (runs.first(), runs.get(other)) {
                if !comparable(*pl, *pt) {
                    continue;
                }
                let same_cores = lin.len() == tree.len() && {
                    let mut a: Vec<(usize, Option<u64>)> = lin.iter().map(|s| (s.index, s.core.map(f64::to_bits))).collect();
                    let mut b: Vec<(usize, Option<u64>)> = tree.iter().map(|s| (s.index, s.core.map(f64::to_bits))).collect();
                    a.sort_unstable();
                    b.sort_unstable();
                    a == b
                };
                if *lin_exact && same_cores {
                    obs.class("linear_listing_compared");
                    obs.ensure(lin == tree, "optics:index-dependence:linear", || {
                        format!("LinearSearch and {} listings differ although all core distances agree, {}", run::INDICES[other].1, first_diff(lin, tree))
                    });
                } else {
                    // a wrong core distance was already reported for the LinearSearch run; its ordering and
                    // reachabilities follow from it and are not compared a second time
                    obs.class("linear_listing_not_compared");
                }
            }
        }
    }
}

// ------------------------------------------------------------------------------------------------
// generators

type P3 = [i32; 3];
const Q: i32 = 64; // a quarter, in units of 1/256

fn p3(range: std::ops::RangeInclusive<i32>) -> impl Strategy<Value = P3> {
    (range.clone(), range.clone(), range).prop_map(|(a, b, c)| [a, b, c])
}

fn add(a: P3, b: P3) -> P3 {
    [a[0] + b[0], a[1] + b[1], a[2] + b[2]]
}

/// One geometric ingredient, as points in units of 1/256.
fn part(max_count: usize) -> BoxedStrategy<Vec<P3>> {
    let origin = || p3(-16..=16).prop_map(|o| [o[0] * Q, o[1] * Q, o[2] * Q]);
    let chain = (origin(), p3(-4..=4), 2..=max_count).prop_map(|(o, s, k)| {
        (0..k as i32).map(|t| add(o, [s[0] * Q * t, s[1] * Q * t, s[2] * Q * t])).collect::<Vec<P3>>()
    });
    let ring = (origin(), 2i32..=16, 3..=max_count.max(3), any::<bool>()).prop_map(|(o, r, k, snap)| {
        (0..k)
            .map(|t| {
                let th = 2.0 * std::f64::consts::PI * (t as f64) / (k as f64);
                let rr = (r * Q) as f64;
                let (mut a, mut b) = ((rr * th.cos()).round() as i32, (rr * th.sin()).round() as i32);
                if snap {
                    a = ((a as f64) / (Q as f64)).round() as i32 * Q;
                    b = ((b as f64) / (Q as f64)).round() as i32 * Q;
                }
                add(o, [a, b, 0])
            })
            .collect::<Vec<P3>>()
    });
    let grid = (origin(), 1usize..=5, 1usize..=5, 1usize..=2, 1i32..=4).prop_map(move |(o, w, h, dd, sp)| {
        let mut v = vec![];
        for a in 0..w {
            for b in 0..h {
                for cc in 0..dd {
                    v.push(add(o, [a as i32 * sp * Q, b as i32 * sp * Q, cc as i32 * sp * Q]));
                }
            }
        }
        v.truncate(max_count.max(1));
        v
    });
    let cloud = (origin(), 2i32..=6, proptest::collection::vec((any::<u16>(), any::<u16>(), any::<u16>()), 1..=max_count)).prop_map(
        |(o, r, raw)| {
            raw.into_iter()
                .map(|(a, b, cc)| {
                    let f = |u: u16| idx(u, (r + 1) as usize) as i32 * 256;
                    add(o, [f(a), f(b), f(cc)])
                })
                .collect::<Vec<P3>>()
        },
    );
    let blob = (
        origin(),
        prop_oneof![Just(64i32), Just(128), Just(256)],
        proptest::collection::vec((vengine::gen::gauss(), vengine::gen::gauss(), vengine::gen::gauss()), 2..=max_count),
    )
        .prop_map(|(o, spread, raw)| {
            raw.into_iter()
                .map(|(a, b, cc)| {
                    let f = |g: f64| (g.clamp(-6.0, 6.0) * spread as f64).round() as i32;
                    add(o, [f(a), f(b), f(cc)])
                })
                .collect::<Vec<P3>>()
        });
    let noise = proptest::collection::vec((p3(20..=60), any::<[bool; 3]>()), 1..=3).prop_map(|v| {
        v.into_iter()
            .map(|(p, s)| {
                let f = |x: i32, neg: bool| if neg { -x * 256 } else { x * 256 };
                [f(p[0], s[0]), f(p[1], s[1]), f(p[2], s[2])]
            })
            .collect::<Vec<P3>>()
    });
    prop_oneof![
        3 => chain.boxed(),
        2 => ring.boxed(),
        2 => grid.boxed(),
        3 => cloud.boxed(),
        2 => blob.boxed(),
        1 => noise.boxed(),
    ]
    .boxed()
}

#[derive(Debug, Clone)]
struct TolSel {
    tie: bool,
    rank: u16,
    low_biased: bool,
    /// when set: the tolerance is this inter-point distance (tie) or sits in the gap right above it
    target: Option<f64>,
}

fn choose_tolerance(pts: &[Vec<f64>], metric: Metric, sel: &TolSel) -> f64 {
    let n = pts.len();
    let mut d: Vec<f64> = vec![];
    for i in 0..n {
        for j in (i + 1)..n {
            let v = oracle::dist(&pts[i], &pts[j], metric);
            if v > 0.0 && v.is_finite() {
                d.push(v);
            }
        }
    }
    d.sort_by(|a, b| a.partial_cmp(b).unwrap_or(std::cmp::Ordering::Equal));
    d.dedup();
    if d.is_empty() {
        return 1.0;
    }
    let pick = |len: usize| -> usize {
        if sel.low_biased {
            let u = sel.rank as f64 / 65536.0;
            ((u * u * u) * len as f64) as usize
        } else {
            idx(sel.rank, len)
        }
        .min(len.saturating_sub(1))
    };
    // position of the targeted distance, if one is asked for and present
    let target_pos = sel.target.and_then(|t| d.iter().position(|&v| v == t));
    if sel.tie {
        return d[target_pos.unwrap_or_else(|| pick(d.len()))];
    }
    // gaps: 0 = below the smallest distance, k = between d[k-1] and d[k], len = above the largest
    let start = target_pos.map(|p| p + 1).unwrap_or_else(|| pick(d.len() + 1));
    for k in start..d.len() {
        let (lo, hi) = if k == 0 { (0.0, d[0]) } else { (d[k - 1], d[k]) };
        if hi - lo >= 1e-7 * hi {
            return lo + (hi - lo) / 2.0;
        }
    }
    d[d.len() - 1] * 1.5
}

fn case_strategy(tier: Tier, allow_tie: bool) -> impl Strategy<Value = Case> {
    prop_oneof![
        5 => general_case(tier, allow_tie).boxed(),
        1 => bridge_case(tier, allow_tie).boxed(),
    ]
}

/// Two chains of spacing |v| on one line, a single point half-way between them at distance
/// L = t·|v| from either chain end, tolerance right above (or equal to) L: the middle point sees the
/// two chain ends only. With min_points >= 4 it is a border point reachable from two clusters; with
/// smaller min_points it is a core point that joins them. Optional further ingredients, rows permuted.
fn bridge_case(tier: Tier, allow_tie: bool) -> impl Strategy<Value = Case> {
    let max_n: usize = tier.pick(40, 150);
    let max_part: usize = tier.pick(10, 40);
    let extra = proptest::collection::vec(part(max_part), 0..=1);
    let keys = prop_oneof![1 => Just(Vec::<u16>::new()), 3 => proptest::collection::vec(any::<u16>(), max_n)];
    let metric = prop_oneof![Just(Metric::L2), Just(Metric::L1), Just(Metric::LInf)];
    (
        (p3(-8..=8), p3(-3..=3), 2i32..=6, 1usize..=6, 1usize..=6),
        extra,
        keys,
        1usize..=3,
        metric,
        2usize..=6,
        proptest::bool::weighted(if allow_tie { 0.25 } else { 0.0 }),
        any::<u16>(),
        recipe(),
    )
        .prop_map(move |((o, v, t, ma, mb), extra, keys, dim, metric, min_points, tie, rank, (ctor, steps, layout))| {
            let c: P3 = [o[0] * Q, o[1] * Q, o[2] * Q];
            let at = |k: i32| -> P3 { [c[0] + v[0] * Q * k, c[1] + v[1] * Q * k, c[2] + v[2] * Q * k] };
            let mut raw: Vec<P3> = vec![c];
            for j in 0..ma as i32 {
                raw.push(at(t + j));
            }
            for j in 0..mb as i32 {
                raw.push(at(-t - j));
            }
            raw.extend(extra.into_iter().flatten());
            raw.truncate(max_n);
            let order = perm_from_keys(&keys, raw.len());
            let conv = |p: &P3| -> Vec<f64> { p.iter().take(dim).map(|&q| q as f64 / 256.0).collect() };
            let pts: Vec<Vec<f64>> = order.iter().filter_map(|&i| raw.get(i)).map(conv).collect();
            let l = oracle::dist(&conv(&c), &conv(&at(t)), metric);
            let sel = TolSel { tie, rank, low_biased: true, target: if l > 0.0 { Some(l) } else { None } };
            let tol = choose_tolerance(&pts, metric, &sel);
            Case { dim, pts, min_points, tol, metric, ctor, steps, layout }
        })
}

/// Builder recipe: constructor kind and a sequence of setter calls (0 tolerance, 1 decoy tolerance,
/// 2 index, 3 decoy index, 4 dist_fn). The empty recipe is the plain `params_with(..).tolerance(..)`.
fn recipe() -> impl Strategy<Value = (u8, Vec<u8>, u8)> {
    (
        prop_oneof![4 => Just(0u8), 2 => Just(1u8), 2 => Just(2u8)],
        prop_oneof![2 => Just(Vec::<u8>::new()).boxed(), 7 => proptest::collection::vec(0u8..=4, 1..=5).boxed()],
        // memory layout of the records (index into run::LAYOUTS); 0 = ordinary row-major
        prop_oneof![4 => Just(0u8).boxed(), 6 => (1u8..=6).boxed()],
    )
}

/// Fixed recipes cycled through by the enumerated sub-checks.
const RECIPES: [(u8, &[u8]); 10] = [
    (0, &[]),
    (0, &[0, 2]),
    (1, &[0, 2]),
    (2, &[0, 2]),
    (0, &[0, 3, 2]),
    (0, &[1, 2, 0]),
    (0, &[0, 4]),
    (1, &[2, 0, 0]),
    (2, &[1, 0, 3]),
    (1, &[4, 0, 3, 4]),
];

fn general_case(tier: Tier, allow_tie: bool) -> impl Strategy<Value = Case> {
    let max_n: usize = tier.pick(40, 150);
    let max_part: usize = tier.pick(14, 48);
    let parts = prop_oneof![1 => Just(Vec::<Vec<P3>>::new()).boxed(), 40 => proptest::collection::vec(part(max_part), 1..=4).boxed()];
    let dups = proptest::collection::vec(any::<u16>(), 0..=4);
    let keys = prop_oneof![2 => Just(Vec::<u16>::new()), 3 => proptest::collection::vec(any::<u16>(), max_n)];
    let dim = prop_oneof![1 => Just(0usize), 8 => Just(1usize), 14 => Just(2usize), 8 => Just(3usize)];
    let scale = prop_oneof![7 => Just(1.0f64), 1 => Just(0.1), 1 => Just(1.0 / 3.0), 1 => Just(1000.0), 1 => Just(0.001)];
    let metric = prop_oneof![Just(Metric::L2), Just(Metric::L1), Just(Metric::LInf)];
    let tolsel = (proptest::bool::weighted(if allow_tie { 0.3 } else { 0.0 }), any::<u16>(), proptest::bool::weighted(0.7))
        .prop_map(|(tie, rank, low_biased)| TolSel { tie, rank, low_biased, target: None });
    (parts, dups, keys, dim, scale, metric, 2usize..=6, tolsel, recipe()).prop_map(move |(parts, dups, keys, dim, scale, metric, min_points, sel, (ctor, steps, layout))| {
        let mut raw: Vec<P3> = parts.into_iter().flatten().collect();
        for u in dups {
            if !raw.is_empty() {
                let p = raw[idx(u, raw.len())];
                raw.push(p);
            }
        }
        raw.truncate(max_n);
        let order = perm_from_keys(&keys, raw.len());
        // ties are generated on exact (unscaled) coordinates only
        let scale = if sel.tie { 1.0 } else { scale };
        let pts: Vec<Vec<f64>> = order
            .iter()
            .filter_map(|&i| raw.get(i))
            .map(|p| p.iter().take(dim).map(|&q| (q as f64 / 256.0) * scale).collect())
            .collect();
        let tol = choose_tolerance(&pts, metric, &sel);
        Case { dim, pts, min_points, tol, metric, ctor, steps, layout }
    })
}

/// Every sequence of <= `len` points on {0,..,`vals`-1} (one feature), min_points 2..=4, tolerances
/// on and between the integer distances: sweeps the visiting order exhaustively.
fn small_1d(tier: Tier) -> Vec<Case> {
    let vals: usize = tier.pick(4, 5);
    let len: usize = tier.pick(6, 7);
    let mut out = vec![];
    let mut seqs: Vec<Vec<usize>> = vec![vec![]];
    let mut frontier: Vec<Vec<usize>> = vec![vec![]];
    for _ in 0..len {
        let mut next = vec![];
        for s in &frontier {
            for v in 0..vals {
                let mut t = s.clone();
                t.push(v);
                next.push(t);
            }
        }
        seqs.extend(next.iter().cloned());
        frontier = next;
    }
    let metrics = [Metric::L2, Metric::L1, Metric::LInf];
    for (k, s) in seqs.iter().enumerate() {
        for min_points in 2..=4usize {
            for (t, tol) in [0.5, 1.0, 1.5, 2.0, 2.5].iter().enumerate() {
                let (ctor, steps) = RECIPES[(k + 3 * t + 7 * min_points) % RECIPES.len()];
                out.push(Case {
                    dim: 1,
                    pts: s.iter().map(|&v| vec![v as f64]).collect(),
                    min_points,
                    tol: *tol,
                    metric: metrics[(k + t) % 3],
                    ctor,
                    steps: steps.to_vec(),
                    layout: ((k + t + min_points) % run::LAYOUTS.len()) as u8,
                });
            }
        }
    }
    out
}

/// Degenerate shapes: no samples, one sample, no features, fewer samples than min_points, and the
/// three-point example of DESIGN §3.
fn corners(_tier: Tier) -> Vec<Case> {
    let mut out = vec![];
    for metric in [Metric::L2, Metric::L1, Metric::LInf] {
        for min_points in [2usize, 3, 6] {
            for dim in 0..=3usize {
                for n in [0usize, 1, 2, 3, 7, 20] {
                    for tol in [0.5, 1.0, 3.0] {
                        let pts: Vec<Vec<f64>> = (0..n).map(|i| (0..dim).map(|j| ((i * (j + 1)) % 5) as f64).collect()).collect();
                        let (ctor, steps) = RECIPES[out.len() % RECIPES.len()];
                        let layout = (out.len() % run::LAYOUTS.len()) as u8;
                        out.push(Case { dim, pts, min_points, tol, metric, ctor, steps: steps.to_vec(), layout });
                    }
                }
            }
            for (ctor, steps) in RECIPES {
                out.push(Case { dim: 1, pts: vec![vec![0.0], vec![1.0], vec![-1.0]], min_points, tol: 1.5, metric, ctor, steps: steps.to_vec(), layout: (out.len() % run::LAYOUTS.len()) as u8 });
            }
        }
    }
    out
}

pub fn property() -> Property {
    Property {
        id: "C08",
        rule: "cases = (point set assembled from chains, rings, grids, small-integer clouds, gaussian blobs, far noise points and duplicates, \
               rows permuted; 0..=3 features; n 0..=40 quick / 0..=150 thorough; min_points 2..=6; metric L1/L2/Linf; tolerance placed in a gap \
               between sorted pairwise distances = class generic, or bit-equal to one = class tie). Every case is run with LinearSearch, KdTree and \
               BallTree, the hyper-parameters being assembled by a generated builder recipe (constructor params / params_with with the real or a decoy index, \
               then up to 5 setter calls out of tolerance(real|decoy), nn_algo(real|decoy), dist_fn, in any order, tolerance possibly twice; the values configured last are the case's). Plus exhaustive enumeration of all 1-feature sequences of <= 6 (7) points on 4 (5) integer positions x min_points 2..=4 x \
               5 tolerances, and a table of degenerate shapes. Non-trivial: DBSCAN = a border point reachable from two clusters, or >= 2 clusters \
               together with noise; OPTICS = some sample whose reachability is smaller than what the first listed core point within the tolerance \
               offered (it was lowered after first being set). Distinct = distinct canonical JSON of the case",
        assumptions: vec![
            "neighbourhood N(i) = { j : d(i,j) < tolerance }, the point itself included; core = |N(i)| >= min_points (strict, as LinearSearch/BallTree)".into(),
            "tie class (tolerance bit-equal to an inter-point distance): generated only on coordinates k/256, |x| <= 128, where all L1/Linf and squared-L2 distances are exact in f64. Each index is asked (its own within_range, the queries DBSCAN/OPTICS make) which convention it applies to the pairs at exactly the tolerance: if its answers are the '<' relation or the '<=' relation the run is judged under that convention; if they are in between (some such pairs yes, others no) that is reported as tie:mixed-neighbourhood-convention and the run is not judged further; if the probe tells nothing the run is accepted when it satisfies the predicates under '<' or under '<='".into(),
            format!("cases whose tolerance is within relative {:e} of a pairwise distance it is not bit-equal to are not judged (counted as skipped 'ambiguous_tolerance'); the generator keeps a relative gap >= 5e-8", oracle::AMBIGUOUS_BAND),
            format!("core and reachability distances are compared with the harness' own distance formula with relative tolerance 64*eps = {:e}", oracle::DIST_REL_TOL),
            "reachability is checked against the core distances linfa reports (each of which is checked against the definition separately), so one wrong core distance is reported once".into(),
            "a reachability that is None is always accepted (the statement says 'either undefined or ...'); o may be the sample itself (listed 'no later')".into(),
            "zero features: DBSCAN all-noise or the definitional labelling, OPTICS all-undefined or the definitional analysis are both accepted; no panic".into(),
            "index independence: DBSCAN label vectors identical for the three indices (all classes; in the tie class a difference between indices probed to apply different conventions has its own signature dbscan:index-dependence:tie-convention); OPTICS (index, core, reachability) sequences bit-identical in the generic class, and in the tie class between indices probed to apply the same convention; the LinearSearch listing is compared only when its core distances are the definitional ones and bit-equal to the other index' (a one-ulp different pick among rounding-level ties may re-order exact ties)".into(),
            "builder: the clustering must be the one for the values configured LAST, whatever the order of constructor and setter calls; the oracle is the same for every recipe".into(),
            "tolerance <= 0, min_points < 2, non-finite coordinates and non-contiguous views are documented preconditions and are not generated".into(),
        ],
        subs: vec![
            prop_sub("optics", 25000, 300000, |t: Tier| case_strategy(t, true), check_optics)
                .chunks(16)
                .require(&["tie", "generic", "n_gt_16_tree_branches", "reachability_lowered_after_set", "dim0", "builder_tolerance_then_nn_algo", "builder_tolerance_then_dist_fn", "builder_tolerance_set_twice", "builder_default_constructor"]),
            prop_sub("dbscan", 25000, 300000, |t: Tier| case_strategy(t, true), check_dbscan)
                .chunks(16)
                .require(&["tie", "generic", "n_gt_16_tree_branches", "border_reachable_from_two_clusters", "dim0", "builder_tolerance_then_nn_algo", "builder_tolerance_then_dist_fn", "builder_tolerance_set_twice", "builder_default_constructor"]),
            enum_sub("optics_small_1d", small_1d, check_optics).chunks(16),
            enum_sub("dbscan_small_1d", small_1d, check_dbscan).chunks(16),
            enum_sub("optics_corners", corners, check_optics).chunks(1),
            enum_sub("dbscan_corners", corners, check_dbscan).chunks(1),
        ],
    }
}
