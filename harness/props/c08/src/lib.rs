//! C08 — stub (to be written; see /verif/harness/AUTHORING.md and DESIGN.md §3 C08)
use vengine::Property;

pub fn property() -> Property {
    Property { id: "C08", rule: "", assumptions: vec![], subs: vec![] }
}
