//! C18 — stub (to be written; see /verif/harness/AUTHORING.md and DESIGN.md §3 C18)
use vengine::Property;

pub fn property() -> Property {
    Property { id: "C18", rule: "", assumptions: vec![], subs: vec![] }
}
