//! C18 — PCA returns the leading orthonormal principal axes with their true variances.
//!
//! Reference: sample covariance of the centred records (two-pass, divisor n−1) and the harness' own
//! cyclic-Jacobi eigen-decomposition (`vengine::num::jacobi_eigh`). Everything linfa reports
//! (components, singular values, mean, explained variance / ratio, predict, transform,
//! inverse_transform) is compared against quantities recomputed from that reference or from the
//! definition, never against another linfa output where an independent value exists.

pub mod data;

use data::{build_x, case_strategy, err_cases, orthonormal_rows, Case, ErrCase, Layout, Shape};
use linfa::traits::{Fit, Predict, PredictInplace, Transformer};
use linfa::DatasetBase;
use linfa_reduction::Pca;
use ndarray::{s, Array1, Array2, ArrayView2, ShapeBuilder};
use vengine::gen::SplitMix;
use vengine::num::{col_means, covariance, jacobi_eigh, Mat};
use vengine::{enum_sub, prop_sub, Obs, Property, Tier};

/// Tolerance for everything that goes through the iterative solver (LOBPCG, stopping tolerance
/// 1e-5 on the singular-value scale): variances are compared ± TAU·λ₁, dimensionless quantities
/// (VVᵀ, whitened covariance) ± TAU.
pub const TAU: f64 = 1e-4;
/// The spectral gap at k must exceed GAP_MIN·λ₁ for the subspace comparison to be asserted.
pub const GAP_MIN: f64 = 1e-3;
/// Tolerance factor for quantities recomputed by the same formula in different arithmetic
/// (`|a−b| ≤ FORMULA_EPS · Σ|terms|`): 1024 machine epsilons.
pub const FORMULA_EPS: f64 = 1024.0 * f64::EPSILON;
/// Number of competing random orthonormal k-frames.
pub const FRAMES: usize = 50;
/// A direction u counts as an eigenvector "on its own scale" when |C u − q u| <= RESID_MAX · q, q = uᵀC u; also the
/// relative tolerance with which a sigma_j²/(n−1) is recognised as an eigenvalue of C (classification of the solver
/// breakdown only, see check_pca).
pub const RESID_MAX: f64 = TAU;
/// Requested eigenvalues below DYN·λ₁ put a case into the "wide dynamic range" class (see check_pca).
pub const DYN: f64 = 1e-4;
/// Known finding `eigenpairs-misassigned`, necessary condition taken from the code of linfa-linalg 0.1.0 `symmetric_eig`:
/// its 2x2 step writes the two eigenvalues in descending order and rotates the vectors only if
/// `GivensRotation::try_new(e0 − d11, off, eps)` succeeds, i.e. if hypot(e0 − d11, off) > eps in *absolute* terms on the
/// matrix scaled to max-entry 1; for an ascending diagonal that is |off| > eps, while the block is only reached when
/// |off| > eps·(|d00| + |d11|). Both hold together only if |d00| + |d11| < 1, i.e. λ_a + λ_b < (max entry) <= λ₁.
/// Observed on the fixed tree: (λ_a + λ_b)/λ₁ between 1e-5 and 2.6e-2.
pub const MISPAIR_SUM: f64 = 1.0;
/// Known finding `eigenvector-pair-rotated`: largest in-plane rotation recognised (observed 5e-3 and 2.9e-2 rad).
pub const ROT_MAX: f64 = 0.1;
/// Known finding `inconsistent-components`: smallest requested eigenvalue below GARBAGE_TAIL·λ₁ (observed on the
/// fixed tree: 1.7e-6 and 1.2e-5).
pub const GARBAGE_TAIL: f64 = 1e-4;
/// `pca:ritz-residual`: allowed multiple of the configured solver tolerance (the seeded 1e-3 precision is 1e4 units).
pub const RITZ_SLACK: f64 = 100.0;
/// `pca:ritz-residual` is asserted for a relative gap (λ_k − λ_{k+1})/λ_k of at least this.
pub const RITZ_MIN_GAP: f64 = 0.2;
/// A run of LOBPCG that is certifiably unconverged (but returns genuine Ritz pairs) is counted as not judged when it misses
/// the optimality tolerances by at most this factor; beyond it the result is reported as a failure.
pub const NOT_CONVERGED_SLACK: f64 = 10.0;
/// linfa clamps every singular value at 1e-8 from below ("cut singular values to avoid numerical problems", original
/// code). The sigma-dependent obligations are judged only when the smallest requested reference singular value
/// sqrt((n−1)·λ_k) is at least SIGMA_MIN, a factor 10 above the clamp.
pub const SIGMA_MIN: f64 = 1e-7;
/// Design domain: singular ratio sigma_1/sigma_k <= 1e3, i.e. lambda_k >= RANGE_MIN·lambda_1.
pub const RANGE_MIN: f64 = 1e-6;

fn to_array(x: &Mat, n: usize, p: usize) -> Array2<f64> {
    Array2::from_shape_fn((n, p), |(i, j)| x.get(i).and_then(|r| r.get(j)).copied().unwrap_or(0.0))
}

/// The record matrix in one of the memory layouts a caller can hand in. View layouts keep a backing array whose
/// unused rows / columns hold large sentinel values, so that reading through the wrong strides shows.
pub struct Records {
    layout: Layout,
    store: Array2<f64>,
}

impl Records {
    pub fn new(x: &Mat, n: usize, p: usize, layout: Layout) -> Records {
        let at = |i: usize, j: usize| x.get(i).and_then(|r| r.get(j)).copied().unwrap_or(0.0);
        let filler = |i: usize, j: usize| 7.0e5 + (3 * i + j) as f64;
        let store = match layout {
            Layout::RowMajor => Array2::from_shape_fn((n, p), |(i, j)| at(i, j)),
            Layout::ColMajor => Array2::from_shape_fn((n, p).f(), |(i, j)| at(i, j)),
            Layout::StridedRows => Array2::from_shape_fn((2 * n, p), |(i, j)| if i % 2 == 0 { at(i / 2, j) } else { filler(i, j) }),
            Layout::StridedCols => Array2::from_shape_fn((n, 2 * p), |(i, j)| if j % 2 == 0 { at(i, j / 2) } else { filler(i, j) }),
            Layout::ReversedRows => Array2::from_shape_fn((n, p), |(i, j)| at(n - 1 - i, j)),
            Layout::ReversedCols => Array2::from_shape_fn((n, p), |(i, j)| at(i, p - 1 - j)),
        };
        Records { layout, store }
    }
    /// n × p view of the records, element (i, j) = x[i][j] whatever the layout
    pub fn view(&self) -> ArrayView2<'_, f64> {
        match self.layout {
            Layout::RowMajor | Layout::ColMajor => self.store.view(),
            Layout::StridedRows => self.store.slice(s![..;2, ..]),
            Layout::StridedCols => self.store.slice(s![.., ..;2]),
            Layout::ReversedRows => self.store.slice(s![..;-1, ..]),
            Layout::ReversedCols => self.store.slice(s![.., ..;-1]),
        }
    }
    pub fn owned(&self) -> Option<&Array2<f64>> {
        if self.layout.is_owned() {
            Some(&self.store)
        } else {
            None
        }
    }
}

fn to_mat(a: &Array2<f64>) -> Mat {
    a.rows().into_iter().map(|r| r.to_vec()).collect()
}

fn max_abs(m: &Mat) -> f64 {
    m.iter().flatten().fold(0.0f64, |a, b| a.max(b.abs()))
}

/// trace(F C Fᵀ) for a frame with rows F.
fn retained(frame: &Mat, c: &Mat) -> f64 {
    let mut t = 0.0;
    for f in frame {
        for (i, ci) in c.iter().enumerate() {
            for (j, cij) in ci.iter().enumerate() {
                t += f.get(i).copied().unwrap_or(0.0) * cij * f.get(j).copied().unwrap_or(0.0);
            }
        }
    }
    t
}

/// Frobenius norm of FᵀF − GᵀG (difference of the projectors of two orthonormal frames).
fn projector_diff(f: &Mat, g: &Mat, p: usize) -> f64 {
    let mut s = 0.0;
    for i in 0..p {
        for j in 0..p {
            let a: f64 = f.iter().map(|r| r[i] * r[j]).sum();
            let b: f64 = g.iter().map(|r| r[i] * r[j]).sum();
            s += (a - b) * (a - b);
        }
    }
    s.sqrt()
}

fn classify(c: &Case, obs: &mut Obs) {
    match &c.shape {
        Shape::Iso => obs.class("shape_isotropic"),
        Shape::Aniso { log_ratio } => {
            obs.class("shape_anisotropic");
            obs.class_if(*log_ratio >= 2.0, "anisotropic_ratio>=1e2");
        }
        Shape::LowRank { noise, .. } => {
            obs.class("shape_lowrank_noise");
            obs.class_if(*noise < 1e-2, "lowrank_noise<1e-2");
        }
        Shape::Scaled { .. } => obs.class("shape_scaled_columns"),
    }
    obs.class_if(c.offsets.iter().any(|o| *o != 0.0), "offset_columns");
    obs.class_if(c.offsets.iter().any(|o| o.abs() >= 100.0), "offset_large");
    obs.class_if(c.global_exp != 0, "global_scale!=1");
    obs.class_if(c.global_exp < 0, "small_magnitude");
    obs.class_if(c.k == 1, "k=1");
    obs.class_if(c.k == c.p, "k=p");
    obs.class_if(c.k > 1 && c.k < c.p, "1<k<p");
    obs.class_if(2 * c.k > c.p && c.k < c.p, "p/2<k<p");
    obs.class_if(c.p == 1, "p=1");
    obs.class_if(c.p >= 10, "p>=10");
    obs.class_if(c.k >= 2 && 5 * c.k <= c.p, "k>=2_and_5k<=p");
    obs.class_if(c.whiten, "whiten");
    obs.class_if(!c.whiten, "no_whiten");
    obs.class_if(c.n == c.p + 1, "n=p+1");
    obs.class(match c.layout {
        Layout::RowMajor => "layout_row_major",
        Layout::ColMajor => "layout_col_major",
        Layout::StridedRows => "layout_strided_rows_view",
        Layout::StridedCols => "layout_strided_cols_view",
        Layout::ReversedRows => "layout_reversed_rows_view",
        Layout::ReversedCols => "layout_reversed_cols_view",
    });
    let unequal_means = c.offsets.iter().any(|o| Some(o) != c.offsets.first());
    obs.class_if(c.layout == Layout::ColMajor && c.p >= 2 && unequal_means, "layout_col_major_unequal_column_means");
    obs.class_if(c.dataset_view || !c.layout.is_owned(), "fit_DatasetView");
    obs.class_if(!c.dataset_view && c.layout.is_owned(), "fit_Dataset_owned");
}

pub fn check_pca(c: &Case, obs: &mut Obs) {
    let (n, p, k) = (c.n, c.p, c.k);
    if p == 0 || n <= p || k == 0 || k > p || c.g.len() != n {
        obs.skip("malformed_case");
        return;
    }
    classify(c, obs);
    let x = build_x(c);
    let xa = to_array(&x, n, p);
    let rec = Records::new(&x, n, p, c.layout);
    if rec.view().dim() != (n, p) || rec.view() != xa {
        // the harness' own layout construction must reproduce the matrix exactly
        obs.fail("harness:layout", "layout construction does not reproduce the record matrix".to_string());
        return;
    }
    let targets = Array1::from_shape_fn(n, |i| i as f64);

    // ---- reference -------------------------------------------------------------------------
    let mu = col_means(&x);
    let cov = covariance(&x, 1.0);
    let (lam, evecs) = jacobi_eigh(&cov);
    let lam1 = lam.first().copied().unwrap_or(0.0);
    // constant (or constant up to round-off) data is not in the generator's domain; shrinking can reach it
    let x_max0 = max_abs(&x);
    if !(lam1 > 1e-16 * x_max0 * x_max0) || !lam1.is_finite() {
        obs.skip("degenerate_covariance");
        return;
    }
    let xc: Mat = x.iter().map(|r| r.iter().zip(&mu).map(|(a, m)| a - m).collect()).collect();
    let x_max = max_abs(&x);
    let xc_max = max_abs(&xc);
    let gap = if k < p { lam[k - 1] - lam[k] } else { f64::INFINITY };
    let clear_gap = gap > GAP_MIN * lam1;
    obs.class_if(k < p && clear_gap, "k<p_clear_gap");
    obs.class_if(k < p && !clear_gap, "k<p_small_gap");
    obs.class_if(lam[p - 1] < 1e-4 * lam1, "cond>1e4");
    obs.nontrivial_if((k < p && clear_gap) || k == 1 || c.whiten);

    // ---- fit ---------------------------------------------------------------------------------
    // LOBPCG works on a trial basis [X, R, P] of up to 3k columns in a space of dimension min(n, p) = p, with an
    // *absolute* residual tolerance (1e-10 on the eigenvalues of Xc^T Xc); linfa-linalg itself carries a
    // commented-out guard "dimension < 5·block size: please use a different approach". Whenever 5k > p the solver
    // is observed to break down in several ways (see the known findings of C18): Cholesky failure of the
    // exhausted basis when k does not divide p (an unconverged iterate is returned), spurious Ritz values of
    // size ~1e-6·λ₁ replacing small requested eigenvalues, mis-paired values and vectors. Those faces get their
    // own signatures below, and only inside 5k > p; everywhere else every obligation fails under its own name.
    let small_problem = 5 * k > p;
    obs.class_if(small_problem, "5k>p");
    obs.class_if(!small_problem, "5k<=p");
    obs.class_if(k > 1 && k < p && p % k != 0, "k_does_not_divide_p");
    let wide_range = lam[k - 1] < DYN * lam1;
    obs.class_if(wide_range, "wide_range(lambda_k<1e-4*lambda_1)");
    // Domain bound of the design (singular ratio <= 1e3): when the smallest requested eigenvalue is below
    // RANGE_MIN·λ₁ the case is outside it (it arises from sampling fluctuation, n close to p); only the
    // obligations that do not depend on the eigen-solver are judged there.
    let in_range = lam[k - 1] >= RANGE_MIN * lam1;
    obs.class_if(!in_range, "beyond_singular_ratio_1e3");
    // owned `Dataset` or `DatasetView` (record view + target view), records in the case's layout
    // sample weights carried by the dataset (a function of the case's frame seed): none, non-uniform positive, or with
    // zeros. The statement is about the sample covariance and the sample mean, PCA's documentation does not mention
    // weights, and the code ignores them: the same unweighted obligations are judged whatever the weights are.
    let weights: Option<ndarray::Array1<f32>> = match c.frame_seed % 3 {
        0 => None,
        kind => {
            let mut rng = vengine::gen::SplitMix(c.frame_seed ^ 0x5eed_0001);
            Some(ndarray::Array1::from_shape_fn(n, |_| {
                let w = 0.25 + 4.0 * rng.unit() as f32;
                if kind == 2 && rng.below(4) == 0 { 0.0 } else { w }
            }))
        }
    };
    obs.class_if(weights.is_some(), "dataset_with_sample_weights");
    let fitted = vengine::guard(|| match (rec.owned(), c.dataset_view) {
        (Some(a), false) => {
            let ds = DatasetBase::new(a.clone(), targets.clone());
            let ds = match &weights { Some(w) => ds.with_weights(w.clone()), None => ds };
            Pca::params(k).whiten(c.whiten).fit(&ds)
        }
        _ => {
            let ds = DatasetBase::new(rec.view(), targets.view());
            let ds = match &weights { Some(w) => ds.with_weights(w.clone()), None => ds };
            Pca::params(k).whiten(c.whiten).fit(&ds)
        }
    });
    let model = match fitted {
        Err(m) => {
            if !in_range && m.starts_with("NaN values in array") && m.contains("linfa-linalg") && m.contains("eigh.rs") {
                obs.skip("beyond_singular_ratio_1e3:fit_panic_nan");
            } else if m.starts_with("NaN values in array") && {
                // payload of linfa-linalg's `cmp_floats` and the panic site recorded by the engine's hook
                let loc = m.rsplit(" @ ").next().unwrap_or("");
                loc.contains("linfa-linalg") && loc.contains("eigh.rs")
            } {
                // recognised by the exact panic (message and site): LOBPCG kept iterating on round-off until its
                // Rayleigh–Ritz matrices contained NaN. Any other panic of fit is `panic:fit`.
                obs.class_if(small_problem, "fit_panic_nan:5k>p");
                obs.class_if(!small_problem, "fit_panic_nan:5k<=p");
                obs.class("fit_panic_nan");
                obs.fail(
                    "pca:solver-breakdown:nan-panic",
                    format!("fit panicked inside LOBPCG for n={n}, p={p}, embedding size {k}: {m}"),
                );
            } else {
                obs.fail("panic:fit", format!("panicked: {m}"));
            }
            return;
        }
        Ok(Err(e)) => {
            obs.fail("pca:fit-error", format!("fit failed on a valid input (n={n}, p={p}, k={k}): {e}"));
            return;
        }
        Ok(Ok(m)) => m,
    };

    let comps = to_mat(model.components());
    let sigma = model.singular_values().to_vec();
    let mean = model.mean().to_vec();
    let kk = comps.len();
    let shapes_ok = kk >= 1
        && kk <= k
        && comps.iter().all(|r| r.len() == p)
        && sigma.len() == kk
        && mean.len() == p;
    if !obs.ensure(shapes_ok, "pca:shape", || {
        format!(
            "components {}x{:?}, {} singular values, mean of length {} for p={p}, k={k}",
            kk,
            comps.first().map(|r| r.len()),
            sigma.len(),
            mean.len()
        )
    }) {
        return;
    }
    // The solver drops singular values below ~1.5e-5·σ₁ (rank cut-off, pinned by test_explained_variance_cutoff);
    // inside the design domain (σ_k/σ_1 >= 1e-3) all k components are expected.
    if kk < k {
        if in_range {
            obs.fail(
                "pca:component-count",
                format!("{kk} components returned for embedding size {k}; covariance eigenvalues {:?}", lam),
            );
        } else {
            obs.class("rank_cutoff");
        }
    }
    if !comps.iter().flatten().chain(sigma.iter()).chain(mean.iter()).all(|v| v.is_finite()) {
        obs.fail("pca:non-finite", "components / singular values / mean contain a non-finite value".to_string());
        return;
    }

    // ---- mean --------------------------------------------------------------------------------
    for j in 0..p {
        obs.ensure((mean[j] - mu[j]).abs() <= FORMULA_EPS * x_max + 1e-300, "pca:mean", || {
            format!("mean[{j}] = {}, column mean is {}", mean[j], mu[j])
        });
    }

    // ---- directions --------------------------------------------------------------------------
    let norms: Vec<f64> = comps.iter().map(|r| r.iter().map(|v| v * v).sum::<f64>().sqrt()).collect();
    if norms.iter().any(|v| !(*v > 0.0)) {
        obs.fail("pca:orthonormal", "a component is the zero vector".to_string());
        return;
    }
    let dirs: Mat = comps.iter().zip(&norms).map(|(r, s)| r.iter().map(|v| v / s).collect()).collect();
    let nm1 = n as f64 - 1.0;

    // ---- what kind of answer did the eigen-solver give? ---------------------------------------
    // Quantities computed from the reference covariance and the returned *directions* (not the row order, not
    // the row scale). With q_j = u_j^T C u_j (the variance along component j):
    //   resid_own  = max_j |C u_j − q_j u_j| / q_j   (is u_j an eigenvector on its own scale?)
    //   ritz_like  = the directions are mutually orthogonal and C-orthogonal (correlation <= TAU): what any
    //                Rayleigh–Ritz step returns, converged or not
    //   mismatch   = max_j |sigma_j^2/(n-1) − q_j| / q_j
    // PCA has no convergence flag (the LOBPCG error is swallowed in TruncatedSvd::decompose), so nothing is skipped
    // as "unconverged": the obligations below are evaluated at the design's tolerances on whatever is returned.
    // The quantities also serve to recognise the two residual defects of the external eigen-solver under their exact
    // preconditions (known findings, see below); everything else fails under the ordinary signatures.
    let mut resid_top = 0.0f64; // relative to λ₁ (reported only)
    let mut resid_own = 0.0f64;
    let mut mismatch = 0.0f64;
    let mut cus: Vec<Vec<f64>> = Vec::with_capacity(kk);
    let mut qs: Vec<f64> = Vec::with_capacity(kk);
    for j in 0..kk {
        let cu: Vec<f64> = (0..p).map(|i| (0..p).map(|t| cov[i][t] * dirs[j][t]).sum::<f64>()).collect();
        let q: f64 = cu.iter().zip(&dirs[j]).map(|(a, b)| a * b).sum();
        let r2: f64 = cu.iter().zip(&dirs[j]).map(|(a, b)| (a - q * b).powi(2)).sum();
        resid_top = resid_top.max(r2.sqrt() / lam1);
        resid_own = resid_own.max(r2.sqrt() / q.abs().max(1e-300));
        mismatch = mismatch.max((sigma[j] * sigma[j] / nm1 - q).abs() / q.abs().max(1e-300));
        cus.push(cu);
        qs.push(q);
    }
    let mut ritz_like = true;
    for a in 0..kk {
        for b in a + 1..kk {
            let uu: f64 = dirs[a].iter().zip(&dirs[b]).map(|(x, y)| x * y).sum();
            let ucu: f64 = dirs[a].iter().zip(&cus[b]).map(|(x, y)| x * y).sum();
            if uu.abs() > TAU || ucu.abs() > TAU * (qs[a].abs() * qs[b].abs()).sqrt() {
                ritz_like = false;
            }
        }
    }
    obs.class_if(resid_own > 1e-10, "residual>1e-10");
    obs.class_if(resid_own > 1e-7, "residual>1e-7");
    obs.class_if(resid_own > RESID_MAX && ritz_like, "component_not_converged_on_own_scale_but_ritz_consistent");
    let l: Vec<f64> = sigma.iter().map(|s| s * s / nm1).collect();
    let leading_ok = (0..kk).all(|j| (l[j] - lam[j]).abs() <= RESID_MAX * lam[j].abs());
    let sorted = (1..kk).all(|j| sigma[j - 1] >= sigma[j]);
    let row_scale: Vec<f64> = (0..kk).map(|j| if c.whiten { norms[j] * sigma[j] / nm1.sqrt() } else { norms[j] }).collect();
    let unit_rows = row_scale.iter().all(|v| (v * v - 1.0).abs() <= TAU);
    // `spectral`: the solver-dependent obligations are evaluated
    let sigma_k_ref = (nm1 * lam[k - 1].max(0.0)).sqrt();
    let near_clamp = sigma_k_ref < SIGMA_MIN;
    obs.class_if(near_clamp, "sigma_k_below_1e-7(clamp_1e-8):not_judged_spectrally");
    obs.class_if(c.global_exp < 0 && in_range && !near_clamp, "small_magnitude_judged");
    obs.class_if(c.global_exp < 0 && in_range && !near_clamp && !small_problem, "small_magnitude_judged_lobpcg_path");
    let mut spectral = in_range && !near_clamp;
    let describe = |what: &str| {
        format!(
            "n={n}, p={p}, embedding size {k}, whiten={}: {what}; sigma^2/(n-1) = {:?}, variances along the components = {:?}, \
             covariance eigenvalues = {:?} (eigen-residual {resid_own:.2e} relative to the component's variance, {resid_top:.2e} relative to lambda_1)",
            c.whiten, l, qs, lam
        )
    };

    // ---- residual defects of the external eigen-solver (known findings), each under its exact precondition ----
    // Everything that does not match one of the two patterns below falls through to the ordinary obligations.
    //
    // (A) `eigenpairs-misassigned`: linfa-linalg's symmetric `eigh` (port of nalgebra's symmetric_eigen) handles a
    //     trailing 2x2 block by writing its two eigenvalues in descending order but skips the rotation of the
    //     eigenvectors when the off-diagonal entry is below eps in *absolute* terms (matrix scaled to max-entry 1),
    //     which is reachable only for eigenvalues that are small against λ₁. The result is the exact decomposition
    //     with the vectors of two small eigenvalues transposed. In the full-space path (5k > min(n,p)) LOBPCG's
    //     follow-up iteration normally repairs it; when that step fails the transposition survives.
    //     Recognised constructively as "exact answer up to one transposition": every component is an eigenvector on
    //     its own scale, rows are unit-scaled and mutually (C-)orthogonal, values are sorted and every sigma_j^2/(n-1)
    //     equals the eigenvalue λ_j of its rank; every component carries its own variance except one pair (a, b) with
    //     λ_a + λ_b < λ₁ (necessary for the skipped rotation, see MISPAIR_SUM), which carry each other's (b may lie beyond k, truncated away: then only
    //     component a shows it, carrying λ_b). With that verified nothing else about the answer is left to be wrong.
    let in_range = in_range && !near_clamp;
    let mut mispair: Option<(usize, usize)> = None;
    if in_range && small_problem && sorted && leading_ok && unit_rows && ritz_like && resid_own <= RESID_MAX && kk == k {
        let close = |a: f64, b: f64| (a - b).abs() <= RESID_MAX * b.abs();
        let off: Vec<usize> = (0..kk).filter(|&j| !close(l[j], qs[j])).collect();
        let cand = match off.as_slice() {
            [a, b] if close(qs[*a], lam[*b]) && close(qs[*b], lam[*a]) => Some((*a, *b)),
            [a] => (kk..p).find(|&m| close(qs[*a], lam[m])).map(|m| (*a, m)),
            _ => None,
        };
        if let Some((a, b)) = cand {
            if lam[a] + lam[b] < MISPAIR_SUM * lam1 {
                mispair = Some((a, b));
            }
        }
    }
    if let Some((a, b)) = mispair {
        spectral = false;
        obs.class("solver_failed");
        obs.class("solver_failed:two_small_eigenvectors_transposed");
        obs.fail(
            "pca:solver-breakdown:eigenpairs-misassigned",
            describe(&format!(
                "full-space path: exact decomposition except that component {a} is the eigenvector of eigenvalue {b}{} (lambda_{a}/lambda_1 = {:.2e}, lambda_{b}/lambda_1 = {:.2e})",
                if b < kk { format!(" and component {b} that of eigenvalue {a}") } else { " (its partner was truncated away)".to_string() },
                lam[a] / lam1,
                lam[b] / lam1
            )),
        );
    }
    // (C) `eigenvector-pair-rotated` (about 1 fit in 10^6, full-space path): the solver returns the exact
    //     decomposition except that two of its vectors a < b span the right eigen-plane span{e_a, e_b} but are
    //     rotated inside it by a small angle θ (observed 5e-3 and 3e-2 rad, on the two leading components).
    //     Since 7f3797e linfa publishes sigma_j = |Xc v_j| (rows normalised, re-sorted), so what must be seen is:
    //       * every other component: eigenvector on its own scale, sigma_j^2/(n-1) = λ_j = its own variance;
    //       * v_a, v_b: unit rows, mutually orthogonal, out-of-plane part <= RESID_MAX, θ <= ROT_MAX;
    //       * sigma_a^2/(n-1), sigma_b^2/(n-1) are the Rayleigh quotients of the rotated vectors,
    //         q_a = cos²θ·λ_a + sin²θ·λ_b and q_b = sin²θ·λ_a + cos²θ·λ_b (so they miss λ_a, λ_b by sin²θ·(λ_a−λ_b));
    //       * the two scores are correlated with cov(z_a, z_b) = v_a^T C v_b = ±sinθ·cosθ·(λ_a − λ_b), all other score
    //         covariances vanish.
    //     Anything that departs from this picture falls through to the ordinary obligations.
    let mut rotated: Option<(usize, usize, f64)> = None;
    if mispair.is_none() && in_range && small_problem && sorted && unit_rows && kk == k && evecs.len() == p {
        let close = |x: f64, y: f64| (x - y).abs() <= RESID_MAX * y.abs();
        // which components fail to be eigenvectors on their own scale
        let bad: Vec<usize> = (0..kk)
            .filter(|&j| {
                let r2: f64 = cus[j].iter().zip(&dirs[j]).map(|(x, y)| (x - qs[j] * y).powi(2)).sum();
                r2.sqrt() > RESID_MAX * qs[j].abs()
            })
            .collect();
        // the candidate pair: the only two components that are correlated / not orthogonal beyond TAU, or the only
        // two that are no eigenvectors on their own scale (a small rotation may push just one of them over RESID_MAX)
        let dot0 = |i: usize, j: usize| -> f64 { dirs[i].iter().zip(&dirs[j]).map(|(x, y)| x * y).sum() };
        let cdot0 = |i: usize, j: usize| -> f64 { dirs[i].iter().zip(&cus[j]).map(|(x, y)| x * y).sum() };
        let mut coupled: Vec<(usize, usize)> = vec![];
        for i in 0..kk {
            for j in i + 1..kk {
                if dot0(i, j).abs() > TAU || cdot0(i, j).abs() > TAU * (qs[i].abs() * qs[j].abs()).sqrt() {
                    coupled.push((i, j));
                }
            }
        }
        let pair: Option<(usize, usize)> = match (coupled.as_slice(), bad.as_slice()) {
            ([(a, b)], bad) if bad.iter().all(|j| j == a || j == b) => Some((*a, *b)),
            ([], [a, b]) => Some((*a, *b)),
            _ => None,
        };
        if let Some((a, b)) = pair {
            let coord = |j: usize, m: usize| -> f64 { evecs[m].iter().zip(&dirs[j]).map(|(x, y)| x * y).sum() };
            let (caa, cab, cba, cbb) = (coord(a, a), coord(a, b), coord(b, a), coord(b, b));
            let in_plane = (1.0 - (caa * caa + cab * cab)).abs() <= RESID_MAX && (1.0 - (cba * cba + cbb * cbb)).abs() <= RESID_MAX;
            let dot = |i: usize, j: usize| -> f64 { dirs[i].iter().zip(&dirs[j]).map(|(x, y)| x * y).sum() };
            let cdot = |i: usize, j: usize| -> f64 { dirs[i].iter().zip(&cus[j]).map(|(x, y)| x * y).sum() };
            let angle = cab.abs().max(cba.abs());
            // the rest of the answer is exact
            let others_exact = (0..kk).filter(|j| *j != a && *j != b).all(|j| close(l[j], lam[j]) && close(l[j], qs[j]));
            let others_orthogonal = (0..kk).all(|i| {
                (i + 1..kk).all(|j| {
                    (i, j) == (a, b) || (dot(i, j).abs() <= TAU && cdot(i, j).abs() <= TAU * (qs[i].abs() * qs[j].abs()).sqrt())
                })
            });
            // published values and score covariance of the pair are those of the rotated vectors
            let qa = caa * caa * lam[a] + cab * cab * lam[b];
            let qb = cba * cba * lam[a] + cbb * cbb * lam[b];
            let values_match = close(l[a], qa) && close(l[b], qb) && close(l[a], qs[a]) && close(l[b], qs[b]);
            let cov_ab = caa * cba * lam[a] + cab * cbb * lam[b];
            let cov_match = (cdot(a, b) - cov_ab).abs() <= RESID_MAX * (qs[a].abs() * qs[b].abs()).sqrt();
            // is the rotation visible to any obligation? (whitened covariance / score covariance / singular values)
            let corr = cdot(a, b).abs() / (qs[a].abs() * qs[b].abs()).sqrt();
            let visible = (c.whiten && corr > TAU)
                || cdot(a, b).abs() > TAU * lam1
                || (l[a] - lam[a]).abs() > TAU * lam1
                || (l[b] - lam[b]).abs() > TAU * lam1;
            if visible && in_plane && dot(a, b).abs() <= TAU && angle <= ROT_MAX && others_exact && others_orthogonal && values_match && cov_match {
                rotated = Some((a, b, angle));
            }
        }
    }
    if let Some((a, b, angle)) = rotated {
        spectral = false;
        obs.class("solver_failed");
        obs.class("solver_failed:eigenvector_pair_rotated");
        obs.fail(
            "pca:solver-breakdown:eigenvector-pair-rotated",
            describe(&format!(
                "full-space path: exact decomposition except that components {a} and {b} are rotated by {angle:.2e} rad inside the plane of eigenvectors {a} and {b}"
            )),
        );
    }
    // (B) `inconsistent-components`: in the same full-space path the follow-up iteration works with a singular Gram
    //     matrix (eigenvalues clamped at 1e-10) and can inject errors of order 1e-6·λ₁ into the trailing components.
    //     Precondition: 5k > min(n,p), smallest requested eigenvalue below GARBAGE_TAIL·λ₁, and a component that is
    //     neither an eigenvector on its own scale nor part of a genuine set of Ritz pairs.
    let garbage = resid_own > RESID_MAX && (!ritz_like || mismatch > RESID_MAX);
    obs.class_if(!in_range && garbage, "beyond_singular_ratio_1e3:solver_inaccurate");
    if mispair.is_none() && rotated.is_none() && in_range && small_problem && garbage && lam[k - 1] < GARBAGE_TAIL * lam1 {
        spectral = false;
        obs.class("solver_failed");
        obs.class("solver_failed:inconsistent_tail_components");
        obs.fail(
            "pca:solver-breakdown:inconsistent-components",
            describe(if !ritz_like {
                "full-space path, lambda_k < 1e-4 lambda_1: a returned component is not an eigenvector of the sample covariance on its own scale, and the components are not mutually orthogonal / uncorrelated either"
            } else {
                "full-space path, lambda_k < 1e-4 lambda_1: a returned component is not an eigenvector of the sample covariance on its own scale, and sigma^2/(n-1) is not the variance along it either (no Ritz pair)"
            }),
        );
    }

    // ---- solver accuracy where the configured tolerance is reached with margin --------------------
    // linfa-reduction (since ac3c610) passes precision = 1e-5·|Xc|_F to TruncatedSvd; linfa-linalg squares it and
    // stops LOBPCG when every |A x_j − σ_j² x_j|₂ <= 1e-10·|Xc|_F², A = Xc^T Xc, |Xc|_F² = (n−1)·trace C. In
    // covariance units:   |C v_j − (σ_j²/(n−1)) v_j| <= 1e-10 · trace C   =: one "unit" (relative at every magnitude).
    // It is asserted with a slack factor RITZ_SLACK where LOBPCG is inside its own domain and is not cut short by
    // its iteration limit: 5k <= p, 2n >= 10p (limit min(10·dim, 2n) = 10p) and a relative gap at k of at least
    // RITZ_MIN_GAP. Measured on the unchanged tree over 12 quick seeds (about 240 000 such fits): all <= 1 unit.
    if spectral && !small_problem && 2 * n >= 10 * p {
        let relgap = if k < p { (lam[k - 1] - lam[k]) / lam[k - 1] } else { 1.0 };
        if relgap >= RITZ_MIN_GAP {
            obs.class("ritz_residual_asserted");
            let trace: f64 = (0..p).map(|i| cov[i][i]).sum();
            let unit = 1e-10 * trace;
            for j in 0..kk {
                let r2: f64 = cus[j].iter().zip(&dirs[j]).map(|(a, b)| (a - l[j] * b).powi(2)).sum();
                let r = r2.sqrt() / unit;
                if !obs.ensure(r <= RITZ_SLACK, "pca:ritz-residual", || {
                    format!(
                        "|C v_{j} - (sigma_{j}^2/(n-1)) v_{j}| = {:.3e} = {r:.3e} x the configured solver tolerance 1e-10*trace(C) (n={n}, p={p}, k={k}, relative gap at k = {relgap:.2})",
                        r2.sqrt()
                    )
                }) {
                    break;
                }
            }
        }
    }

    // ---- singular values: order ---------------------------------------------------------------
    for j in 1..kk {
        obs.ensure(sigma[j - 1] >= sigma[j], "pca:order", || {
            format!("singular values not non-increasing: {:?}", sigma)
        });
    }

    // ---- λ₁-scaled optimality obligations ------------------------------------------------------
    // (sigma_j^2/(n-1) = λ_j, span = leading eigenspace, retained variance >= top-k sum and >= random frames).
    let mut optimal: Vec<(&'static str, String)> = vec![];
    // largest deviation of an optimality obligation in units of its own tolerance
    let mut excess = 0.0f64;
    if spectral {
        for j in 0..kk {
            excess = excess.max((l[j] - lam[j]).abs() / (TAU * lam1));
        }
        for j in 0..kk {
            if (l[j] - lam[j]).abs() > TAU * lam1 {
                optimal.push((
                    "pca:singular-value",
                    format!("sigma[{j}]^2/(n-1) = {}, eigenvalue {j} of the sample covariance is {} (lambda_1 = {lam1})", l[j], lam[j]),
                ));
                break;
            }
        }
        if kk == k && (clear_gap || k == p) {
            let lead: Mat = evecs.iter().take(k).cloned().collect();
            let d = projector_diff(&dirs, &lead, p);
            let bound = if k == p { TAU * (p as f64) } else { 5.0 * TAU * lam1 / gap };
            excess = excess.max(d / bound);
            if !(d <= bound) {
                optimal.push((
                    "pca:subspace",
                    format!("projector onto the components differs from the leading-{k} eigenprojector by {d} (bound {bound}, gap/lambda_1 = {})", gap / lam1),
                ));
            }
        }
        let kept = retained(&dirs, &cov);
        let top: f64 = lam.iter().take(kk).sum();
        excess = excess.max((top - kept) / (TAU * lam1));
        if !(kept >= top - TAU * lam1) {
            optimal.push(("pca:retained-variance", format!("components retain variance {kept}, the top-{kk} eigenvalues sum to {top}")));
        }
        let mut rng = SplitMix(c.frame_seed);
        for f in 0..FRAMES {
            let raw: Mat = (0..kk).map(|_| (0..p).map(|_| rng.gauss()).collect()).collect();
            let frame = orthonormal_rows(&raw, p);
            if frame.len() != kk {
                continue;
            }
            let r = retained(&frame, &cov);
            excess = excess.max((r - kept) / (TAU * lam1));
            if !(kept >= r - TAU * lam1) {
                optimal.push((
                    "pca:beaten-by-random-frame",
                    format!("random orthonormal {kk}-frame #{f} retains {r} > {kept} retained by the components"),
                ));
                break;
            }
        }
        if optimal.is_empty() {
            obs.class("judged_spectral");
            obs.class_if(k < p && clear_gap, "judged_spectral_k<p_clear_gap");
            obs.class_if(wide_range, "judged_spectral_wide_range");
            obs.class_if(k > 1 && k < p, "judged_spectral_1<k<p");
            obs.class_if(!small_problem, "judged_spectral_5k<=p");
        } else if small_problem {
            for (sig, msg) in optimal.drain(..) {
                obs.fail(sig, msg);
            }
        } else if resid_own <= RESID_MAX && ritz_like && mismatch <= RESID_MAX && sorted && unit_rows && kk == k && k < p && {
            // (D) `lobpcg-missed-eigenpair` (LOBPCG path 5k <= p, about 1 fit in 2·10^6): every returned pair is an exact
            // eigenpair of C (eigenvector on its own scale, sigma_j^2/(n-1) its variance), components 0..k-2 are the
            // leading ones, but the last one is eigenpair m > k-1: the block iteration locked onto a neighbouring
            // eigenvalue of a trailing cluster and never saw λ_{k-1}. Recognised by exactly that structure.
            let close = |x: f64, y: f64| (x - y).abs() <= RESID_MAX * y.abs();
            (0..kk - 1).all(|j| close(l[j], lam[j])) && !close(l[kk - 1], lam[kk - 1]) && (kk..p).any(|m| close(l[kk - 1], lam[m]))
        } {
            spectral = false;
            obs.class("solver_failed");
            obs.class("solver_failed:lobpcg_missed_eigenpair");
            obs.fail(
                "pca:solver-breakdown:lobpcg-missed-eigenpair",
                describe(&format!(
                    "LOBPCG path: all returned pairs are exact eigenpairs of the sample covariance and the first {} are the leading ones, but the last one is a later eigenpair (lambda_{} was missed); failed: {:?}",
                    kk - 1,
                    kk - 1,
                    optimal.iter().map(|(s, _)| *s).collect::<Vec<_>>()
                )),
            );
        } else if resid_own > RESID_MAX && ritz_like && mismatch <= RESID_MAX && sorted && excess <= NOT_CONVERGED_SLACK {
            // LOBPCG inside its own domain (5k <= p) stopped at its iteration limit (2n) with a component that the
            // independent residual shows is not converged, the answer is a genuine set of Ritz pairs and misses the
            // lambda_1-scaled tolerance by less than a factor NOT_CONVERGED_SLACK: an unconverged iterative solve,
            // counted and not judged (DESIGN §7). Anything further off is reported.
            obs.skip("lobpcg_stopped_at_iteration_limit_marginally_unconverged");
        } else {
            for (sig, msg) in optimal.drain(..) {
                obs.fail(sig, msg);
            }
        }
    }

    let mut orth_ok = true;
    for a in 0..kk {
        for b in a..kk {
            // un-whitened: the components themselves; whitened: their directions (rows are rescaled by design)
            let m = if c.whiten { &dirs } else { &comps };
            let d: f64 = m[a].iter().zip(&m[b]).map(|(u, v)| u * v).sum();
            let want = if a == b { 1.0 } else { 0.0 };
            if (d - want).abs() > TAU {
                orth_ok = false;
                if spectral {
                    obs.fail("pca:orthonormal", format!("<v{a}, v{b}> = {d} (whiten = {})", c.whiten));
                }
            }
        }
    }

    // ---- scores: predict, transform, reference product ---------------------------------------
    // main calls: records in the case's layout (owned array or view, as for fit)
    let z_pred = match obs.call("predict", || match rec.owned() {
        Some(a) if !c.dataset_view => model.predict(a),
        _ => model.predict(&rec.view()),
    }) {
        Some(z) => z,
        None => return,
    };
    let z_tr = match obs.call("transform", || match rec.owned() {
        Some(a) if !c.dataset_view => model.transform(DatasetBase::from(a.clone())).records,
        _ => model.transform(DatasetBase::from(rec.view())).records,
    }) {
        Some(d) => d,
        None => return,
    };
    if !obs.ensure(z_pred.dim() == (n, kk) && z_tr.dim() == (n, kk), "pca:score-shape", || {
        format!("predict gives {:?}, transform {:?}, expected ({n}, {kk})", z_pred.dim(), z_tr.dim())
    }) {
        return;
    }
    obs.ensure(z_pred == z_tr, "pca:predict-vs-transform", || "predict and transform disagree on the training records".to_string());
    let z = to_mat(&z_pred);
    'scores: for i in 0..n {
        for j in 0..kk {
            let mut v = 0.0;
            let mut scale = 0.0;
            for t in 0..p {
                v += (x[i][t] - mu[t]) * comps[j][t];
                scale += (x[i][t].abs() + mu[t].abs()) * comps[j][t].abs();
            }
            if !obs.ensure((z[i][j] - v).abs() <= FORMULA_EPS * scale + 1e-300, "pca:scores", || {
                format!("score[{i}][{j}] = {}, (x - mean)·component = {v}", z[i][j])
            }) {
                break 'scores;
            }
        }
    }
    // the same query matrix in every other layout must give the same scores (other summation order allowed)
    if z_pred.dim() == (n, kk) {
        for lay in Layout::ALL {
            if lay == c.layout {
                continue;
            }
            let q = Records::new(&x, n, p, lay);
            let zq = match obs.call("predict", || match q.owned() {
                Some(a) => model.predict(a),
                None => model.predict(&q.view()),
            }) {
                Some(z) => z,
                None => break,
            };
            let zt = match obs.call("transform", || model.transform(DatasetBase::from(q.view())).records) {
                Some(z) => z,
                None => break,
            };
            if !obs.ensure(zq.dim() == (n, kk) && zt.dim() == (n, kk), "pca:score-shape", || {
                format!("query layout {:?}: predict gives {:?}, transform {:?}", lay, zq.dim(), zt.dim())
            }) {
                break;
            }
            let mut worst: Option<(usize, usize, f64, f64)> = None;
            for i in 0..n {
                for j in 0..kk {
                    let scale: f64 = (0..p).map(|t| (x[i][t].abs() + mu[t].abs()) * comps[j][t].abs()).sum();
                    let tol = FORMULA_EPS * scale + 1e-300;
                    for got in [zq[(i, j)], zt[(i, j)]] {
                        if (got - z[i][j]).abs() > tol && worst.is_none() {
                            worst = Some((i, j, got, z[i][j]));
                        }
                    }
                }
            }
            if let Some((i, j, got, want)) = worst {
                obs.fail(
                    "pca:predict-layout",
                    format!("score[{i}][{j}] of the same records is {got} in layout {:?} but {want} in layout {:?}", lay, c.layout),
                );
                break;
            }
        }
    }
    // entry point `predict_inplace`: the projection written into a caller-supplied buffer must not depend on what
    // the buffer held before — (a) a junk-filled buffer (large finite values or NaN, row- or column-major),
    // (b) one buffer re-used for two consecutive batches of the records
    if z_pred.dim() == (n, kk) {
        let score_tol = |i: usize, j: usize| -> f64 {
            let scale: f64 = (0..p).map(|t| (x[i][t].abs() + mu[t].abs()) * comps[j][t].abs()).sum();
            FORMULA_EPS * scale + 1e-300
        };
        let junk_nan = c.frame_seed & 1 == 1;
        let junk_f = c.frame_seed & 2 == 2;
        obs.class(if junk_nan { "predict_inplace_junk_nan" } else { "predict_inplace_junk_finite" });
        obs.class(if junk_f { "predict_inplace_buffer_col_major" } else { "predict_inplace_buffer_row_major" });
        let fill = |(i, j): (usize, usize)| if junk_nan { f64::NAN } else { 3.0e7 + (i * 31 + j * 7) as f64 };
        let mut buf: Array2<f64> = if junk_f { Array2::from_shape_fn((n, kk).f(), fill) } else { Array2::from_shape_fn((n, kk), fill) };
        if obs.call("predict_inplace", || model.predict_inplace(&rec.view(), &mut buf)).is_some() {
            if obs.ensure(buf.dim() == (n, kk), "pca:score-shape", || format!("predict_inplace leaves a buffer of shape {:?}", buf.dim())) {
                let mut worst: Option<(usize, usize, f64)> = None;
                for i in 0..n {
                    for j in 0..kk {
                        if !((buf[(i, j)] - z[i][j]).abs() <= score_tol(i, j)) && worst.is_none() {
                            worst = Some((i, j, buf[(i, j)]));
                        }
                    }
                }
                if let Some((i, j, got)) = worst {
                    obs.fail(
                        "pca:predict-inplace-dirty-buffer",
                        format!(
                            "predict_inplace into a buffer pre-filled with {} gives score[{i}][{j}] = {got}, predict gives {}",
                            if junk_nan { "NaN".to_string() } else { format!("{}", fill((i, j))) },
                            z[i][j]
                        ),
                    );
                }
            }
        }
        // (b) two batches through one buffer
        let m = n / 2;
        if m >= 1 {
            obs.class("predict_inplace_reused_two_batches");
            let b1 = xa.slice(s![..m, ..]);
            let b2 = xa.slice(s![m..2 * m, ..]);
            let mut buf = model.default_target(&b1);
            let ok1 = obs.call("predict_inplace", || model.predict_inplace(&b1, &mut buf)).is_some();
            let first: Array2<f64> = buf.clone();
            let ok2 = ok1 && obs.call("predict_inplace", || model.predict_inplace(&b2, &mut buf)).is_some();
            if ok2 && first.dim() == (m, kk) && buf.dim() == (m, kk) {
                let mut worst: Option<(usize, usize, usize, f64, f64)> = None;
                for i in 0..m {
                    for j in 0..kk {
                        if !((first[(i, j)] - z[i][j]).abs() <= score_tol(i, j)) && worst.is_none() {
                            worst = Some((1, i, j, first[(i, j)], z[i][j]));
                        }
                        if !((buf[(i, j)] - z[m + i][j]).abs() <= score_tol(m + i, j)) && worst.is_none() {
                            worst = Some((2, i, j, buf[(i, j)], z[m + i][j]));
                        }
                    }
                }
                if let Some((batch, i, j, got, want)) = worst {
                    obs.fail(
                        "pca:predict-inplace-reused-buffer",
                        format!("one buffer used for two batches of {m} rows: batch {batch}, score[{i}][{j}] = {got}, predict on the full records gives {want}"),
                    );
                }
            } else if ok2 {
                obs.fail("pca:score-shape", format!("predict_inplace on a batch of {m} rows leaves buffers {:?} / {:?}", first.dim(), buf.dim()));
            }
        }
    }
    let zcov = covariance(&z, 1.0);
    if !spectral {
        // consequences of the solver failure reported above
    } else if c.whiten {
        for a in 0..kk {
            for b in 0..kk {
                let want = if a == b { 1.0 } else { 0.0 };
                obs.ensure((zcov[a][b] - want).abs() <= TAU, "pca:whitened-covariance", || {
                    format!("covariance of the whitened scores [{a}][{b}] = {} (n = {n})", zcov[a][b])
                });
            }
        }
    } else {
        for a in 0..kk {
            for b in 0..kk {
                if a != b {
                    obs.ensure(zcov[a][b].abs() <= TAU * lam1, "pca:scores-correlated", || {
                        format!("cov(z{a}, z{b}) = {} (lambda_1 = {lam1})", zcov[a][b])
                    });
                }
            }
        }
    }

    // ---- explained variance ------------------------------------------------------------------
    let ev = model.explained_variance().to_vec();
    let ratio = model.explained_variance_ratio().to_vec();
    if obs.ensure(ev.len() == kk && ratio.len() == kk, "pca:shape", || {
        format!("{} explained variances, {} ratios for {kk} components", ev.len(), ratio.len())
    }) {
        for j in 0..kk {
            // what the statement promises: sigma^2/(n-1) = variance of score j (scores of the un-whitened model)
            let want = sigma[j] * sigma[j] / nm1;
            let score_var = if c.whiten { lam[j] } else { zcov[j][j] };
            let ok = ev[j].is_finite()
                && (ev[j] - want).abs() <= FORMULA_EPS * want
                && (!spectral || (ev[j] - score_var).abs() <= TAU * lam1);
            if !ok {
                // the known defect: divisor = number of components − 1 instead of n − 1 (same arithmetic ⇒ bit equality)
                let defect = sigma[j] * sigma[j] / (kk as f64 - 1.0);
                if ev[j] == defect || (ev[j].is_nan() && defect.is_nan()) {
                    obs.fail(
                        "pca:explained-variance:divisor-is-components-minus-1",
                        format!(
                            "explained_variance[{j}] = {} = sigma^2/({kk}-1); sigma^2/(n-1) = {want}, variance of score {j} = {score_var} (n = {n})",
                            ev[j]
                        ),
                    );
                } else {
                    obs.fail(
                        "pca:explained-variance",
                        format!("explained_variance[{j}] = {}, sigma^2/(n-1) = {want}, variance of score {j} = {score_var}", ev[j]),
                    );
                }
            }
        }
        // ratios: finite, >= 0, proportional to sigma_j^2
        let finite = ratio.iter().all(|r| r.is_finite());
        if !finite {
            if kk == 1 && ratio[0].is_nan() && !ev[0].is_finite() {
                obs.fail(
                    "pca:explained-variance-ratio:nan-for-one-component",
                    format!("explained_variance_ratio = {:?} for a single component (inf/inf from the k-1 divisor)", ratio),
                );
            } else {
                obs.fail("pca:explained-variance-ratio:non-finite", format!("explained_variance_ratio = {:?}", ratio));
            }
        } else {
            obs.ensure(ratio.iter().all(|r| *r >= 0.0), "pca:explained-variance-ratio:negative", || {
                format!("explained_variance_ratio = {:?}", ratio)
            });
            obs.ensure(ratio.iter().any(|r| *r > 0.0), "pca:explained-variance-ratio:all-zero", || {
                format!("explained_variance_ratio = {:?}", ratio)
            });
            let s0 = sigma[0] * sigma[0];
            for j in 1..kk {
                let sj = sigma[j] * sigma[j];
                // ratio_j / ratio_0 = sigma_j^2 / sigma_0^2, cross-multiplied
                let (a, b) = (ratio[j] * s0, ratio[0] * sj);
                obs.ensure((a - b).abs() <= 1e-9 * a.abs().max(b.abs()), "pca:explained-variance-ratio:not-proportional", || {
                    format!("ratios {:?} are not proportional to sigma^2 = {:?}", ratio, sigma.iter().map(|s| s * s).collect::<Vec<_>>())
                });
            }
        }
    }

    // ---- inverse transform -------------------------------------------------------------------
    let inv = match obs.call("inverse_transform", || model.inverse_transform(z_pred.clone())) {
        Some(a) => a,
        None => return,
    };
    if !obs.ensure(inv.dim() == (n, p), "pca:inverse-shape", || format!("inverse_transform gives {:?}", inv.dim())) {
        return;
    }
    // orthogonal projector onto the component subspace from the unit directions
    let mut proj = vec![vec![0.0; p]; p];
    for d in &dirs {
        for i in 0..p {
            for j in 0..p {
                proj[i][j] += d[i] * d[j];
            }
        }
    }
    let dir_max2: f64 = comps.iter().flatten().fold(0.0f64, |a, b| a.max(b * b)).max(1.0);
    // V V^T = I is only asserted within TAU, so V^T V may differ from the exact projector by 2·TAU per component
    let tol_proj = 2.0 * TAU * xc_max * (p as f64).sqrt() + FORMULA_EPS * (x_max + xc_max * dir_max2 * (p * kk) as f64);
    let mut bad_proj: Option<(usize, usize, f64, f64)> = None;
    let mut bad_naive = false;
    let mut bad_ident: Option<(usize, usize, f64)> = None;
    for i in 0..n {
        for j in 0..p {
            let got = inv[(i, j)];
            let want: f64 = mu[j] + (0..p).map(|t| xc[i][t] * proj[t][j]).sum::<f64>();
            if (got - want).abs() > tol_proj && bad_proj.is_none() {
                bad_proj = Some((i, j, got, want));
            }
            // what `scores · components + mean` gives (equals the projection only for unit-norm components)
            let naive: f64 = mu[j] + (0..kk).map(|a| z[i][a] * comps[a][j]).sum::<f64>();
            let scale: f64 = mu[j].abs() + (0..kk).map(|a| (z[i][a] * comps[a][j]).abs()).sum::<f64>();
            if (got - naive).abs() > FORMULA_EPS * scale + 1e-300 {
                bad_naive = true;
            }
            if kk == p && (got - x[i][j]).abs() > tol_proj && bad_ident.is_none() {
                bad_ident = Some((i, j, got));
            }
        }
    }
    if !orth_ok {
        // the projector built from the directions is meaningless; the cause is reported above
    } else if let Some((i, j, got, want)) = bad_proj {
        if c.whiten && !bad_naive {
            obs.fail(
                "pca:inverse-transform:whitening-not-undone",
                format!(
                    "whitened model: inverse_transform(transform(X))[{i}][{j}] = {got} equals scores·components + mean, \
                     but the orthogonal projection onto the component subspace about the mean is {want} (x = {})",
                    x[i][j]
                ),
            );
        } else {
            obs.fail(
                "pca:inverse-transform",
                format!("inverse_transform(transform(X))[{i}][{j}] = {got}, orthogonal projection about the mean gives {want}"),
            );
        }
    } else if let Some((i, j, got)) = bad_ident {
        obs.fail(
            "pca:inverse-transform:not-identity",
            format!("all {p} components kept, but inverse_transform(transform(X))[{i}][{j}] = {got} != x = {}", x[i][j]),
        );
    }
}

// ------------------------------------------------------------------------------------------------
// error class

pub fn check_errors(c: &ErrCase, obs: &mut Obs) {
    let mut rng = SplitMix(c.seed);
    let xa = Array2::from_shape_fn((c.n, c.p), |_| rng.gauss());
    let ds = DatasetBase::from(xa);
    obs.class_if(c.n == 0, "empty_dataset");
    obs.class_if(c.k == 0, "k=0");
    obs.class_if(c.k > c.p, "k>p");
    let must_fail = c.n == 0 || c.k == 0 || c.k > c.p;
    obs.class_if(!must_fail, "valid_neighbour");
    obs.nontrivial_if(must_fail);
    let r = match obs.call("fit", || Pca::params(c.k).whiten(c.whiten).fit(&ds).map(|m| m.components().dim())) {
        Some(r) => r,
        None => return,
    };
    match (must_fail, r) {
        (true, Ok(d)) => obs.fail(
            "pca:error-expected",
            format!("fit returned a model with components {:?} for n={}, p={}, embedding size {}", d, c.n, c.p, c.k),
        ),
        (false, Err(e)) => obs.fail(
            "pca:fit-error",
            format!("fit failed on a valid input (n={}, p={}, k={}): {e}", c.n, c.p, c.k),
        ),
        (false, Ok(d)) => {
            obs.ensure(d.1 == c.p && d.0 >= 1 && d.0 <= c.k, "pca:shape", || {
                format!("components {:?} for p={}, k={}", d, c.p, c.k)
            });
        }
        (true, Err(_)) => {}
    }
}

pub fn property() -> Property {
    Property {
        id: "C18",
        rule: "cases = (p 1..=8 [4 of 5] or 10..=16 [1 of 5: the only place where an embedding size >= 2 has 5k <= p], n (max(p+1,5))..=80, embedding size 1..=p \
               with k=1 and k=p over-weighted (p>=10: also 2..=p/5), whitening on/off, shape in {isotropic, rotated anisotropic with population singular ratio \
               <= 10^2.7, low-rank signal + noise 2e-3..1e-1 of the top signal singular value, columns scaled by 10^(-2.5..0)}, column offsets {none, |o|<=10, \
               |o|<=1000}, global scale 10^{0,1,2} (9 of 13) or 10^{-2,-3,-5,-6} (1 of 13 each, offsets shrunk alike), memory layout of the records given to fit/predict/transform in {row-major owned 3, column-major owned 3, \
               every-2nd-row view, every-2nd-column view, reversed-rows view, reversed-columns view 1 each}, fit on Dataset (owned) or DatasetView); the record matrix is derived deterministically from generated gaussians. Reference = two-pass covariance + \
               own Jacobi eigen-decomposition. Non-trivial = (k < p with spectral gap at k > 1e-3*lambda_1) or k = 1 or whitening on; distinct = distinct \
               canonical JSON of the case. The error class (empty data, k = 0, k > p, with valid neighbours) is enumerated.",
        assumptions: vec![
            format!("lambda_1-scaled obligations (sigma_j^2/(n-1) = lambda_j, retained variance >= top-k sum and >= {FRAMES} random orthonormal frames, cov of un-whitened scores diagonal, var(score_j) = explained variance) use +- TAU*lambda_1 with TAU = {TAU:e}; dimensionless ones (V V^T = I, whitened covariance = I) use +- TAU (LOBPCG stops at 1e-5)"),
            format!("span(V) vs leading eigenspace: Frobenius distance of the projectors <= 5*TAU*lambda_1/gap, asserted only when gap > {GAP_MIN:e}*lambda_1 (k = p: <= TAU*p)"),
            format!("formula re-computations (scores, mean, inverse transform, explained variance vs sigma^2/(n-1)) use |a-b| <= {FORMULA_EPS:e} * sum of term magnitudes; inverse transform additionally +- 2*sqrt(p)*TAU*max|x - mean|"),
            "with whitening the rows of components() are rescaled by design; orthonormality, eigenspace and optimality are asserted for their directions (rows / norm)".into(),
            "explained-variance ratios only have to be finite, >= 0, not all zero and proportional to sigma_j^2 (any positive common factor)".into(),
            "inverse_transform(transform(X)) is required to be the orthogonal projection about the mean for whitened models too (the statement quantifies over whitening on/off; DESIGN restricted it to un-whitened models)".into(),
            format!("design domain singular ratio <= 1e3: when lambda_k < {RANGE_MIN:e}*lambda_1 (sampling fluctuation, n close to p) only the solver-independent obligations are judged (class beyond_singular_ratio_1e3)"),
            format!("small-magnitude data (global scale 10^-2, 10^-3, 10^-5, 10^-6, offsets shrunk with the data) is judged with the same lambda_1-relative tolerances in both solver paths (measured on the tree with ac3c610: no failure in 12 quick seeds); the only magnitude-dependent bound left is linfa's absolute clamp sigma >= 1e-8 (original code, 'cut singular values to avoid numerical problems'): sigma-dependent obligations need the reference sigma_k = sqrt((n-1)*lambda_k) >= {SIGMA_MIN:e}, ten times the clamp"),
            format!("PCA exposes no convergence flag; every obligation is evaluated on whatever fit returns, with one exception: outside 5k > p, a result that the independent residual shows unconverged on a component's own scale, that is a genuine set of Ritz pairs and misses the lambda_1-scaled optimality tolerances by at most a factor {NOT_CONVERGED_SLACK} is counted as not judged (LOBPCG stopped at its iteration limit 2n)"),
            format!("known findings are recognised only under the exact precondition of the external defect: pca:solver-breakdown:eigenpairs-misassigned = full-space path (5k > min(n,p)) and the answer is the exact decomposition up to ONE transposition: all components eigenvectors with unit-scaled mutually (C-)orthogonal rows, all sigma_j^2/(n-1) sorted and equal to the eigenvalue of their rank, every component carrying its own variance except one pair (a,b) with lambda_a + lambda_b < {MISPAIR_SUM}*lambda_1 (necessary condition of the skipped 2x2 rotation in linfa-linalg symmetric_eig) carrying each other's (b may be truncated away); pca:solver-breakdown:inconsistent-components = full-space path, lambda_k < {GARBAGE_TAIL:e}*lambda_1, a component that is no eigenvector within {RESID_MAX:e} of its own variance and no member of a set of Ritz pairs; pca:solver-breakdown:eigenvector-pair-rotated = full-space path, exact answer except two components a<b that span the eigen-plane span{{e_a,e_b}} but are rotated in it by at most {ROT_MAX} rad, with sigma_a^2/(n-1), sigma_b^2/(n-1) equal to the Rayleigh quotients of the rotated vectors and cov(z_a,z_b) = sin*cos*(lambda_a-lambda_b) (the form the defect takes after linfa's sigma_j = |Xc v_j| post-processing); pca:solver-breakdown:lobpcg-missed-eigenpair = LOBPCG path (5k <= p), an optimality obligation fails while every returned pair is an exact eigenpair, the first k-1 are the leading ones and the last one equals a later eigenvalue lambda_m, m >= k; every other deviation fails under the ordinary signatures (pca:singular-value, pca:subspace, pca:retained-variance, pca:whitened-covariance, ...)"),
            format!("pca:ritz-residual: |C v_j - (sigma_j^2/(n-1)) v_j| <= {RITZ_SLACK} * 1e-10 * trace C (the stopping tolerance linfa configures since ac3c610: precision 1e-5*|Xc|_F, squared by linfa-linalg, on the eigenproblem of Xc^T Xc) is asserted where LOBPCG runs inside its domain and is not cut short by its iteration limit: 5k <= p, 2n >= 10p, relative gap at k >= {RITZ_MIN_GAP}; measured on the unchanged tree (12 quick seeds, about 240 000 such fits): all within 1 x the tolerance. Outside that regime the unchanged tree itself leaves residuals up to ~3e3 x the tolerance (clustered trailing eigenvalues, iteration limit 2n), so nothing tighter than the lambda_1-scaled TAU obligations can be asserted there"),
            "a panic of fit whose payload is linfa-linalg's `NaN values in array` AND whose recorded site is linfa-linalg .../eigh.rs is signature pca:solver-breakdown:nan-panic; any other panic (other payload or other site) is panic:fit".into(),
            "exactly k components are expected inside the design domain (the solver's rank cut-off pinned by test_explained_variance_cutoff is far below it)".into(),
            "layouts: the fitted model is judged by the same obligations whatever the layout; predict / transform of the same records in each of the other five layouts must equal the main scores within the formula tolerance (signature pca:predict-layout)".into(),
            "entry points: besides predict and transform, predict_inplace is called with a junk-filled buffer (large finite values or NaN, row- or column-major, chosen by the case) and with one buffer re-used for two consecutive batches; the scores must equal those of predict within the formula tolerance (signatures pca:predict-inplace-dirty-buffer, pca:predict-inplace-reused-buffer)".into(),
            "trusted base: ndarray, vengine::num::{covariance, jacobi_eigh, col_means}".into(),
        ],
        subs: vec![
            prop_sub("pca", 240_000, 2_400_000, case_strategy, check_pca)
                .chunks(16)
                .require(&[
                    "judged_spectral",
                    "judged_spectral_k<p_clear_gap",
                    "judged_spectral_5k<=p",
                    "whiten",
                    "k=1",
                    "k=p",
                    "k>=2_and_5k<=p",
                    "layout_col_major",
                    "layout_col_major_unequal_column_means",
                    "fit_DatasetView",
                    "small_magnitude_judged",
                    "predict_inplace_junk_finite",
                    "predict_inplace_junk_nan",
                    "predict_inplace_reused_two_batches",
                ]),
            enum_sub("errors", |t: Tier| err_cases(t), check_errors).chunks(2),
        ],
    }
}
