//! Case type, generator and the deterministic construction of the record matrix.
//!
//! A case holds plain generated numbers (a gaussian base matrix, a gaussian mixing matrix, a few
//! shape parameters); the record matrix is *derived* from them, so a shrunk replay file stays
//! readable and the construction is reproducible without any RNG.

use proptest::prelude::*;
use serde::{Deserialize, Serialize};
use vengine::gen::{gauss_matrix, idx};
use vengine::num::Mat;
use vengine::Tier;

#[derive(Debug, Clone, Serialize, Deserialize, PartialEq)]
pub enum Shape {
    /// X = G
    Iso,
    /// X = G · diag(10^(-r·j/(p-1))) · Q, Q = Gram–Schmidt of `mix` (population singular ratio 10^r, r ≤ 2.7)
    Aniso { log_ratio: f64 },
    /// X = S·sqrt(n)/|S|_F + noise · G', S = G[:, ..rank] · mix[..rank, :] (noise 2e-3..1e-1 of the largest signal singular value)
    LowRank { rank: usize, noise: f64 },
    /// X = G · diag(10^((e_j − max e) / 2)), e_j ∈ −5..=0 (badly scaled columns, column scales 3e-3..1)
    Scaled { half_exps: Vec<i8> },
}

/// Memory layout / container form in which the record matrix is handed to linfa.
#[derive(Debug, Clone, Copy, Serialize, Deserialize, PartialEq, Eq, Default)]
pub enum Layout {
    /// owned, standard (C) order — what `Array2::from_shape_fn((n, p), ..)` gives
    #[default]
    RowMajor,
    /// owned, Fortran order — `Array2::from_shape_fn((n, p).f(), ..)`, `a.t().to_owned()`-like
    ColMajor,
    /// every second row of a (2n × p) row-major array (non-contiguous view)
    StridedRows,
    /// every second column of a (n × 2p) row-major array (non-contiguous view)
    StridedCols,
    /// contiguous view with reversed row axis (negative stride)
    ReversedRows,
    /// contiguous view with reversed column axis (negative stride)
    ReversedCols,
}

impl Layout {
    pub const ALL: [Layout; 6] = [
        Layout::RowMajor,
        Layout::ColMajor,
        Layout::StridedRows,
        Layout::StridedCols,
        Layout::ReversedRows,
        Layout::ReversedCols,
    ];
    pub fn is_owned(self) -> bool {
        matches!(self, Layout::RowMajor | Layout::ColMajor)
    }
}

#[derive(Debug, Clone, Serialize, Deserialize)]
pub struct Case {
    pub n: usize,
    pub p: usize,
    /// embedding size, 1..=p
    pub k: usize,
    pub whiten: bool,
    pub shape: Shape,
    /// n × p standard gaussians (rounded to 2^-20)
    pub g: Mat,
    /// p × p standard gaussians: rotation source (Aniso) / loadings (LowRank)
    pub mix: Mat,
    /// per-column offset added last (all zero in the "centred" class)
    pub offsets: Vec<f64>,
    /// global factor 10^global_exp applied to the centred part (and, when negative, to the offsets)
    pub global_exp: i8,
    /// seed of the 50 competing random orthonormal frames
    pub frame_seed: u64,
    /// layout of the records given to `fit` and to the main `predict` / `transform` calls
    #[serde(default)]
    pub layout: Layout,
    /// fit a `DatasetView` (record and target views) instead of an owned `Dataset`; view layouts are always views
    #[serde(default)]
    pub dataset_view: bool,
}

/// Gram–Schmidt (twice) on the rows of `m`; rows that degenerate are replaced by the first unit
/// vector that keeps the frame independent. Always returns an orthonormal set of `m.len()` rows.
pub fn orthonormal_rows(m: &Mat, p: usize) -> Mat {
    let mut out: Mat = Vec::with_capacity(m.len());
    for row in m.iter() {
        let mut cands: Vec<Vec<f64>> = vec![(0..p).map(|j| row.get(j).copied().unwrap_or(0.0)).collect()];
        for e in 0..p {
            let mut u = vec![0.0; p];
            u[e] = 1.0;
            cands.push(u);
        }
        for mut v in cands {
            let n0: f64 = v.iter().map(|x| x * x).sum::<f64>().sqrt();
            if !(n0 > 0.0) || !n0.is_finite() {
                continue;
            }
            for _ in 0..2 {
                for q in out.iter() {
                    let d: f64 = q.iter().zip(&v).map(|(a, b)| a * b).sum();
                    for (vi, qi) in v.iter_mut().zip(q) {
                        *vi -= d * qi;
                    }
                }
            }
            let n1: f64 = v.iter().map(|x| x * x).sum::<f64>().sqrt();
            if n1 > 1e-6 * n0 {
                for vi in v.iter_mut() {
                    *vi /= n1;
                }
                out.push(v);
                break;
            }
        }
        if out.len() >= p {
            break;
        }
    }
    out
}

/// The record matrix of a case (n rows, p columns).
pub fn build_x(c: &Case) -> Mat {
    let (n, p) = (c.n, c.p);
    let g = |i: usize, j: usize| -> f64 { c.g.get(i).and_then(|r| r.get(j)).copied().unwrap_or(0.0) };
    let mut x = vec![vec![0.0; p]; n];
    match &c.shape {
        Shape::Iso => {
            for i in 0..n {
                for j in 0..p {
                    x[i][j] = g(i, j);
                }
            }
        }
        Shape::Aniso { log_ratio } => {
            let q = orthonormal_rows(&c.mix, p);
            let s: Vec<f64> = (0..p)
                .map(|j| if p > 1 { 10f64.powf(-log_ratio * j as f64 / (p - 1) as f64) } else { 1.0 })
                .collect();
            for i in 0..n {
                for j in 0..p {
                    let mut v = 0.0;
                    for l in 0..p {
                        let qlj = q.get(l).and_then(|r| r.get(j)).copied().unwrap_or(0.0);
                        v += g(i, l) * s[l] * qlj;
                    }
                    x[i][j] = v;
                }
            }
        }
        Shape::LowRank { rank, noise } => {
            let r = (*rank).min(p);
            let mut fro2 = 0.0;
            for i in 0..n {
                for j in 0..p {
                    let mut v = 0.0;
                    for l in 0..r {
                        let w = c.mix.get(l).and_then(|row| row.get(j)).copied().unwrap_or(0.0);
                        v += g(i, l) * w;
                    }
                    x[i][j] = v;
                    fro2 += v * v;
                }
            }
            // signal normalised to Frobenius norm sqrt(n) (largest singular value <= sqrt(n), = for rank 1);
            // the noise matrix noise·G' has singular values about noise·(sqrt(n) ± sqrt(p))
            let f = if fro2 > 0.0 { (n as f64 / fro2).sqrt() } else { 0.0 };
            for i in 0..n {
                for j in 0..p {
                    // the noise uses the columns of G cyclically shifted by `r` with alternating signs, so
                    // that it is not the same draw as the factor scores
                    let e = g(i, (j + r) % p) * if (i + j) % 2 == 0 { 1.0 } else { -1.0 };
                    x[i][j] = x[i][j] * f + noise * e;
                }
            }
        }
        Shape::Scaled { half_exps } => {
            for i in 0..n {
                for j in 0..p {
                    // relative to the largest column, so that the overall scale is set by `global_exp` alone
                    let emax = half_exps.iter().copied().max().unwrap_or(0) as f64;
                    let e = half_exps.get(j).copied().unwrap_or(0) as f64;
                    x[i][j] = g(i, j) * 10f64.powf((e - emax) / 2.0);
                }
            }
        }
    }
    let gs = 10f64.powi(c.global_exp as i32);
    for row in x.iter_mut() {
        for (j, v) in row.iter_mut().enumerate() {
            // small-magnitude data (global_exp < 0): the offsets shrink with the data, so that the relative
            // structure is that of the unit-scale cases
            *v = *v * gs + c.offsets.get(j).copied().unwrap_or(0.0) * gs.min(1.0);
        }
    }
    x
}

fn shape_strategy(p: usize) -> BoxedStrategy<Shape> {
    let aniso = (0u16..=1000).prop_map(|v| Shape::Aniso { log_ratio: 2.7 * v as f64 / 1000.0 });
    let scaled = proptest::collection::vec(-5i8..=0, p).prop_map(|half_exps| Shape::Scaled { half_exps });
    if p >= 2 {
        let lowrank = (any::<u16>(), 0u16..=1000).prop_map(move |(r, v)| Shape::LowRank {
            rank: 1 + idx(r, p - 1),
            // 2e-3 ..= 1e-1 of the largest signal singular value, log-uniform
            noise: 10f64.powf(-2.7 + 1.7 * v as f64 / 1000.0),
        });
        prop_oneof![2 => Just(Shape::Iso), 3 => aniso, 3 => lowrank, 2 => scaled].boxed()
    } else {
        prop_oneof![2 => Just(Shape::Iso), 1 => scaled].boxed()
    }
}

fn offsets_strategy(p: usize) -> BoxedStrategy<Vec<f64>> {
    prop_oneof![
        3 => Just(vec![0.0; p]),
        2 => proptest::collection::vec((-40i32..=40).prop_map(|v| v as f64 * 0.25), p),
        2 => proptest::collection::vec((-8i32..=8).prop_map(|v| v as f64 * 125.0), p),
    ]
    .boxed()
}

pub fn case_strategy(tier: Tier) -> impl Strategy<Value = Case> {
    let max_n = tier.pick(80usize, 80usize);
    // p 1..=8 as designed; p 10..=16 is added (1 case in 5) because it is the only place where an embedding
    // size >= 2 satisfies 5k <= p, i.e. where LOBPCG runs inside its own domain of validity
    prop_oneof![4 => 1usize..=8, 1 => 10usize..=16]
        .prop_flat_map(move |p| {
            let k = if p >= 10 {
                prop_oneof![1 => Just(1usize), 1 => Just(p), 2 => 1usize..=p, 4 => 2usize..=p / 5].boxed()
            } else {
                // embedding size: k = 1, k = p and the middle all get weight
                prop_oneof![1 => Just(1usize), 1 => Just(p), 3 => 1usize..=p].boxed()
            };
            (
                Just(p),
                (p + 1).max(5)..=max_n,
                k,
                any::<bool>(),
                shape_strategy(p),
                offsets_strategy(p),
                prop_oneof![5 => Just(0i8), 2 => Just(1i8), 2 => Just(2i8), 1 => Just(-2i8), 1 => Just(-3i8), 1 => Just(-5i8), 1 => Just(-6i8)],
                (
                    any::<u64>(),
                    prop_oneof![
                        3 => Just(Layout::RowMajor),
                        3 => Just(Layout::ColMajor),
                        1 => Just(Layout::StridedRows),
                        1 => Just(Layout::StridedCols),
                        1 => Just(Layout::ReversedRows),
                        1 => Just(Layout::ReversedCols),
                    ],
                    any::<bool>(),
                ),
            )
        })
        .prop_flat_map(|(p, n, k, whiten, shape, offsets, global_exp, (frame_seed, layout, dataset_view))| {
            (gauss_matrix(n, p), gauss_matrix(p, p)).prop_map(move |(g, mix)| Case {
                n,
                p,
                k,
                whiten,
                shape: shape.clone(),
                g,
                mix,
                offsets: offsets.clone(),
                global_exp,
                frame_seed,
                layout,
                dataset_view,
            })
        })
}

// ------------------------------------------------------------------------------------------------
// error class

#[derive(Debug, Clone, Serialize, Deserialize)]
pub struct ErrCase {
    pub n: usize,
    pub p: usize,
    pub k: usize,
    pub whiten: bool,
    pub seed: u64,
}

/// Every (n, p, k) of the error class and its valid neighbours: n ∈ {0, p+1, p+4}, p ∈ 0..=6, k ∈ 0..=p+2.
pub fn err_cases(_tier: Tier) -> Vec<ErrCase> {
    let mut v = vec![];
    for p in 0usize..=6 {
        for n in [0usize, p + 1, p + 4] {
            for k in 0..=p + 2 {
                for whiten in [false, true] {
                    v.push(ErrCase { n, p, k, whiten, seed: (p * 131 + n * 17 + k) as u64 });
                }
            }
        }
    }
    v
}
