fn main() {
    vengine::main(c18::property())
}
