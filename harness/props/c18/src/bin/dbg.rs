use c18::data::{build_x, Case};
use c18::Records;
use linfa::traits::Fit;
use linfa::DatasetBase;
use linfa_reduction::Pca;
use vengine::num::{covariance, jacobi_eigh};
fn main() {
    for f in std::env::args().skip(1) {
        let v: serde_json::Value = serde_json::from_str(&std::fs::read_to_string(&f).unwrap()).unwrap();
        let c: Case = serde_json::from_value(v["case"].clone()).unwrap();
        let x = build_x(&c);
        let rec = Records::new(&x, c.n, c.p, c.layout);
        let cov = covariance(&x, 1.0);
        let (lam, ev) = jacobi_eigh(&cov);
        let m = Pca::params(c.k).whiten(c.whiten).fit(&DatasetBase::from(rec.view())).unwrap();
        let nm1 = c.n as f64 - 1.0;
        println!("{f}\n n={} p={} k={} whiten={}", c.n, c.p, c.k, c.whiten);
        println!(" lam/lam1 {:?}", lam.iter().map(|l| format!("{:.3e}", l / lam[0])).collect::<Vec<_>>());
        println!(" l/lam1   {:?}", m.singular_values().iter().map(|s| format!("{:.3e}", s * s / nm1 / lam[0])).collect::<Vec<_>>());
        for (j, r) in m.components().rows().into_iter().enumerate() {
            let nn = r.dot(&r).sqrt();
            let d: Vec<f64> = r.iter().map(|v| v / nn).collect();
            let co: Vec<String> = ev.iter().map(|e| { let t: f64 = e.iter().zip(&d).map(|(a, b)| a * b).sum(); if t.abs() < 5e-4 { "  .   ".into() } else { format!("{:+.3}", t) } }).collect();
            println!(" comp {j:2} norm {:.3e}: {}", nn, co.join(" "));
        }
    }
}
