use c18::data::{Case, Shape};
use vengine::gen::SplitMix;
use vengine::Obs;

fn gm(rng: &mut SplitMix, n: usize, p: usize) -> Vec<Vec<f64>> {
    (0..n).map(|_| (0..p).map(|_| (rng.gauss() * 4.0).round() / 4.0).collect()).collect()
}

fn main() {
    let out = std::env::args().nth(1).unwrap();
    let wanted = [
        "pca:explained-variance:divisor-is-components-minus-1",
        "pca:explained-variance-ratio:nan-for-one-component",
        "pca:inverse-transform:whitening-not-undone",
        "pca:solver-breakdown:inconsistent-components",
        "pca:solver-breakdown:not-leading-eigenpairs",
        "pca:solver-breakdown:nan-panic",
        "pca:solver-breakdown:eigenpairs-misassigned",
    ];
    std::panic::set_hook(Box::new(|_| {}));
    let mut found: std::collections::BTreeMap<&str, (usize, Case, String)> = Default::default();
    let mut rng = SplitMix(std::env::args().nth(3).and_then(|s| s.parse().ok()).unwrap_or(20261002));
    let only_nl = std::env::args().nth(2).is_some();
    for iter in 0..(if only_nl { 700000usize } else { 400000 }) {
        let p = 1 + rng.below(if iter < 200000 { 4 } else { 8 });
        let n = p + 1 + rng.below(if iter < 200000 { 5 } else { 40 });
        let n = n.max(5);
        let (p, k) = if only_nl { let pk = [(4usize, 2usize), (6, 2), (6, 3), (8, 2), (8, 4)][rng.below(5)]; pk } else { (p, 1 + rng.below(p)) };
        let n = if only_nl { p + 1 + rng.below(30) } else { n };
        let whiten = rng.below(2) == 1;
        let shape = match rng.below(4) {
            0 => Shape::Iso,
            1 if p >= 2 => Shape::LowRank { rank: 1 + rng.below(p - 1), noise: [0.004, 0.01, 0.05][rng.below(3)] },
            2 => Shape::Scaled { half_exps: (0..p).map(|_| -(rng.below(6) as i8)).collect() },
            _ => Shape::Aniso { log_ratio: [1.0, 2.0, 2.5][rng.below(3)] },
        };
        let global_exp = [0i8, 0, 2][rng.below(3)];
        let c = Case {
            n, p, k, whiten, shape,
            g: gm(&mut rng, n, p),
            mix: gm(&mut rng, p, p),
            offsets: vec![0.0; p],
            global_exp,
            frame_seed: 1,
        };
        let mut obs = Obs::default();
        c18::check_pca(&c, &mut obs);
        for f in &obs.fails {
            if let Some(w) = wanted.iter().find(|w| **w == f.sig) {
                // for the divisor signature prefer a case with k >= 2 (finite wrong value)
                if *w == "pca:explained-variance:divisor-is-components-minus-1" && k < 2 { continue; }
                if *w == "pca:inverse-transform:whitening-not-undone" && obs.fails.iter().any(|g| g.sig.contains("solver")) { continue; }
                let size = n * p * 100 + if c.shape == Shape::Iso { 0 } else { 50 } + global_exp as usize;
                if found.get(w).map(|x| x.0 > size).unwrap_or(true) {
                    found.insert(w, (size, c.clone(), f.msg.clone()));
                }
            } else {
                eprintln!("UNEXPECTED {} :: {}", f.sig, f.msg);
                let v = serde_json::json!({"case": c, "message": f.msg, "property": "C18", "seed": 0, "shrunk": false, "signature": f.sig, "sub": "pca", "tier": "handmade"});
                std::fs::write(format!("{out}/unexpected-{iter}.json"), serde_json::to_string(&v).unwrap()).unwrap();
            }
        }
    }
    for (sig, (_, c, msg)) in found {
        let js = serde_json::to_string(&c).unwrap();
        let h = vengine::fnv64(js.as_bytes());
        let v = serde_json::json!({"case": c, "message": msg, "property": "C18", "seed": 0, "shrunk": true, "signature": sig, "sub": "pca", "tier": "handmade"});
        let path = format!("{out}/C18-pca-{:016x}.json", h);
        std::fs::write(&path, serde_json::to_string_pretty(&v).unwrap()).unwrap();
        println!("{sig} -> {path} (n={}, p={}, k={}, whiten={}, {:?}, global {})\n    {}", c.n, c.p, c.k, c.whiten, c.shape, c.global_exp, &msg[..msg.len().min(300)]);
    }
}
