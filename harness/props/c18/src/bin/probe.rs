use linfa::traits::Fit;
use linfa::DatasetBase;
use linfa_reduction::Pca;
use ndarray::Array2;
use vengine::gen::SplitMix;
use vengine::num::{covariance, jacobi_eigh};

fn main() { std::panic::set_hook(Box::new(|_| {}));
    let args: Vec<String> = std::env::args().collect();
    let scale: f64 = args.get(1).and_then(|s| s.parse().ok()).unwrap_or(1.0);
    let reps: usize = args.get(2).and_then(|s| s.parse().ok()).unwrap_or(200);
    let nfix: usize = args.get(3).and_then(|s| s.parse().ok()).unwrap_or(0);
    println!("scale {scale}; rows: p, cols: k; entries = #bad(sigma^2 rel err > 1e-6 of lam1) / reps, max rel err");
    let plist: Vec<usize> = args.get(4).map(|s| s.split(",").map(|v| v.parse().unwrap()).collect()).unwrap_or((1..=8).collect());
    let kmax: usize = args.get(5).and_then(|s| s.parse().ok()).unwrap_or(99);
    for p in plist {
        let mut line = format!("p={p}: ");
        for k in 1..=p.min(kmax) {
            let mut bad = 0;
            let mut worst = 0.0f64; let mut pan = 0;
            for rep in 0..reps {
                let mut rng = SplitMix((p * 1000 + k * 100 + rep) as u64 * 7919 + 13);
                let n = if nfix > 0 { nfix.max(p + 1) } else { p + 1 + rng.below(40) };
                let x: Vec<Vec<f64>> = (0..n).map(|_| (0..p).map(|_| rng.gauss() * scale).collect()).collect();
                let xa = Array2::from_shape_fn((n, p), |(i, j)| x[i][j]);
                let cov = covariance(&x, 1.0);
                let (lam, _) = jacobi_eigh(&cov);
                let m = match vengine::guard(|| Pca::params(k).fit(&DatasetBase::from(xa))) { Ok(Ok(m)) => m, Ok(Err(e)) => { println!("err {e}"); continue; }, Err(_) => { pan += 1; continue; } };
                let s = m.singular_values();
                let mut e = 0.0f64;
                if s.len() != k { e = 9.0; }
                for j in 0..s.len().min(k) {
                    e = e.max((s[j] * s[j] / (n as f64 - 1.0) - lam[j]).abs() / lam[0]);
                }
                if e > 1e-6 { bad += 1; }
                worst = worst.max(e);
            }
            line += &format!("k{k}:{bad}/{pan}p/{:.0e} ", worst);
        }
        println!("{line}");
    }
}
