use c18::data::{build_x, Case};
use linfa::traits::{Fit, Predict};
use linfa::DatasetBase;
use linfa_reduction::Pca;
use ndarray::Array2;
use vengine::num::{covariance, jacobi_eigh};

fn main() {
    let f = std::env::args().nth(1).unwrap();
    let v: serde_json::Value = serde_json::from_str(&std::fs::read_to_string(f).unwrap()).unwrap();
    let c: Case = serde_json::from_value(v["case"].clone()).unwrap();
    let x = build_x(&c);
    let xa = Array2::from_shape_fn((c.n, c.p), |(i, j)| x[i][j]);
    let cov = covariance(&x, 1.0);
    let (lam, ev) = jacobi_eigh(&cov);
    println!("lam {:?}", lam);
    let m = Pca::params(c.k).whiten(c.whiten).fit(&DatasetBase::from(xa.clone())).unwrap();
    let s = m.singular_values();
    println!("s2/(n-1) {:?}", s.iter().map(|s| s * s / (c.n as f64 - 1.0)).collect::<Vec<_>>());
    let comps = m.components();
    for r in comps.rows() {
        let nn = r.dot(&r).sqrt();
        let d: Vec<f64> = r.iter().map(|v| v / nn).collect();
        // coordinates in the reference eigenbasis
        let co: Vec<String> = ev.iter().map(|e| format!("{:+.4}", e.iter().zip(&d).map(|(a, b)| a * b).sum::<f64>())).collect();
        println!("norm {:.4e} in eigenbasis: {}", nn, co.join(" "));
    }
    let z = m.predict(&xa);
    let zm: Vec<Vec<f64>> = z.rows().into_iter().map(|r| r.to_vec()).collect();
    let zc = covariance(&zm, 1.0);
    for r in zc { println!("zcov {:?}", r.iter().map(|v| format!("{:+.3e}", v)).collect::<Vec<_>>().join(" ")); }
}
