//! Everything that touches linfa: build the dataset, fit, predict, and copy the public tree
//! (`root_node`, `children`, `split`, `prediction`, `depth`, `is_leaf`) into plain data.

use crate::case::{Case, LabelKind, Layout};
use linfa::prelude::*;
use linfa::{Float, Label};
use linfa_trees::{DecisionTree, SplitQuality, TreeNode};
use ndarray::{s, Array1, Array2, ArrayBase, ArrayView2, Data, Ix2, ShapeBuilder};
use vengine::Obs;

/// label id reported when a label is not one of the case's class labels
pub const UNSEEN: i16 = -1;

#[derive(Debug, Clone)]
pub struct Node {
    pub depth: usize,
    pub is_leaf: bool,
    pub left: Option<usize>,
    pub right: Option<usize>,
    pub parent: Option<usize>,
    pub feat: usize,
    pub thr: f64,
    pub dec: f64,
    /// `prediction()` of the node: Some(id) for leaves
    pub pred: Option<i16>,
}

#[derive(Debug, Clone, Default)]
pub struct Fitted {
    pub nodes: Vec<Node>,
    pub truncated: bool,
    pub pred_train: Vec<i16>,
    pub pred_query: Vec<i16>,
    pub importance: Option<Vec<f64>>,
    pub mean_decrease: Option<Vec<f64>>,
    pub api_max_depth: usize,
    pub api_num_leaves: usize,
    pub api_iter_count: usize,
    pub api_features: Vec<usize>,
}

const MAX_NODES: usize = 200_000;

fn extract<F: Float, L: Label>(root: &TreeNode<F, L>, id_of: &dyn Fn(&L) -> i16) -> (Vec<Node>, bool) {
    let mut nodes: Vec<Node> = vec![];
    let mut stack: Vec<(&TreeNode<F, L>, Option<usize>, bool)> = vec![(root, None, false)];
    let mut truncated = false;
    while let Some((n, parent, is_right)) = stack.pop() {
        if nodes.len() >= MAX_NODES {
            truncated = true;
            break;
        }
        let me = nodes.len();
        let (feat, thr, dec) = n.split();
        nodes.push(Node {
            depth: n.depth(),
            is_leaf: n.is_leaf(),
            left: None,
            right: None,
            parent,
            feat,
            thr: thr.to_f64().unwrap_or(f64::NAN),
            dec: dec.to_f64().unwrap_or(f64::NAN),
            pred: n.prediction().map(|l| id_of(&l)),
        });
        if let Some(p) = parent {
            if let Some(pn) = nodes.get_mut(p) {
                if is_right {
                    pn.right = Some(me);
                } else {
                    pn.left = Some(me);
                }
            }
        }
        let ch = n.children();
        if let Some(Some(r)) = ch.get(1).map(|o| o.as_ref()) {
            stack.push((r, Some(me), true));
        }
        if let Some(Some(l)) = ch.first().map(|o| o.as_ref()) {
            stack.push((l, Some(me), false));
        }
    }
    (nodes, truncated)
}

/// A records array in a chosen memory layout. `buf` owns the storage; `view()` is the logical n x p matrix.
struct Backing<F> {
    buf: Array2<F>,
    layout: Layout,
}

impl<F: Float> Backing<F> {
    fn new(rows: &[Vec<f64>], n: usize, p: usize, layout: Layout, to_f: &dyn Fn(f64) -> F) -> Self {
        let at = |i: usize, j: usize| to_f(rows[i][j]);
        let junk = |i: usize, j: usize| to_f(1.0e6 + (7 * i + 3 * j) as f64);
        let buf = match layout {
            Layout::RowMajor => Array2::from_shape_fn((n, p), |(i, j)| at(i, j)),
            Layout::ColMajor => Array2::from_shape_fn((n, p).f(), |(i, j)| at(i, j)),
            Layout::TransposedView => Array2::from_shape_fn((p, n), |(j, i)| at(i, j)),
            Layout::StridedView => {
                Array2::from_shape_fn((2 * n, p), |(i, j)| if i % 2 == 0 { at(i / 2, j) } else { junk(i, j) })
            }
            Layout::ReversedRows => Array2::from_shape_fn((n, p), |(i, j)| at(n - 1 - i, j)),
        };
        Backing { buf, layout }
    }
    fn view(&self) -> ArrayView2<'_, F> {
        match self.layout {
            Layout::RowMajor | Layout::ColMajor => self.buf.view(),
            Layout::TransposedView => self.buf.t(),
            Layout::StridedView => self.buf.slice(s![..;2, ..]),
            Layout::ReversedRows => self.buf.slice(s![..;-1, ..]),
        }
    }
}

fn predict_records<F: Float, L: Label + Default, D: Data<Elem = F>>(
    tree: &DecisionTree<F, L>,
    x: &ArrayBase<D, Ix2>,
) -> Array1<L> {
    tree.predict(x)
}

fn predict_inplace_records<F: Float, L: Label + Default, D: Data<Elem = F>>(tree: &DecisionTree<F, L>, x: &ArrayBase<D, Ix2>, buf: &mut Array1<L>) {
    use linfa::traits::PredictInplace;
    tree.predict_inplace(x, buf)
}

/// `predict_inplace` into a caller's buffer that already holds other (valid) labels
fn predict_inplace_any<F: Float, L: Label + Default>(tree: &DecisionTree<F, L>, b: &Backing<F>, mut buf: Array1<L>) -> Array1<L> {
    match b.layout {
        Layout::RowMajor | Layout::ColMajor => predict_inplace_records(tree, &b.buf, &mut buf),
        _ => predict_inplace_records(tree, &b.view(), &mut buf),
    }
    buf
}

fn predict_any<F: Float, L: Label + Default>(tree: &DecisionTree<F, L>, b: &Backing<F>) -> Array1<L> {
    match b.layout {
        Layout::RowMajor | Layout::ColMajor => predict_records(tree, &b.buf),
        _ => predict_records(tree, &b.view()),
    }
}

/// signature of the one recognised fit panic: `assert!(n_samples > 0.0)` inside the impurity helpers,
/// reached when inexact f32 weight sums leave a residue on a side that holds no sample any more
pub const SIG_RESIDUE_PANIC: &str = "fit:panic-empty-side-weight-residue";

/// `obs.call("fit", ..)` with one narrow branch: every other panic keeps the signature `panic:fit`.
fn call_fit<T>(c: &Case, obs: &mut Obs, f: impl FnOnce() -> T) -> Option<T> {
    match vengine::guard(f) {
        Ok(v) => Some(v),
        Err(m) => {
            if m.contains("n_samples > 0.0") && !c.weights_exact() {
                obs.fail(
                    SIG_RESIDUE_PANIC,
                    format!("fit panicked ({m}): the sweep evaluated a split whose one side holds no sample, only the rounding residue of the f32 weight sums (min_weight_leaf {} vs weights of scale {:e})", c.min_weight_leaf, c.scale()),
                );
            } else {
                obs.fail("panic:fit", format!("panicked: {m}"));
            }
            None
        }
    }
}

fn run_typed<F: Float, L: Label + Default>(
    c: &Case,
    obs: &mut Obs,
    to_f: &dyn Fn(f64) -> F,
    label_of: &dyn Fn(u8) -> L,
) -> Option<Fitted> {
    let n = c.n();
    let p = c.p();
    let xs = c.x();
    let qs = c.q();
    let k = 8u8;
    let table: Vec<L> = (0..k).map(label_of).collect();
    let id_of = |l: &L| -> i16 { table.iter().position(|t| t == l).map(|i| i as i16).unwrap_or(UNSEEN) };
    let y: Array1<L> = Array1::from_shape_fn(n, |i| label_of(c.y.get(i).copied().unwrap_or(0)));
    let w: Option<Array1<f32>> = c.weights.as_ref().map(|_| Array1::from(c.w32()));
    let params = DecisionTree::<F, L>::params()
        .split_quality(if c.entropy { SplitQuality::Entropy } else { SplitQuality::Gini })
        .max_depth(c.max_depth.map(|d| d as usize))
        .min_weight_split(c.min_weight_split)
        .min_weight_leaf(c.min_weight_leaf)
        .min_impurity_decrease(to_f(c.min_impurity_decrease));
    // the same logical rows in the requested memory layout
    let xb = Backing::new(&xs, n, p, c.layout, to_f);
    let qb = Backing::new(&qs, qs.len(), p, c.qlayout, to_f);
    let fitted = match c.layout {
        // owned records and targets: `Dataset`
        Layout::RowMajor | Layout::ColMajor => {
            let mut ds = DatasetBase::new(xb.buf.clone(), y.clone());
            let r = ds.records();
            obs.class_if(!r.is_standard_layout() && r.as_slice_memory_order().is_some(), "records_contiguous_not_standard_layout");
            if let Some(w) = &w {
                ds = ds.with_weights(w.clone());
            }
            call_fit(c, obs, || params.fit(&ds))?
        }
        // borrowed records and targets: `DatasetView`
        _ => {
            let mut ds = DatasetBase::new(xb.view(), y.view());
            let r = ds.records();
            obs.class_if(!r.is_standard_layout() && r.as_slice_memory_order().is_some(), "records_contiguous_not_standard_layout");
            obs.class_if(r.as_slice_memory_order().is_none(), "records_not_contiguous");
            if let Some(w) = &w {
                ds = ds.with_weights(w.clone());
            }
            call_fit(c, obs, || params.fit(&ds))?
        }
    };
    let tree = match fitted {
        Ok(t) => t,
        Err(e) => {
            obs.fail("fit:error", format!("fit returned an error for valid hyper-parameters: {e}"));
            return None;
        }
    };
    let mut out = Fitted::default();
    let (nodes, truncated) = obs.call("walk", || extract(tree.root_node(), &id_of))?;
    out.nodes = nodes;
    out.truncated = truncated;
    let pt: Array1<L> = obs.call("predict", || predict_any(&tree, &xb))?;
    out.pred_train = pt.iter().map(&id_of).collect();
    // the in-place form into a used buffer: every entry pre-set to a label that differs from the prediction of its row
    {
        let other = |l: &L| -> L { table[((id_of(l).max(0) as usize) + 1) % table.len()].clone() };
        let used: Array1<L> = pt.iter().map(&other).collect();
        if let Some(pi) = obs.call("predict_inplace", || predict_inplace_any(&tree, &xb, used.clone())) {
            let same = pi.len() == pt.len() && pi.iter().zip(pt.iter()).all(|(a, b)| a == b);
            obs.ensure(same, "predict:inplace-into-used-buffer-differs", || {
                format!(
                    "predict_inplace on the training rows into a buffer holding {:?} left {:?}; predict returns {:?}",
                    used.iter().map(&id_of).collect::<Vec<_>>(),
                    pi.iter().map(&id_of).collect::<Vec<_>>(),
                    pt.iter().map(&id_of).collect::<Vec<_>>()
                )
            });
        }
    }
    if !qs.is_empty() {
        let pq: Array1<L> = obs.call("predict", || predict_any(&tree, &qb))?;
        out.pred_query = pq.iter().map(&id_of).collect();
    }
    out.importance = obs
        .call("feature_importance", || tree.feature_importance())
        .map(|v| v.iter().map(|f| f.to_f64().unwrap_or(f64::NAN)).collect());
    out.mean_decrease = obs
        .call("mean_impurity_decrease", || tree.mean_impurity_decrease())
        .map(|v| v.iter().map(|f| f.to_f64().unwrap_or(f64::NAN)).collect());
    if let Some((d, l, cnt, mut feats)) = obs.call("tree-accessors", || {
        (tree.max_depth(), tree.num_leaves(), tree.iter_nodes().count(), tree.features())
    }) {
        feats.sort_unstable();
        out.api_max_depth = d;
        out.api_num_leaves = l;
        out.api_iter_count = cnt;
        out.api_features = feats;
    }
    Some(out)
}

/// class id -> label value of each supported label type (ids are not the labels themselves)
pub fn usize_label(id: u8) -> usize {
    3 + 7 * id as usize
}
pub fn str_label(id: u8) -> String {
    format!("cls-{}", (b'a' + id % 26) as char)
}

pub fn run(c: &Case, obs: &mut Obs) -> Option<Fitted> {
    macro_rules! go {
        ($f:ty, $conv:expr) => {
            match c.label {
                LabelKind::Usize => run_typed::<$f, usize>(c, obs, &$conv, &usize_label),
                LabelKind::Bool => run_typed::<$f, bool>(c, obs, &$conv, &|id| id % 2 == 1),
                LabelKind::Str => run_typed::<$f, String>(c, obs, &$conv, &str_label),
            }
        };
    }
    if c.f32_ {
        go!(f32, |v: f64| v as f32)
    } else {
        go!(f64, |v: f64| v)
    }
}
