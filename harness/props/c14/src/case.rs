//! Case representation for C14. A case is plain integer data: every feature value is a small
//! *code* that a column kind decodes into a float, so that replay is bit-exact and shrinking works
//! on integers.

use serde::{Deserialize, Serialize};

/// How the codes of one feature column become floats.
#[derive(Debug, Clone, Copy, Serialize, Deserialize, PartialEq, Eq)]
pub enum Col {
    /// every training row carries the same value `v` (codes ignored)
    Const(i8),
    /// value = (code − 3) · quarters/4 : small grids with many equal values (step 0.25 / 0.5 / 1)
    Grid { quarters: u8 },
    /// value = code · 4e-6 : gaps below (1, 2 steps) and above (≥ 3 steps) linfa's 1e-5 equal-value guard
    Fine,
    /// value = the float `code` ulps above a base value (consecutive floats). Base table index.
    Adj { base: u8 },
}

/// bit patterns of the base values for `Col::Adj`; entries 0..=3 have ulp ≥ 1e-5 (the guard in
/// `TreeNode::fit` does not merge neighbours), entry 4 has ulp < 1e-5, entry 5 a huge ulp.
pub fn adj_base_bits_f32(base: u8) -> u32 {
    match base % 6 {
        0 => 128f32.to_bits(),
        1 => 200f32.to_bits(),
        2 => 256f32.to_bits() - 3, // crosses a binade boundary (ulp 1.5e-5 -> 3.1e-5)
        3 => 1000f32.to_bits() + 1,
        4 => 100f32.to_bits(), // ulp 7.6e-6 < 1e-5 : neighbours count as equal
        _ => 65536f32.to_bits() + 1,
    }
}
pub fn adj_base_bits_f64(base: u8) -> u64 {
    let two37 = 137438953472f64; // 2^37, ulp 3.05e-5
    match base % 6 {
        0 => two37.to_bits(),
        1 => (two37 * 1.5).to_bits(),
        2 => (two37 * 2.0).to_bits() - 3,
        3 => 1e12f64.to_bits() + 1,
        4 => 1073741824f64.to_bits(), // 2^30, ulp 2.4e-7 < 1e-5
        _ => 35184372088832f64.to_bits() + 1, // 2^45
    }
}
/// true when neighbouring floats of this base are at least 1e-5 apart (the class the design calls "adjacent floats")
pub fn adj_above_guard(base: u8) -> bool {
    base % 6 != 4
}

#[derive(Debug, Clone, Copy, Serialize, Deserialize, PartialEq, Eq)]
pub enum LabelKind {
    Usize,
    Bool,
    Str,
}

pub const WEIGHTS: [f32; 4] = [0.5, 1.0, 2.0, 4.0];

/// How a per-row weight code becomes the base weight (before the global scale factor).
#[derive(Debug, Clone, Copy, Serialize, Deserialize, PartialEq, Eq, Default)]
pub enum WKind {
    /// 0.5 / 1 / 2 / 4 (code mod 4): sums are exact in f32
    #[default]
    Dyadic,
    /// (20 + code mod 101) / 61 rounded to f32: 0.33 .. 1.97, not dyadic, sums round
    Real,
    /// 1 + {0,1,2,3,8,21,42,84} ulps (code mod 8): class totals of equal counts differ by 1 ulp .. 1e-5 relative
    NearTie,
}
pub const NEAR_TIE_ULPS: [u32; 8] = [0, 1, 2, 3, 8, 21, 42, 84];

/// global weight factors; index 0 is 1 (also the serde default), 1..=5 powers of two (dyadic weights
/// stay exact), 6..=10 decimal factors 1e-9 .. 1e6 (every sum rounds)
pub const SCALES: [f64; 11] = [
    1.0,
    9.313225746154785e-10, // 2^-30
    9.5367431640625e-7,    // 2^-20
    0.0009765625,          // 2^-10
    1024.0,
    1048576.0,
    1e-9,
    1e-6,
    1e-3,
    1e3,
    1e6,
];

/// Memory layout of a records array handed to linfa. The logical rows are the same in every layout.
#[derive(Debug, Clone, Copy, Serialize, Deserialize, PartialEq, Eq, Default)]
pub enum Layout {
    /// owned, standard (row-major) layout; fitted through `Dataset`
    #[default]
    RowMajor,
    /// owned, column-major (`(n, p).f()`): contiguous but not standard layout; fitted through `Dataset`
    ColMajor,
    /// `buf.t()` of a features-by-samples buffer: contiguous, column-major strides; `DatasetView`
    TransposedView,
    /// every second row of a doubled array with junk in the skipped rows: not contiguous; `DatasetView`
    StridedView,
    /// reversed view of a buffer holding the rows in reverse order (negative row stride); `DatasetView`
    ReversedRows,
}

#[derive(Debug, Clone, Serialize, Deserialize)]
pub struct Case {
    /// element type of the records: f32 or f64
    pub f32_: bool,
    pub cols: Vec<Col>,
    /// n rows × p codes
    pub codes: Vec<Vec<u8>>,
    /// class ids (0..k)
    pub y: Vec<u8>,
    pub label: LabelKind,
    /// per-row index into `WEIGHTS`, or no weights at all
    pub weights: Option<Vec<u8>>,
    pub entropy: bool,
    pub max_depth: Option<u8>,
    pub min_weight_split: f32,
    pub min_weight_leaf: f32,
    pub min_impurity_decrease: f64,
    /// query rows (codes in half steps / ulps − 1), p codes each
    pub queries: Vec<Vec<u8>>,
    /// how weight codes are decoded
    #[serde(default)]
    pub wkind: WKind,
    /// index into `SCALES`: global factor applied to every sample weight
    #[serde(default)]
    pub wscale: u8,
    /// memory layout of the training records (also used when predicting the training rows)
    #[serde(default)]
    pub layout: Layout,
    /// memory layout of the query records
    #[serde(default)]
    pub qlayout: Layout,
}

impl Case {
    pub fn n(&self) -> usize {
        self.codes.len()
    }
    pub fn p(&self) -> usize {
        self.cols.len()
    }
    fn code(&self, row: &[u8], j: usize) -> u8 {
        row.get(j).copied().unwrap_or(0)
    }
    /// training value of row i, feature j — exactly representable in the element type
    pub fn value(&self, i: usize, j: usize) -> f64 {
        let code = self.codes.get(i).map(|r| self.code(r, j)).unwrap_or(0);
        match self.cols.get(j).copied().unwrap_or(Col::Const(0)) {
            Col::Const(v) => v as f64,
            Col::Grid { quarters } => (code as f64 - 3.0) * (quarters.max(1) as f64) * 0.25,
            Col::Fine => {
                let v = code as f64 * 4e-6;
                if self.f32_ {
                    v as f32 as f64
                } else {
                    v
                }
            }
            Col::Adj { base } => {
                if self.f32_ {
                    f32::from_bits(adj_base_bits_f32(base) + code as u32) as f64
                } else {
                    f64::from_bits(adj_base_bits_f64(base) + code as u64)
                }
            }
        }
    }
    /// query value: grids in half steps (so midpoints are hit exactly), adjacent columns one float below the base upwards
    pub fn qvalue(&self, qi: usize, j: usize) -> f64 {
        let code = self.queries.get(qi).map(|r| self.code(r, j)).unwrap_or(0);
        match self.cols.get(j).copied().unwrap_or(Col::Const(0)) {
            Col::Const(v) => v as f64 + (code as f64 - 2.0) * 0.5,
            Col::Grid { quarters } => (code as f64 * 0.5 - 3.5) * (quarters.max(1) as f64) * 0.25,
            Col::Fine => {
                let v = code as f64 * 2e-6;
                if self.f32_ {
                    v as f32 as f64
                } else {
                    v
                }
            }
            Col::Adj { base } => {
                if self.f32_ {
                    f32::from_bits(adj_base_bits_f32(base) - 1 + code as u32) as f64
                } else {
                    f64::from_bits(adj_base_bits_f64(base) - 1 + code as u64)
                }
            }
        }
    }
    pub fn x(&self) -> Vec<Vec<f64>> {
        (0..self.n()).map(|i| (0..self.p()).map(|j| self.value(i, j)).collect()).collect()
    }
    pub fn q(&self) -> Vec<Vec<f64>> {
        (0..self.queries.len()).map(|i| (0..self.p()).map(|j| self.qvalue(i, j)).collect()).collect()
    }
    pub fn scale(&self) -> f64 {
        if self.weights.is_some() {
            SCALES[self.wscale as usize % SCALES.len()]
        } else {
            1.0
        }
    }
    /// the f32 sample weights exactly as they are handed to linfa
    pub fn w32(&self) -> Vec<f32> {
        let s = self.scale() as f32;
        match &self.weights {
            None => vec![1.0; self.n()],
            Some(ix) => (0..self.n())
                .map(|i| {
                    let code = ix.get(i).copied().unwrap_or(1) as usize;
                    let base = match self.wkind {
                        WKind::Dyadic => WEIGHTS[code % 4],
                        WKind::Real => ((20 + code % 101) as f64 / 61.0) as f32,
                        WKind::NearTie => f32::from_bits(1.0f32.to_bits() + NEAR_TIE_ULPS[code % 8]),
                    };
                    base * s
                })
                .collect(),
        }
    }
    /// the same weights widened to f64 (exact)
    pub fn w(&self) -> Vec<f64> {
        self.w32().into_iter().map(|v| v as f64).collect()
    }
    /// every partial sum of the weights is exact in f32 (dyadic weights times a power of two)
    pub fn weights_exact(&self) -> bool {
        self.weights.is_none() || (self.wkind == WKind::Dyadic && (self.wscale as usize % SCALES.len()) <= 5)
    }
    pub fn has_adjacent(&self) -> bool {
        self.cols.iter().any(|c| matches!(c, Col::Adj { base } if adj_above_guard(*base)))
    }
}
