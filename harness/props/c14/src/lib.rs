//! C14 — stub (to be written; see /verif/harness/AUTHORING.md and DESIGN.md §3 C14)
use vengine::Property;

pub fn property() -> Property {
    Property { id: "C14", rule: "", assumptions: vec![], subs: vec![] }
}
