//! C14 — decision trees are well-formed, honour their limits and predict leaf majorities.
//!
//! A case is a labelled dataset in integer codes (see `case.rs`) plus hyper-parameters. The check
//! fits `linfa_trees::DecisionTree`, copies the public tree into plain data (`run.rs`) and re-derives
//! every obligation of the statement from the training data with naive code (`oracle.rs`): training
//! rows are routed with the prediction rule, per-node row sets give counts, weights, impurities,
//! modes; `predict` is compared with that routing; importances are recomputed.

pub mod case;
pub mod oracle;
pub mod run;

use case::{adj_above_guard, Case, Col, LabelKind, Layout, WKind, SCALES};
use proptest::prelude::*;
use vengine::{enum_sub, prop_sub, Obs, Property, Tier};

// ------------------------------------------------------------------------------------------------
// check function

fn classify(c: &Case, obs: &mut Obs) {
    obs.class(match c.max_depth {
        None => "max_depth_none",
        Some(0) => "max_depth_0",
        Some(_) => "max_depth_finite",
    });
    obs.class(if c.entropy { "entropy" } else { "gini" });
    obs.class(if c.f32_ { "f32" } else { "f64" });
    obs.class(match c.label {
        LabelKind::Usize => "label_usize",
        LabelKind::Bool => "label_bool",
        LabelKind::Str => "label_string",
    });
    obs.class(if c.weights.is_some() { "weighted" } else { "unweighted" });
    if c.weights.is_some() {
        obs.class(match c.wkind {
            WKind::Dyadic => "weights_dyadic",
            WKind::Real => "weights_real_valued",
            WKind::NearTie => "weights_near_tie",
        });
        let s = c.scale();
        obs.class_if(s < 1e-4, "weight_scale_below_1e-4");
        obs.class_if(s > 1e2, "weight_scale_above_1e2");
        obs.class_if(!c.weights_exact(), "weights_inexact_in_f32");
        obs.class_if((c.min_weight_leaf as f64) < 0.4 * s || (c.min_weight_leaf as f64) > 6.0 * s, "min_weight_leaf_off_weight_scale");
    }
    obs.class_if(c.cols.iter().any(|k| matches!(k, Col::Const(_))), "constant_feature");
    obs.class_if(c.cols.iter().any(|k| matches!(k, Col::Fine)), "fine_grid_feature");
    obs.class_if(c.has_adjacent(), "adjacent_floats");
    obs.class_if(
        c.cols.iter().any(|k| matches!(k, Col::Adj { base } if !adj_above_guard(*base))),
        "adjacent_floats_below_guard",
    );
    obs.class(match c.layout {
        Layout::RowMajor => "layout_row_major",
        Layout::ColMajor => "layout_col_major",
        Layout::TransposedView => "layout_transposed_view",
        Layout::StridedView => "layout_strided_view",
        Layout::ReversedRows => "layout_reversed_rows",
    });
    obs.class_if(
        matches!(c.layout, Layout::ColMajor | Layout::TransposedView) && c.p() >= 2 && c.n() >= 2,
        "col_major_multi_feature",
    );
    obs.class_if(matches!(c.layout, Layout::RowMajor | Layout::ColMajor), "fit_through_dataset");
    obs.class_if(!matches!(c.layout, Layout::RowMajor | Layout::ColMajor), "fit_through_dataset_view");
    obs.class_if(c.qlayout != Layout::RowMajor && !c.queries.is_empty(), "query_layout_not_row_major");
    obs.class_if(c.n() == 1, "n_1");
    obs.class_if(c.n() > 60, "n_large");
    let x = c.x();
    let mut conflict = false;
    'o: for i in 0..c.n() {
        for j in 0..i {
            if x[i] == x[j] && c.y.get(i) != c.y.get(j) {
                conflict = true;
                break 'o;
            }
        }
    }
    obs.class_if(conflict, "duplicates_conflicting_labels");
    let mut ids: Vec<u8> = c.y.clone();
    ids.sort_unstable();
    ids.dedup();
    obs.class(match ids.len() {
        0 | 1 => "classes_1",
        2 => "classes_2",
        _ => "classes_3plus",
    });
    obs.class_if(c.min_weight_leaf >= 2.0, "min_weight_leaf_ge_2");
    obs.class_if(c.min_weight_split >= 5.0, "min_weight_split_ge_5");
    obs.class_if(c.min_weight_split.fract() != 0.0, "fractional_min_weight_split");
    obs.class_if(c.min_weight_leaf.fract() != 0.0 && c.min_weight_leaf != 0.5, "fractional_min_weight_leaf");
    obs.class_if(c.min_impurity_decrease >= 0.1, "min_impurity_decrease_large");
}

pub fn check(c: &Case, obs: &mut Obs) {
    // malformed stored cases (hand-edited replay files) are not judged
    if c.n() == 0 || c.p() == 0 || c.y.len() != c.n() || c.codes.iter().any(|r| r.len() != c.p()) {
        obs.skip("malformed_case");
        return;
    }
    if !(c.min_weight_leaf > 0.0) || !(c.min_impurity_decrease >= 1e-6) {
        obs.skip("outside_domain");
        return;
    }
    classify(c, obs);
    if let Some(fit) = run::run(c, obs) {
        oracle::judge(c, &fit, obs);
    }
}

// ------------------------------------------------------------------------------------------------
// generators

#[derive(Clone, Copy, Debug, PartialEq)]
enum Family {
    /// small grids, constant and fine-grid columns; every max_depth
    Grid,
    /// at least one column of consecutive floats; finite max_depth
    AdjFinite,
    /// at least one column of consecutive floats; max_depth(None)
    AdjUnbounded,
    /// grid columns, large inexact weights (x 2^10 .. 1e6) and a min_weight_leaf far below their scale:
    /// the stratum in which a rounding residue of the f32 weight sums can pass for a non-empty side
    Residue,
}

fn col_strategy(fam: Family, first: bool) -> BoxedStrategy<Col> {
    let grid = prop_oneof![
        4 => Just(Col::Grid { quarters: 4 }),
        2 => Just(Col::Grid { quarters: 2 }),
        1 => Just(Col::Grid { quarters: 1 }),
    ];
    let adj = (0u8..6).prop_map(|base| Col::Adj { base });
    match fam {
        Family::Grid | Family::Residue => prop_oneof![
            7 => grid,
            2 => (-2i8..=2).prop_map(Col::Const),
            1 => Just(Col::Fine),
        ]
        .boxed(),
        _ if first => (0u8..4).prop_map(|base| Col::Adj { base }).boxed(),
        _ => prop_oneof![
            3 => adj,
            2 => grid,
            1 => (-2i8..=2).prop_map(Col::Const),
        ]
        .boxed(),
    }
}

#[derive(Clone, Debug)]
struct RawRow {
    codes: Vec<u8>,
    noise: u8,
    flip: u8,
    weight: u8,
}

fn case_strategy(fam: Family, tier: Tier) -> impl Strategy<Value = Case> {
    let nmax: BoxedStrategy<usize> = match (fam, tier) {
        (Family::Grid | Family::Residue, Tier::Quick) => prop_oneof![2 => Just(8usize), 4 => Just(25), 3 => Just(60)].boxed(),
        (Family::Grid | Family::Residue, Tier::Thorough) => {
            prop_oneof![4 => Just(8usize), 8 => Just(25), 6 => Just(60), 1 => Just(300)].boxed()
        }
        (_, Tier::Quick) => prop_oneof![2 => Just(5usize), 3 => Just(12)].boxed(),
        (_, Tier::Thorough) => prop_oneof![2 => Just(5usize), 3 => Just(12), 1 => Just(40)].boxed(),
    };
    let rows = nmax.prop_flat_map(|m| {
        proptest::collection::vec(
            (proptest::collection::vec(any::<u8>(), 4), any::<u8>(), any::<u8>(), any::<u8>())
                .prop_map(|(codes, noise, flip, weight)| RawRow { codes, noise, flip, weight }),
            1..=m,
        )
    });
    let cols = (
        col_strategy(fam, true),
        col_strategy(fam, false),
        col_strategy(fam, false),
        col_strategy(fam, false),
    );
    let depth: BoxedStrategy<Option<u8>> = match fam {
        Family::Grid | Family::Residue => prop_oneof![
            3 => Just(None),
            1 => Just(Some(0u8)),
            2 => Just(Some(1)),
            2 => Just(Some(2)),
            1 => Just(Some(3)),
            2 => Just(Some(5)),
        ]
        .boxed(),
        Family::AdjFinite => prop_oneof![
            1 => Just(Some(0u8)),
            2 => Just(Some(1)),
            2 => Just(Some(2)),
            2 => Just(Some(3)),
            2 => Just(Some(5)),
            1 => Just(Some(12)),
        ]
        .boxed(),
        Family::AdjUnbounded => Just(None).boxed(),
    };
    let hyper = (
        any::<bool>(),
        depth,
        // integral and non-integral thresholds (the row count is compared with the value itself, not its floor)
        prop_oneof![
            3 => Just(1f32), 5 => Just(2f32), 2 => Just(5f32), 1 => Just(10f32),
            2 => Just(1.5f32), 2 => Just(2.5f32), 2 => Just(3.5f32), 2 => Just(4.25f32),
        ],
        // dyadic sample weights keep the comparison with quarter-valued bounds exact
        prop_oneof![
            3 => Just(0.5f32), 5 => Just(1f32), 2 => Just(2f32), 1 => Just(5f32),
            2 => Just(0.75f32), 2 => Just(1.5f32), 1 => Just(2.25f32),
        ],
        prop_oneof![5 => Just(1e-5f64), 2 => Just(0.01f64), 1 => Just(0.2f64)],
    );
    let shape = (
        1usize..=4,                                                                  // p
        prop_oneof![2 => Just(1usize), 3 => Just(2), 2 => Just(3), 1 => Just(6)],    // code range R (grid) – 7 for adjacent
        2u8..=6,                                                                     // classes
        prop_oneof![Just(LabelKind::Usize), Just(LabelKind::Bool), Just(LabelKind::Str)],
        0u8..4,                                                                      // label mode
        any::<bool>(),                                                               // weighted
        any::<bool>(),                                                               // f32
    );
    let queries = proptest::collection::vec(proptest::collection::vec(any::<u8>(), 4), 0..=5);
    let layout = || {
        prop_oneof![
            3 => Just(Layout::RowMajor),
            3 => Just(Layout::ColMajor),
            2 => Just(Layout::TransposedView),
            1 => Just(Layout::StridedView),
            1 => Just(Layout::ReversedRows),
        ]
    };
    // weight model: kind, global scale factor, and whether min_weight_leaf lives on the same scale
    let wmodel = (
        prop_oneof![5 => Just(WKind::Dyadic), 3 => Just(WKind::Real), 3 => Just(WKind::NearTie)],
        prop_oneof![8 => Just(0u8), 6 => 1u8..=5, 8 => 6u8..=10],
        prop_oneof![5 => Just(true), 1 => Just(false)],
    );
    let queries = (queries, layout(), layout(), wmodel);
    (rows, cols, hyper, shape, queries).prop_map(move |(rows, cols, hyper, shape, queries)| {
        let (queries, layout, qlayout, (wkind, wscale, mwl_scaled)) = queries;
        let (p, r, k, label, ymode, weighted, f32_) = shape;
        let k = if label == LabelKind::Bool { 2 } else { k };
        let cols: Vec<Col> = [cols.0, cols.1, cols.2, cols.3][..p].to_vec();
        let range = |c: &Col| -> usize {
            match c {
                Col::Adj { .. } => 8,
                Col::Fine => 7,
                _ => r + 1,
            }
        };
        let codes: Vec<Vec<u8>> = rows
            .iter()
            .map(|row| (0..p).map(|j| ((row.codes[j] as usize * range(&cols[j])) >> 8) as u8).collect())
            .collect();
        // labels: pure noise, or a function of the codes (deep, learnable trees) with a little noise
        let y: Vec<u8> = rows
            .iter()
            .zip(&codes)
            .map(|(row, cd)| {
                let noise = ((row.noise as usize * k as usize) >> 8) as u8;
                let noisy = row.flip < 40;
                let base = match ymode {
                    0 => noise,
                    1 => cd[0] % k,
                    2 => (cd[0] + cd[p - 1]) % k,
                    _ => ((cd[0] / 2) + 2 * (cd[p - 1] % 2)) % k,
                };
                if noisy {
                    noise
                } else {
                    base
                }
            })
            .collect();
        let (entropy, max_depth, min_weight_split, min_weight_leaf, min_impurity_decrease) = hyper;
        let (weighted, wkind, wscale, mwl_scaled) = if fam == Family::Residue {
            let ws = [9u8, 10, 4, 5][wscale as usize % 4];
            (true, wkind, if wkind == WKind::Dyadic && ws <= 5 { 10 } else { ws }, false)
        } else if !weighted {
            (false, WKind::Dyadic, 0, true)
        } else {
            // large inexact weights with a min_weight_leaf off their scale belong to the `weight_residue` sub-check
            (true, wkind, wscale, mwl_scaled || residue_risk(wkind, wscale))
        };
        let min_weight_leaf = if weighted && mwl_scaled { min_weight_leaf * SCALES[wscale as usize] as f32 } else { min_weight_leaf };
        let weights = if weighted { Some(rows.iter().map(|r| r.weight).collect()) } else { None };
        let queries: Vec<Vec<u8>> = queries
            .iter()
            .map(|qr| {
                (0..p)
                    .map(|j| {
                        let span = match cols[j] {
                            Col::Adj { .. } => 10,
                            Col::Fine => 14,
                            Col::Const(_) => 5,
                            Col::Grid { .. } => 2 * r + 4,
                        };
                        ((qr[j] as usize * span) >> 8) as u8
                    })
                    .collect()
            })
            .collect();
        Case {
            f32_,
            cols,
            codes,
            y,
            label,
            weights,
            entropy,
            max_depth,
            min_weight_split,
            min_weight_leaf,
            min_impurity_decrease,
            queries,
            wkind,
            wscale,
            layout,
            qlayout,
        }
    })
}

/// weights that are large and do not sum exactly in f32: with a min_weight_leaf off their scale the
/// rounding residue of a running side weight can exceed min_weight_leaf
fn residue_risk(wkind: WKind, wscale: u8) -> bool {
    let i = wscale as usize % SCALES.len();
    SCALES[i] > 1.0 && !(wkind == WKind::Dyadic && i <= 5)
}

const LAYOUTS: [Layout; 5] =
    [Layout::RowMajor, Layout::ColMajor, Layout::TransposedView, Layout::StridedView, Layout::ReversedRows];

/// exhaustive small stratum: every dataset with one feature, n <= N rows, `vals` distinct values and
/// `labs` labels; hyper-parameters cycle deterministically through a fixed table.
fn enumerate(col: Col, vals: u8, labs: u8, nmax: usize, depths: &[Option<u8>], both_types: bool) -> Vec<Case> {
    let mut out = vec![];
    let cell = (vals as usize) * (labs as usize);
    let mut counter = 0usize;
    for n in 1..=nmax {
        let total = cell.pow(n as u32);
        for code in 0..total {
            let mut rest = code;
            let mut codes = vec![];
            let mut y = vec![];
            for _ in 0..n {
                let d = rest % cell;
                rest /= cell;
                codes.push(vec![(d % vals as usize) as u8]);
                y.push((d / vals as usize) as u8);
            }
            // rows are exchangeable for every obligation except presorting order: keep all orders
            let h = counter;
            counter += 1;
            let mws = [1f32, 2.0, 2.5, 5.0, 1.5, 3.5, 2.0, 4.25][h % 8];
            let mwl = [1f32, 0.5, 2.0, 0.75, 1.5, 1.0, 2.25][(h / 8) % 7];
            let mid = [1e-5f64, 0.01, 0.2, 1e-5][(h / 56) % 4];
            let weights: Option<Vec<u8>> = if (h / 5) % 2 == 1 {
                Some((0..n).map(|i| ((h / 10 + i * 3) % 251) as u8).collect())
            } else {
                None
            };
            let (wkind, wscale) = if weights.is_some() {
                ([WKind::Dyadic, WKind::NearTie, WKind::Real][(h / 19) % 3], [0u8, 7, 2, 10, 0, 6, 5, 8][(h / 23) % 8])
            } else {
                (WKind::Dyadic, 0)
            };
            let mwl = if weights.is_some() && ((h / 29) % 4 != 0 || residue_risk(wkind, wscale)) {
                mwl * SCALES[wscale as usize] as f32
            } else {
                mwl
            };
            out.push(Case {
                f32_: if both_types { (h / 7) % 2 == 0 } else { true },
                cols: vec![col],
                codes,
                y,
                label: [LabelKind::Usize, LabelKind::Str, LabelKind::Bool][if labs == 2 { (h / 11) % 3 } else { (h / 11) % 2 }],
                weights,
                entropy: (h / 3) % 2 == 1,
                max_depth: depths[h % depths.len()],
                min_weight_split: mws,
                min_weight_leaf: mwl,
                min_impurity_decrease: mid,
                queries: vec![vec![(h % 8) as u8], vec![((h / 8) % 8) as u8]],
                wkind,
                wscale,
                layout: LAYOUTS[(h / 13) % 5],
                qlayout: LAYOUTS[(h / 17) % 5],
            });
        }
    }
    out
}

pub fn property() -> Property {
    Property {
        id: "C14",
        rule: "case = labelled dataset in integer codes (n 1..=60, thorough <=300; p 1..=4; columns: small grids with step 1/0.5/0.25, constant, \
               fine grid around linfa's 1e-5 equal-value guard, consecutive floats f32>=128 / f64>=2^37 whose midpoint rounds onto a sample), \
               2..=6 classes as usize/bool/String, labels random or a noisy function of the features, optional sample weights (dyadic / real-valued / near-tie, global factor 1e-9..1e6 or a power of two), both criteria, \
               max_depth None/0/1/2/3/5(/12), min_weight_split 1/1.5/2/2.5/3.5/4.25/5/10, min_weight_leaf 0.5/0.75/1/1.5/2/2.25/5, min_impurity_decrease 1e-5/0.01/0.2, \
               plus query rows on half steps; training and query records in one of five memory layouts (row-major owned, column-major owned, transposed view of a features-by-samples buffer, strided view skipping junk rows, reversed rows; owned layouts fitted through Dataset, views through DatasetView); exhaustive one-feature strata (3 grid values x 3 labels, n<=5 quick / 6 thorough; 4 consecutive floats at 200 x 2 labels, n<=5/6; 6 consecutive floats across the 256 binade x 2 labels, n<=4/5; hyper-parameters cycle through a fixed table). \
               Non-trivial = fitted tree has >= 2 split nodes, or a reached leaf has a weighted tie for the mode, or the case contains a \
               consecutive-float column above the guard; distinct = distinct canonical JSON of the case",
        assumptions: vec![
            "min_weight_leaf = 0 (assert inside gini_impurity), min_impurity_decrease < epsilon (rejected by check()), NaN/inf features and empty datasets are outside the generated domain".into(),
            "min_weight_split is compared with the number of training rows reaching a node (as the statement says), not with their weight".into(),
            "sample weights: dyadic (0.5, 1, 2, 4), real-valued ((20..120)/61) or near-tie (1 + 0..84 ulps), times a global factor 1, 2^-30..2^20 or 1e-9..1e6; min_weight_leaf on the same scale (5 of 6 cases) or not. Reference totals are f64 sums of the f32 weights handed to linfa. Dyadic weights times a power of two sum exactly in f32: modes, min_weight_leaf and the 1e-4 decrease tolerance are judged without slack".into(),
            "inexact weights: a leaf label is accepted iff its exact total >= max - 2 m u max (m rows in the leaf, u = 2^-24: two sequential f32 class sums of <= m terms; prune adds the slacks of the merged leaves, same bound); min_weight_leaf is violated only below the bound by more than 4 (m + 8) u W (total, left and right running f32 sums); the decrease tolerance grows by 480 m u (share error 2 m u W / W_side, gini <= 4d, entropy <= 8 d log2(1/d), weighted by W_side / W)".into(),
            format!("a reported impurity decrease must match the decrease recomputed in f64 from the rows routed to the node within {} (linfa accumulates in f32); reported >= min_impurity_decrease is compared exactly in the element type", oracle::TOL_F32),
            format!("importances: each finite and >= 0, sum = 1 +- {}, each within {} of the normalised mean reported decrease per feature; judged only when the tree has a split", oracle::TOL_SUM, oracle::TOL_F32),
            "fit-time routing is not observable directly: training rows are routed with the prediction rule (x[f] < split goes left) and every per-node statistic must hold on those row sets".into(),
            "a query row lying exactly on a threshold may be predicted as either side (the statement fixes the side only for training rows)".into(),
            "failures below a node whose threshold equals a training value reaching it AND is the rounded midpoint of two neighbouring floats of that column are reported under the single signature route:midpoint-rounded-onto-training-value; everything else keeps its own signature".into(),
            "trusted base: ndarray, the harness' own routing/impurity code".into(),
        ],
        subs: vec![
            prop_sub("grid", 400000, 3000000, |t: Tier| case_strategy(Family::Grid, t), check)
                .chunks(32)
                .require(&["splits_2plus", "leaf_weighted_tie", "duplicates_conflicting_labels", "max_depth_none", "max_depth_0", "fractional_min_weight_split", "impure_leaf_with_floor_min_weight_split_rows", "col_major_multi_feature", "records_contiguous_not_standard_layout", "records_not_contiguous", "weights_near_tie", "weights_real_valued", "weight_scale_below_1e-4", "weight_scale_above_1e2", "leaf_near_tie_heavier_label_not_smallest"]),
            prop_sub("adjacent_finite", 150000, 1000000, |t: Tier| case_strategy(Family::AdjFinite, t), check)
                .chunks(16)
                .require(&["adjacent_floats", "threshold_equals_training_value", "col_major_multi_feature", "records_contiguous_not_standard_layout"]),
            // max_depth(None) on consecutive floats can recurse without bound inside fit (stack overflow kills
            // the worker): one case per child process, so a crash costs exactly that case
            prop_sub("adjacent_unbounded", 64, 640, |t: Tier| case_strategy(Family::AdjUnbounded, t), check).chunks(640),
            // one case per child process, like adjacent_unbounded: a phantom split recurses without bound under max_depth(None)
            prop_sub("weight_residue", 200, 1500, |t: Tier| case_strategy(Family::Residue, t), check).chunks(1500),
            enum_sub(
                "enum_grid",
                |t: Tier| enumerate(Col::Grid { quarters: 4 }, 3, 3, t.pick(5, 6), &[None, Some(1), Some(2), None, Some(0)], true),
                check,
            ),
            enum_sub(
                "enum_adjacent",
                |t: Tier| {
                    let mut v = enumerate(Col::Adj { base: 1 }, 4, 2, t.pick(5, 6), &[Some(3), Some(1), Some(6)], true);
                    v.extend(enumerate(Col::Adj { base: 2 }, 6, 2, t.pick(4, 5), &[Some(2), Some(4)], true));
                    v
                },
                check,
            ),
        ],
    }
}
