fn main() {
    vengine::main(c14::property())
}
