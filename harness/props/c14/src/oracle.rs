//! The oracle: re-derives every obligation of the property from the training data and the copied
//! public tree. All routing below is done with the *prediction rule* (`x[f] < split` goes left).

use crate::case::{Case, LabelKind};
use crate::run::{Fitted, Node, UNSEEN};
use vengine::Obs;

/// tolerance for a reported impurity decrease / importance against the value recomputed in f64
/// (linfa accumulates class weights and impurities in f32)
pub const TOL_F32: f64 = 1e-4;
/// importances must sum to one within this
pub const TOL_SUM: f64 = 1e-5;

/// unit roundoff of f32 (linfa accumulates sample weights in f32)
pub const U32: f64 = 5.9604644775390625e-8; // 2^-24

/// Slack of a leaf's modal class when the weights do not sum exactly in f32. linfa takes the arg-max
/// of per-class totals that are sequential f32 sums: a class total of m_c terms carries an error of at
/// most (m_c - 1) u S_c. If linfa prefers c over the exact best b then fl(S_c) >= fl(S_b), hence
/// S_c >= S_b - (m_b - 1) u S_b - (m_c - 1) u S_c >= S_b - 2 m u S_max (m rows in the leaf). Merging two
/// sibling leaves that agree (prune) adds their slacks, which stays below the same bound for the union.
pub fn mode_slack(rows: usize, best: f64) -> f64 {
    2.0 * rows as f64 * U32 * best
}
/// Slack of the running side weights compared with min_weight_leaf: the node total is an f32 sum over
/// <= 8 class totals of m rows (error <= (m + 7) u W), the left side a sequential sum of <= m terms, the
/// right side the total minus <= m terms: error <= (2m + 7) u W, used as 4 (m + 8) u W.
pub fn side_slack(rows: usize, total: f64) -> f64 {
    4.0 * (rows as f64 + 8.0) * U32 * total
}
/// Extra tolerance of a reported impurity decrease for inexact weights: a class weight on one side is
/// off by at most 2 m u W, i.e. a share error d = 2 m u W / W_side; gini moves by <= 4 d, entropy by
/// <= 8 d log2(1/d) over <= 8 classes; the side's impurity enters the score with factor W_side / W, so
/// the side weight cancels: error <= 2 m u * 8 * 30 (log2(1/d) <= 30 for d >= 1e-9).
pub fn decrease_slack(rows: usize) -> f64 {
    480.0 * rows as f64 * U32
}

/// the one signature that stands for the known "midpoint rounded onto a training value" defect
pub const SIG_ROUNDED: &str = "route:midpoint-rounded-onto-training-value";
/// signature of "a split whose one side is only the rounding residue of f32 weight sums"
pub const SIG_RESIDUE: &str = "fit:empty-side-weight-residue";

fn impurity(freq: &[f64], entropy: bool) -> f64 {
    let w: f64 = freq.iter().sum();
    if w <= 0.0 {
        return 0.0;
    }
    if entropy {
        freq.iter()
            .map(|f| f / w)
            .map(|q| if q > 0.0 { -q * q.log2() } else { 0.0 })
            .sum()
    } else {
        1.0 - freq.iter().map(|f| (f / w) * (f / w)).sum::<f64>()
    }
}

fn freq_of(rows: &[usize], y: &[u8], w: &[f64]) -> Vec<f64> {
    let mut f = vec![0.0; 8];
    for &r in rows {
        let id = y.get(r).copied().unwrap_or(0) as usize % 8;
        f[id] += w.get(r).copied().unwrap_or(1.0);
    }
    f
}

/// the arithmetic midpoint of two values in the element type of the records
fn midpoint(a: f64, b: f64, f32_: bool) -> f64 {
    if f32_ {
        ((a as f32 + b as f32) / 2.0f32) as f64
    } else {
        (a + b) / 2.0
    }
}

struct Local {
    node: Option<usize>,
    sig: &'static str,
    msg: String,
}

fn leaf_of(nodes: &[Node], row: &[f64], le: bool) -> Option<usize> {
    let mut cur = 0usize;
    for _ in 0..=nodes.len() {
        let n = nodes.get(cur)?;
        if n.is_leaf {
            return Some(cur);
        }
        let v = *row.get(n.feat)?;
        let left = if le { v <= n.thr } else { v < n.thr };
        cur = if left { n.left? } else { n.right? };
    }
    None
}

pub fn judge(c: &Case, fit: &Fitted, obs: &mut Obs) {
    let nodes = &fit.nodes;
    let n = c.n();
    let p = c.p();
    let x = c.x();
    let w = c.w();
    let y: Vec<u8> = (0..n).map(|i| c.y.get(i).copied().unwrap_or(0)).collect();
    let train_ids: Vec<i16> = {
        let mut v: Vec<i16> = y
            .iter()
            .map(|&id| if c.label == LabelKind::Bool { (id % 2) as i16 } else { id as i16 })
            .collect();
        v.sort_unstable();
        v.dedup();
        v
    };
    // class ids as the label type sees them (bool folds ids mod 2)
    let yl: Vec<u8> = y.iter().map(|&id| if c.label == LabelKind::Bool { id % 2 } else { id }).collect();

    if !obs.ensure(!nodes.is_empty() && !fit.truncated, "shape:walk", || {
        format!("tree walk returned {} nodes (truncated = {})", nodes.len(), fit.truncated)
    }) {
        return;
    }
    let mut loc: Vec<Local> = vec![];
    let exact = c.weights_exact();

    // ---------------------------------------------------------------- shape and depth
    let root = &nodes[0];
    obs.ensure(root.depth == 0, "shape:depth-chain", || format!("root node reports depth {}", root.depth));
    for (i, nd) in nodes.iter().enumerate() {
        if let Some(pi) = nd.parent {
            let pd = nodes.get(pi).map(|q| q.depth).unwrap_or(0);
            obs.ensure(nd.depth == pd + 1, "shape:depth-chain", || {
                format!("node {i} has depth {} but its parent has depth {pd}", nd.depth)
            });
        }
        if let Some(md) = c.max_depth {
            obs.ensure(nd.depth <= md as usize, "limit:max-depth", || {
                format!("node {i} sits at depth {} > max_depth {md}", nd.depth)
            });
        }
        if nd.is_leaf {
            obs.ensure(nd.pred.is_some(), "shape:leaf-without-prediction", || format!("leaf {i} has no prediction"));
            if nd.left.is_some() || nd.right.is_some() {
                loc.push(Local {
                    node: Some(i),
                    sig: "shape:leaf-with-child",
                    msg: format!(
                        "node {i} (depth {}) says is_leaf() but still owns a {} child: iter_nodes/num_leaves count the dangling subtree",
                        nd.depth,
                        if nd.left.is_some() { "left" } else { "right" }
                    ),
                });
            }
        } else {
            obs.ensure(nd.pred.is_none(), "shape:split-with-prediction", || {
                format!("split node {i} returns a prediction")
            });
            obs.ensure(nd.left.is_some() && nd.right.is_some(), "shape:split-without-two-children", || {
                format!("split node {i}: left child present = {}, right child present = {}", nd.left.is_some(), nd.right.is_some())
            });
            obs.ensure(nd.feat < p, "shape:feature-index", || {
                format!("split node {i} splits on feature {} of {p}", nd.feat)
            });
            obs.ensure(nd.thr.is_finite() && nd.dec.is_finite(), "shape:non-finite-split", || {
                format!("split node {i}: threshold {} decrease {}", nd.thr, nd.dec)
            });
        }
    }

    // ---------------------------------------------------------------- accessors agree with the walked tree
    let walked_depth = nodes.iter().map(|q| q.depth).max().unwrap_or(0);
    let walked_leaves = nodes.iter().filter(|q| q.is_leaf).count();
    let mut walked_feats: Vec<usize> = nodes.iter().filter(|q| !q.is_leaf).map(|q| q.feat).collect();
    walked_feats.sort_unstable();
    walked_feats.dedup();
    obs.ensure(fit.api_max_depth == walked_depth, "api:max_depth", || {
        format!("max_depth() = {} but the deepest node has depth {walked_depth}", fit.api_max_depth)
    });
    obs.ensure(fit.api_num_leaves == walked_leaves, "api:num_leaves", || {
        format!("num_leaves() = {} but {walked_leaves} nodes are leaves", fit.api_num_leaves)
    });
    obs.ensure(fit.api_iter_count == nodes.len(), "api:iter_nodes", || {
        format!("iter_nodes() yields {} nodes, the tree has {}", fit.api_iter_count, nodes.len())
    });
    obs.ensure(fit.api_features == walked_feats, "api:features", || {
        format!("features() = {:?}, split nodes use {:?}", fit.api_features, walked_feats)
    });

    // ---------------------------------------------------------------- route the training rows (prediction rule)
    let mut rows: Vec<Option<Vec<usize>>> = vec![None; nodes.len()];
    rows[0] = Some((0..n).collect());
    // nodes are stored in pre-order: a parent always precedes its children
    for i in 0..nodes.len() {
        let nd = &nodes[i];
        if nd.is_leaf || nd.feat >= p {
            continue;
        }
        let Some(mine) = rows[i].clone() else { continue };
        let (mut l, mut r) = (vec![], vec![]);
        for &row in &mine {
            if x[row][nd.feat] < nd.thr {
                l.push(row);
            } else {
                r.push(row);
            }
        }
        if let Some(li) = nd.left {
            if li < rows.len() {
                rows[li] = Some(l);
            }
        }
        if let Some(ri) = nd.right {
            if ri < rows.len() {
                rows[ri] = Some(r);
            }
        }
    }

    // ---------------------------------------------------------------- nodes whose threshold is a midpoint that rounded onto a training value
    // tied[i]: a training row reaching node i carries exactly the split value, and that value is the
    // (rounded) midpoint of itself and a neighbouring float present in the same column.
    let mut gated = vec![false; nodes.len()];
    let mut any_plain_tie = false;
    for i in 0..nodes.len() {
        let nd = &nodes[i];
        if let Some(pi) = nd.parent {
            if gated.get(pi).copied().unwrap_or(false) {
                gated[i] = true;
                continue;
            }
        }
        let was_split = !nd.is_leaf || nd.left.is_some() || nd.right.is_some();
        if !was_split || nd.feat >= p {
            continue;
        }
        let Some(mine) = rows[i].as_ref() else { continue };
        if mine.iter().any(|&r| x[r][nd.feat] == nd.thr) {
            let rounded = (0..n).any(|r| {
                let u = x[r][nd.feat];
                u != nd.thr && midpoint(u, nd.thr, c.f32_) == nd.thr
            });
            if rounded {
                gated[i] = true;
            } else {
                any_plain_tie = true;
            }
        }
    }
    obs.class_if(gated.iter().any(|g| *g), "threshold_equals_training_value");

    // ---------------------------------------------------------------- nodes split on a weight residue
    // residue[i]: node i was split although one side receives no training row, the weights are inexact in
    // f32 and min_weight_leaf is not larger than the rounding residue the running side weight can carry:
    // the sweep took the residue of the f32 sums for the weight of a non-empty side.
    let mut residue = vec![false; nodes.len()];
    if !exact {
        for i in 0..nodes.len() {
            let nd = &nodes[i];
            if let Some(pi) = nd.parent {
                if residue.get(pi).copied().unwrap_or(false) {
                    residue[i] = true;
                    continue;
                }
            }
            let was_split = !nd.is_leaf || nd.left.is_some() || nd.right.is_some();
            if !was_split || nd.feat >= p {
                continue;
            }
            let Some(mine) = rows[i].as_ref() else { continue };
            let nl = mine.iter().filter(|&&r| x[r][nd.feat] < nd.thr).count();
            let wsum: f64 = mine.iter().map(|&r| w[r]).sum();
            if (nl == 0 || nl == mine.len()) && (c.min_weight_leaf as f64) <= side_slack(mine.len(), wsum) {
                residue[i] = true;
            }
        }
    }
    obs.class_if(residue.iter().any(|g| *g), "split_on_weight_residue");
    if any_plain_tie {
        obs.class("threshold_on_sample_not_rounding");
    }

    // ---------------------------------------------------------------- per split node
    let mut n_splits = 0usize;
    for (i, nd) in nodes.iter().enumerate() {
        if nd.is_leaf || nd.feat >= p {
            continue;
        }
        let Some(mine) = rows[i].as_ref() else { continue };
        n_splits += 1;
        let (l, r): (Vec<usize>, Vec<usize>) = mine.iter().partition(|&&row| x[row][nd.feat] < nd.thr);
        let cnt = mine.len();
        let wsum: f64 = mine.iter().map(|&r| w[r]).sum();
        if (cnt as f32) < c.min_weight_split {
            loc.push(Local {
                node: Some(i),
                sig: "limit:min-weight-split",
                msg: format!("split node {i} is reached by {cnt} training rows < min_weight_split {}", c.min_weight_split),
            });
        } else if wsum < c.min_weight_split as f64 {
            obs.class("split_weight_below_min_weight_split");
        }
        let wl: f64 = 0.0 + l.iter().map(|&r| w[r]).sum::<f64>();
        let wr: f64 = 0.0 + r.iter().map(|&r| w[r]).sum::<f64>();
        let wslack = if exact { 0.0 } else { side_slack(cnt, wsum) };
        if wl < c.min_weight_leaf as f64 - wslack || wr < c.min_weight_leaf as f64 - wslack {
            loc.push(Local {
                node: Some(i),
                sig: "limit:min-weight-leaf",
                msg: format!(
                    "split node {i} (feature {} < {}) leaves weight {wl} on the left and {wr} on the right, min_weight_leaf = {}",
                    nd.feat, nd.thr, c.min_weight_leaf
                ),
            });
        }
        // reported decrease >= min_impurity_decrease, compared in the element type like linfa does
        let mid = if c.f32_ { c.min_impurity_decrease as f32 as f64 } else { c.min_impurity_decrease };
        obs.ensure(nd.dec >= mid, "limit:min-impurity-decrease", || {
            format!("split node {i} reports impurity decrease {} < min_impurity_decrease {mid}", nd.dec)
        });
        let fp = freq_of(mine, &yl, &w);
        let fl = freq_of(&l, &yl, &w);
        let fr = freq_of(&r, &yl, &w);
        let actual = if wsum > 0.0 {
            impurity(&fp, c.entropy) - wl / wsum * impurity(&fl, c.entropy) - wr / wsum * impurity(&fr, c.entropy)
        } else {
            0.0
        };
        let dtol = if exact { TOL_F32 } else { TOL_F32 + decrease_slack(cnt) };
        if (nd.dec - actual).abs() > dtol {
            loc.push(Local {
                node: Some(i),
                sig: "split:impurity-decrease-value",
                msg: format!(
                    "split node {i} (feature {} < {}) reports decrease {} but the {} decrease of that split on the rows reaching it is {actual}",
                    nd.feat,
                    nd.thr,
                    nd.dec,
                    if c.entropy { "entropy" } else { "gini" }
                ),
            });
        }
    }
    obs.class(match n_splits {
        0 => "splits_0",
        1 => "splits_1",
        _ => "splits_2plus",
    });

    // ---------------------------------------------------------------- per leaf
    let mut weighted_tie = false;
    let mut depth_binding = false;
    let mut floor_mws_leaf = false;
    let mut near_tie = false;
    for (i, nd) in nodes.iter().enumerate() {
        if !nd.is_leaf {
            continue;
        }
        let Some(mine) = rows[i].as_ref() else { continue }; // dangling subtree below a leaf: not reachable
        let pred = nd.pred.unwrap_or(UNSEEN);
        obs.ensure(train_ids.contains(&pred), "leaf:unseen-label", || {
            format!("leaf {i} predicts a label that does not occur in the training targets")
        });
        if mine.is_empty() {
            loc.push(Local {
                node: Some(i),
                sig: "leaf:no-training-row",
                msg: format!("leaf {i} is reached by no training row under the prediction rule"),
            });
            continue;
        }
        let f = freq_of(mine, &yl, &w);
        let best = f.iter().cloned().fold(0.0, f64::max);
        let mslack = if exact { 0.0 } else { mode_slack(mine.len(), best) };
        let modes: Vec<usize> = (0..f.len()).filter(|&k| f[k] > 0.0 && f[k] >= best - mslack).collect();
        if (0..f.len()).filter(|&k| f[k] == best).count() >= 2 {
            weighted_tie = true;
        }
        // near tie: a lighter class within 1e-5 (absolute or relative) of the heaviest one but outside the
        // slack, and the heaviest class is not the smallest label among them
        let top = (0..f.len()).find(|&k| f[k] == best).unwrap_or(0);
        if (0..top).any(|k| f[k] > 0.0 && f[k] < best - mslack && (best - f[k] < 1e-5 || best - f[k] < 1e-5 * best)) {
            near_tie = true;
        }
        let impure = f.iter().filter(|v| **v > 0.0).count() >= 2;
        if impure && c.max_depth.map(|d| d as usize == nd.depth).unwrap_or(false) {
            depth_binding = true;
        }
        // the corner of a non-integral min_weight_split: a node holding exactly floor(mws) rows of
        // several classes must stay a leaf (unless max_depth already stops it, it is this bound that does)
        if impure
            && c.min_weight_split.fract() != 0.0
            && mine.len() == c.min_weight_split.floor() as usize
            && c.max_depth.map(|d| (d as usize) > nd.depth).unwrap_or(true)
        {
            floor_mws_leaf = true;
        }
        if pred < 0 || !modes.contains(&(pred as usize)) {
            loc.push(Local {
                node: Some(i),
                sig: "leaf:not-a-mode",
                msg: format!(
                    "leaf {i} predicts class id {pred} but the class weights of the {} training rows reaching it are {:?} (f64 sums of the f32 weights; accepted slack below the maximum: {mslack:e})",
                    mine.len(),
                    &f[..6]
                ),
            });
        }
    }
    obs.class_if(weighted_tie, "leaf_weighted_tie");
    obs.class_if(near_tie, "leaf_near_tie_heavier_label_not_smallest");
    obs.class_if(depth_binding, "max_depth_binding");
    obs.class_if(floor_mws_leaf, "impure_leaf_with_floor_min_weight_split_rows");

    // ---------------------------------------------------------------- predict on the training rows
    if obs.ensure(fit.pred_train.len() == n, "predict:length", || {
        format!("predict returned {} labels for {n} rows", fit.pred_train.len())
    }) {
        for i in 0..n {
            let got = fit.pred_train[i];
            obs.ensure(train_ids.contains(&got), "predict:unseen-label", || {
                format!("training row {i} is predicted a label that never occurs in the training targets")
            });
            match leaf_of(nodes, &x[i], false) {
                Some(leaf) => {
                    let want = nodes[leaf].pred.unwrap_or(UNSEEN);
                    if got != want {
                        loc.push(Local {
                            node: Some(leaf),
                            sig: "predict:train-row",
                            msg: format!("training row {i} {:?} is routed to leaf {leaf} (class id {want}) but predict returns class id {got}", x[i]),
                        });
                    }
                }
                None => {
                    obs.fail("predict:unroutable", format!("training row {i} cannot be routed through the public tree"));
                }
            }
        }
    }
    // ---------------------------------------------------------------- predict on fresh rows
    let q = c.q();
    if obs.ensure(fit.pred_query.len() == q.len(), "predict:length", || {
        format!("predict returned {} labels for {} query rows", fit.pred_query.len(), q.len())
    }) {
        for (i, row) in q.iter().enumerate() {
            let got = fit.pred_query[i];
            obs.ensure(train_ids.contains(&got), "predict:unseen-label", || {
                format!("query row {i} is predicted a label that never occurs in the training targets")
            });
            let a = leaf_of(nodes, row, false);
            let b = leaf_of(nodes, row, true);
            if a != b {
                obs.class("query_on_threshold");
            }
            let ok = [a, b].iter().flatten().any(|&leaf| nodes[leaf].pred.unwrap_or(UNSEEN) == got);
            if !ok {
                loc.push(Local {
                    node: a,
                    sig: "predict:query-row",
                    msg: format!("query row {i} {:?} is routed to leaf {:?} but predict returns class id {got}", row, a),
                });
            }
        }
    }

    // ---------------------------------------------------------------- importances
    if n_splits > 0 {
        if let (Some(imp), Some(mean)) = (&fit.importance, &fit.mean_decrease) {
            if obs.ensure(imp.len() == p && mean.len() == p, "importance:length", || {
                format!("{} importances / {} mean decreases for {p} features", imp.len(), mean.len())
            }) {
                obs.ensure(imp.iter().all(|v| v.is_finite() && *v >= 0.0), "importance:negative", || {
                    format!("feature importances {:?}", imp)
                });
                let s: f64 = imp.iter().sum();
                obs.ensure((s - 1.0).abs() <= TOL_SUM, "importance:sum", || {
                    format!("feature importances {:?} sum to {s}", imp)
                });
                // documented meaning: mean reported decrease of the split nodes using the feature, normalised
                let mut tot = vec![0.0f64; p];
                let mut cnt = vec![0usize; p];
                for nd in nodes.iter().filter(|q| !q.is_leaf && q.feat < p) {
                    tot[nd.feat] += nd.dec;
                    cnt[nd.feat] += 1;
                }
                let want_mean: Vec<f64> = (0..p).map(|j| if cnt[j] == 0 { 0.0 } else { tot[j] / cnt[j] as f64 }).collect();
                let ws: f64 = want_mean.iter().sum();
                for j in 0..p {
                    obs.ensure((mean[j] - want_mean[j]).abs() <= TOL_F32 * (1.0 + want_mean[j].abs()), "importance:mean-decrease", || {
                        format!("feature {j}: mean_impurity_decrease {} vs mean of the reported decreases {}", mean[j], want_mean[j])
                    });
                    if ws > 0.0 {
                        obs.ensure((imp[j] - want_mean[j] / ws).abs() <= TOL_F32, "importance:value", || {
                            format!("feature {j}: importance {} vs normalised mean decrease {}", imp[j], want_mean[j] / ws)
                        });
                    }
                }
            }
        }
    }

    // ---------------------------------------------------------------- report
    let mut rounded: Vec<String> = vec![];
    let mut residue_msgs: Vec<String> = vec![];
    for f in loc {
        let g = f.node.map(|i| gated.get(i).copied().unwrap_or(false)).unwrap_or(false);
        let r = f.node.map(|i| residue.get(i).copied().unwrap_or(false)).unwrap_or(false);
        if r {
            if residue_msgs.len() < 4 {
                residue_msgs.push(format!("[{}] {}", f.sig, f.msg));
            }
        } else if g {
            if rounded.len() < 4 {
                rounded.push(format!("[{}] {}", f.sig, f.msg));
            }
        } else {
            obs.fail(f.sig, f.msg);
        }
    }
    if !residue_msgs.is_empty() {
        let first = residue.iter().position(|g| *g).unwrap_or(0);
        let nd = &nodes[first];
        obs.fail(
            SIG_RESIDUE,
            format!(
                "node {first} was split on feature {} at {:?} although one side receives no training row: with inexact f32 weights (scale {:e}) the running side weight keeps a rounding residue >= min_weight_leaf {}. Failures at or below that node: {}",
                nd.feat,
                nd.thr,
                c.scale(),
                c.min_weight_leaf,
                residue_msgs.join(" | ")
            ),
        );
    }
    if !rounded.is_empty() {
        let first = gated.iter().position(|g| *g).unwrap_or(0);
        let nd = &nodes[first];
        // rows that a `<=` partition (fit) and the `<` descent (predict) send to differently predicting leaves
        let moved: Vec<String> = (0..n)
            .filter_map(|i| {
                let a = leaf_of(nodes, &x[i], false)?;
                let b = leaf_of(nodes, &x[i], true)?;
                let (pa, pb) = (nodes[a].pred.unwrap_or(UNSEEN), nodes[b].pred.unwrap_or(UNSEEN));
                if a != b && pa != pb {
                    Some(format!("row {i} (class id {}): `<=` leaf predicts {pb}, predict() gives {pa}", yl[i]))
                } else {
                    None
                }
            })
            .take(3)
            .collect();
        if !moved.is_empty() {
            rounded.push(format!("rows on the threshold: {}", moved.join("; ")));
        }
        obs.fail(
            SIG_ROUNDED,
            format!(
                "node {first} splits feature {} at {:?}, which is itself a training value reaching the node (the midpoint of two neighbouring floats rounded onto one of them), so a fit that partitions with `<=` disagrees with predict's `<` there (defect fixed by b84e128). Failures at or below that node: {}",
                nd.feat,
                nd.thr,
                rounded.join(" | ")
            ),
        );
    }

    // ---------------------------------------------------------------- non-trivial rule
    obs.nontrivial_if(n_splits >= 2 || weighted_tie || near_tie || c.has_adjacent());
}
