//! Independent reference code for C11: the documented objective, exact one-dimensional (block)
//! minimisers, a deliberately plain coordinate-descent / direct reference solver and the textbook
//! duality gap. Everything works on `Vec<Vec<f64>>`, never on linfa's own arithmetic.
//!
//! Notation (n samples, p features, t target columns):
//!   P(W, b) = 1/2 ||Y - 1 b^T - X W||_F^2 + alpha * sum_j ||W_j.||_2 + beta/2 ||W||_F^2
//! with alpha = n * penalty * l1_ratio, beta = n * penalty * (1 - l1_ratio); this is n times the
//! documented objective 1/(2n)||y - Xw - b||^2 + penalty (l1_ratio ||w||_1 + (1-l1_ratio)/2 ||w||^2),
//! so minimisers and KKT conditions coincide and differences of P are exactly what the reported
//! duality gap (which linfa computes on the same n-scaled objective) bounds. For t = 1 the row
//! norm is the absolute value, i.e. the plain l1 norm.

pub type Mat = Vec<Vec<f64>>;

pub struct Prob<'a> {
    pub x: &'a Mat,
    /// targets, n x t
    pub y: &'a Mat,
    pub n: usize,
    pub p: usize,
    pub t: usize,
    pub alpha: f64,
    pub beta: f64,
}

pub fn zeros(r: usize, c: usize) -> Mat {
    vec![vec![0.0; c]; r]
}

pub fn shape_ok(m: &Mat, r: usize, c: usize) -> bool {
    m.len() == r && m.iter().all(|row| row.len() == c)
}

pub fn all_finite(m: &Mat) -> bool {
    m.iter().all(|r| r.iter().all(|v| v.is_finite()))
}

/// residual R = Y - 1 b^T - X W  (n x t)
pub fn residual(pr: &Prob, w: &Mat, b: &[f64]) -> Mat {
    let mut r = zeros(pr.n, pr.t);
    for i in 0..pr.n {
        for c in 0..pr.t {
            let mut s = pr.y[i][c] - b[c];
            for j in 0..pr.p {
                s -= pr.x[i][j] * w[j][c];
            }
            r[i][c] = s;
        }
    }
    r
}

pub fn fro2(m: &Mat) -> f64 {
    m.iter().map(|r| r.iter().map(|v| v * v).sum::<f64>()).sum()
}

pub fn row_norm(r: &[f64]) -> f64 {
    r.iter().map(|v| v * v).sum::<f64>().sqrt()
}

pub fn penalty_value(pr: &Prob, w: &Mat) -> f64 {
    let l21: f64 = w.iter().map(|r| row_norm(r)).sum();
    pr.alpha * l21 + 0.5 * pr.beta * fro2(w)
}

/// P(W, b)
pub fn objective(pr: &Prob, w: &Mat, b: &[f64]) -> f64 {
    0.5 * fro2(&residual(pr, w, b)) + penalty_value(pr, w)
}

/// Magnitude scale of the objective evaluation: the value P would take if no cancellation
/// happened inside the residuals. Rounding errors of `objective` are a small multiple of
/// `eps * scale`; every float slack below is expressed relative to it.
pub fn objective_scale(pr: &Prob, w: &Mat, b: &[f64]) -> f64 {
    let mut s = 0.0;
    for i in 0..pr.n {
        for c in 0..pr.t {
            let mut m = pr.y[i][c].abs() + b[c].abs();
            for j in 0..pr.p {
                m += (pr.x[i][j] * w[j][c]).abs();
            }
            s += m * m;
        }
    }
    0.5 * s + penalty_value(pr, w)
}

pub fn col_dot(x: &Mat, a: usize, b: usize) -> f64 {
    x.iter().map(|r| r[a] * r[b]).sum()
}

/// rho_j = x_j^T (R + x_j W_j.)  — the correlation of feature j with the partial residual.
pub fn rho(pr: &Prob, r: &Mat, w: &Mat, j: usize) -> Vec<f64> {
    let mut out = vec![0.0; pr.t];
    for i in 0..pr.n {
        let xij = pr.x[i][j];
        if xij != 0.0 {
            for c in 0..pr.t {
                out[c] += xij * (r[i][c] + xij * w[j][c]);
            }
        }
    }
    out
}

/// Exact minimiser of P over row j (all other rows and b fixed): group soft threshold.
pub fn block_minimiser(pr: &Prob, rho_j: &[f64], xjj: f64) -> Vec<f64> {
    let denom = xjj + pr.beta;
    let nr = row_norm(rho_j);
    if denom <= 0.0 || nr <= pr.alpha || nr == 0.0 {
        return vec![0.0; rho_j.len()];
    }
    let s = (1.0 - pr.alpha / nr) / denom;
    rho_j.iter().map(|v| v * s).collect()
}

/// Textbook duality gap of the (multi-task) elastic net at W for fixed b, from the dual-feasible
/// point obtained by rescaling the augmented residual. Non-negative in exact arithmetic.
pub fn dual_gap(pr: &Prob, w: &Mat, b: &[f64]) -> f64 {
    let r = residual(pr, w, b);
    let mut dn: f64 = 0.0;
    for j in 0..pr.p {
        let mut g = vec![0.0; pr.t];
        for i in 0..pr.n {
            for c in 0..pr.t {
                g[c] += pr.x[i][j] * r[i][c];
            }
        }
        for c in 0..pr.t {
            g[c] -= pr.beta * w[j][c];
        }
        dn = dn.max(row_norm(&g));
    }
    let r2 = fro2(&r);
    let w2 = fro2(w);
    let mut ry = 0.0;
    for i in 0..pr.n {
        for c in 0..pr.t {
            ry += r[i][c] * (pr.y[i][c] - b[c]);
        }
    }
    let cst = if dn > pr.alpha { pr.alpha / dn } else { 1.0 };
    let primal = 0.5 * r2 + penalty_value(pr, w);
    let aug2 = r2 + pr.beta * w2;
    let dual = cst * ry - 0.5 * cst * cst * aug2;
    primal - dual
}

/// Plain cyclic (block) coordinate descent on P(., b) from W = 0 with residuals recomputed from
/// scratch every sweep. Returns (W, sweeps used, converged) where converged means that the largest
/// scaled row change of the last sweep was below `1e-15`.
pub fn ref_cd(pr: &Prob, b: &[f64], max_sweeps: usize) -> (Mat, usize, bool) {
    let mut w = zeros(pr.p, pr.t);
    let xjj: Vec<f64> = (0..pr.p).map(|j| col_dot(pr.x, j, j)).collect();
    let mut r = residual(pr, &w, b);
    let mut sweeps = 0;
    let mut conv = false;
    while sweeps < max_sweeps {
        let mut dmax: f64 = 0.0;
        let mut wmax: f64 = 0.0;
        for j in 0..pr.p {
            if xjj[j] == 0.0 {
                continue;
            }
            let rj = rho(pr, &r, &w, j);
            let new = block_minimiser(pr, &rj, xjj[j]);
            let mut d2 = 0.0;
            for c in 0..pr.t {
                let d = new[c] - w[j][c];
                d2 += d * d;
                if d != 0.0 {
                    for i in 0..pr.n {
                        r[i][c] -= pr.x[i][j] * d;
                    }
                }
            }
            w[j] = new;
            let sc = xjj[j].sqrt();
            dmax = dmax.max(d2.sqrt() * sc);
            wmax = wmax.max(row_norm(&w[j]) * sc);
        }
        sweeps += 1;
        if sweeps % 16 == 0 {
            r = residual(pr, &w, b);
        }
        if dmax <= 1e-15 * wmax || wmax == 0.0 {
            conv = true;
            break;
        }
    }
    (w, sweeps, conv)
}

/// Direct solution for alpha = 0: (X^T X + beta I) W = X^T (Y - b). None if singular.
pub fn ref_direct(pr: &Prob, b: &[f64]) -> Option<Mat> {
    let mut a = zeros(pr.p, pr.p);
    for j in 0..pr.p {
        for k in 0..pr.p {
            a[j][k] = col_dot(pr.x, j, k);
        }
        a[j][j] += pr.beta;
    }
    let mut w = zeros(pr.p, pr.t);
    for c in 0..pr.t {
        let rhs: Vec<f64> = (0..pr.p)
            .map(|j| (0..pr.n).map(|i| pr.x[i][j] * (pr.y[i][c] - b[c])).sum())
            .collect();
        let sol = vengine::num::solve(&a, &rhs)?;
        if sol.iter().any(|v| !v.is_finite()) {
            return None;
        }
        for j in 0..pr.p {
            w[j][c] = sol[j];
        }
    }
    Some(w)
}

pub fn col_means(x: &Mat, p: usize) -> Vec<f64> {
    let n = x.len().max(1) as f64;
    (0..p).map(|j| x.iter().map(|r| r[j]).sum::<f64>() / n).collect()
}

pub fn col_norms(x: &Mat, p: usize) -> Vec<f64> {
    (0..p).map(|j| x.iter().map(|r| r[j] * r[j]).sum::<f64>().sqrt()).collect()
}

/// Condition number (lambda_max / lambda_min) of the Gram matrix of the columns of `a` after
/// scaling every column to unit length. Zero columns are reported as infinite.
pub fn equilibrated_gram_cond(a: &Mat, cols: usize) -> f64 {
    let norms = col_norms(a, cols);
    if norms.iter().any(|v| *v == 0.0 || !v.is_finite()) {
        return f64::INFINITY;
    }
    let mut g = zeros(cols, cols);
    for j in 0..cols {
        for k in 0..cols {
            g[j][k] = col_dot(a, j, k) / (norms[j] * norms[k]);
        }
    }
    let (vals, _) = vengine::num::jacobi_eigh(&g);
    let mx = vals.iter().cloned().fold(f64::MIN, f64::max);
    let mn = vals.iter().cloned().fold(f64::MAX, f64::min);
    if !(mn > 0.0) {
        f64::INFINITY
    } else {
        mx / mn
    }
}
