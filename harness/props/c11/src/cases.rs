//! Case types and generators for C11.
//!
//! A design matrix is built as `X = (G + k) * diag(scale)`: G gaussian (or a small-integer lattice),
//! per-column scale 10^(e/2), e in -6..=6, per-column offset k in {exactly centred, raw, +-1, +-100}
//! (in units of the column's scale, at most one +-100 column so the conditioning stays bounded),
//! optionally one constant column, one near-collinear pair (elastic net only, the pair only when
//! the ridge part of the penalty is positive) or one feature that is exactly uncorrelated with every
//! target (column 0 = e_a - e_b with y_a = y_b). Targets are `X w* + b* + sigma * noise` with a
//! row-sparse `w*`. The *case* stores the finished matrices, so a replay file is self-contained.

use crate::oracle::Mat;
use proptest::prelude::*;
use serde::{Deserialize, Serialize};
use vengine::gen::{gauss, idx};

#[derive(Debug, Clone, Serialize, Deserialize)]
pub struct EnetCase {
    /// records, n x p
    pub x: Mat,
    /// targets, n x t (t = 1 unless `multi`)
    pub y: Mat,
    /// fit `MultiTaskElasticNet` (2-D targets) instead of `ElasticNet`
    pub multi: bool,
    /// run linfa in f32 (all stored values are exactly representable in f32 then)
    pub f32: bool,
    pub penalty: f64,
    pub l1_ratio: f64,
    pub intercept: bool,
    pub tol: f64,
    /// construction path: 0 = `ElasticNet::params()` / `MultiTaskElasticNet::params()`, 1 = `ElasticNetParams::new()`
    /// (resp. the multi-task alias), 2 = `..Params::default()`, 3 = the preset `lasso()` / `ridge()` when
    /// l1_ratio is 1 / 0 (then l1_ratio is not set explicitly; otherwise like 0)
    #[serde(default)]
    pub ctor: u8,
    /// leave every option whose value equals the documented default (penalty 1.0, l1_ratio 0.5,
    /// with_intercept true, tolerance 1e-4) unset instead of setting it explicitly
    #[serde(default)]
    pub leave_defaults: bool,
    /// memory layout in which the records / the targets are handed to linfa (see `fit::Laid2`):
    /// 0 row-major, 1 column-major, 2 every second row of a larger table, 3 rows reversed (axis inverted),
    /// 4 columns reversed, 5 transposed view of a feature-major table
    #[serde(default)]
    pub x_layout: u8,
    #[serde(default)]
    pub y_layout: u8,
    /// `max_iterations` of the fit (tier-dependent fixed work: 10 000 quick, 100 000 thorough)
    #[serde(default = "default_max_iter")]
    pub max_iter: u32,
    /// seed of the random perturbation directions tried by the oracle
    pub pert_seed: u64,
}

fn default_max_iter() -> u32 {
    100_000
}

#[derive(Debug, Clone, Serialize, Deserialize)]
pub struct OlsCase {
    pub x: Mat,
    pub y: Vec<f64>,
    pub intercept: bool,
    /// construction path: 0 = `LinearRegression::new()`, 1 = `LinearRegression::default()`
    #[serde(default)]
    pub ctor: u8,
    /// when the intercept option equals its documented default (on), do not call `with_intercept`
    #[serde(default)]
    pub leave_defaults: bool,
    /// memory layouts of records / targets, as in `EnetCase`
    #[serde(default)]
    pub x_layout: u8,
    #[serde(default)]
    pub y_layout: u8,
    pub f32: bool,
    pub pert_seed: u64,
}

#[derive(Debug, Clone, Copy, PartialEq, Eq)]
pub enum Flavor {
    Ols,
    Enet,
    Multi,
    /// mild designs for the f32 runs
    F32,
}

#[derive(Debug, Clone)]
struct Raw {
    n: usize,
    p: usize,
    t: usize,
    g: Mat,
    noise: Mat,
    cols: Vec<(i8, u8)>,
    wstar: Mat,
    rowzero: Vec<bool>,
    all_centred: bool,
    lattice: bool,
    special: u8,
    sp_a: u16,
    sp_b: u16,
    sp_v: u8,
    bstar: u8,
    sigma: u8,
}

fn to_f32(v: f64) -> f64 {
    (v as f32) as f64
}

fn dims(flavor: Flavor) -> impl Strategy<Value = (usize, usize, usize)> {
    let tmax = if flavor == Flavor::Multi { 3usize } else { 1 };
    (1usize..=6, any::<u16>(), prop::bool::weighted(0.6), 1usize..=tmax).prop_map(|(p, k, small, t)| {
        let lo = (p + 2).max(6);
        let hi = if small { 14 } else { 60 };
        let n = lo + idx(k, hi - lo + 1);
        (n, p, t)
    })
}

fn raw(flavor: Flavor) -> impl Strategy<Value = Raw> {
    dims(flavor).prop_flat_map(move |(n, p, t)| {
        (
            (
                prop::collection::vec(prop::collection::vec(gauss(), p), n),
                prop::collection::vec(prop::collection::vec(gauss(), t), n),
                prop::collection::vec((-6i8..=6, 0u8..8), p),
                prop::collection::vec(prop::collection::vec(gauss(), t), p),
                prop::collection::vec(prop::bool::weighted(0.4), p),
            ),
            (
                prop::bool::weighted(0.35),
                prop::bool::weighted(0.12),
                0u8..10,
                any::<u16>(),
                any::<u16>(),
                0u8..3,
                0u8..5,
                0u8..8,
            ),
        )
            .prop_map(move |((g, noise, cols, wstar, rowzero), (all_centred, lattice, special, sp_a, sp_b, sp_v, bstar, sigma))| Raw {
                n,
                p,
                t,
                g,
                noise,
                cols,
                wstar,
                rowzero,
                all_centred,
                lattice,
                special,
                sp_a,
                sp_b,
                sp_v,
                bstar,
                sigma,
            })
    })
}

/// Builds (X, Y) from the raw draw. `ridge_part` tells whether penalty * (1 - l1_ratio) > 0,
/// `specials` whether a constant column / a near-collinear pair may be planted (elastic net only).
fn build(r: &Raw, flavor: Flavor, ridge_part: bool, specials: bool) -> (Mat, Mat) {
    let (n, p, t) = (r.n, r.p, r.t);
    let enet = specials;
    let mut g = r.g.clone();
    if r.lattice {
        for row in g.iter_mut() {
            for v in row.iter_mut() {
                *v = (*v * 1.5).round().clamp(-3.0, 3.0);
            }
        }
    }
    // near-collinear pair
    if enet && flavor != Flavor::F32 && !r.lattice && (r.special == 1 || r.special == 4) && ridge_part && p >= 2 {
        let a = idx(r.sp_a, p);
        let mut b = idx(r.sp_b, p);
        if b == a {
            b = (a + 1) % p;
        }
        let delta = [0.3, 0.1, 0.03][(r.sp_v as usize).min(2)];
        for i in 0..n {
            g[i][b] = g[i][a] + delta * g[i][b];
        }
    }
    let mut x = vec![vec![0.0; p]; n];
    let mut big_used = false;
    for j in 0..p {
        let (e, off) = r.cols[j];
        if r.lattice {
            let k = [0.0, 1.0, -1.0][(off % 3) as usize];
            for i in 0..n {
                x[i][j] = g[i][j] + k;
            }
            continue;
        }
        let e = if flavor == Flavor::F32 { e.clamp(-2, 2) } else { e };
        let scale = 10f64.powf(e as f64 / 2.0);
        let mut kind = if r.all_centred { 0 } else { off };
        if flavor == Flavor::F32 && (kind == 5 || kind == 6) {
            kind -= 2;
        }
        if kind == 5 || kind == 6 {
            if big_used {
                kind -= 2;
            } else {
                big_used = true;
            }
        }
        match kind {
            0 | 1 => {
                let m = g.iter().map(|row| row[j]).sum::<f64>() / n as f64;
                for i in 0..n {
                    x[i][j] = scale * (g[i][j] - m);
                }
                if flavor != Flavor::F32 {
                    // second pass: the stored column has a mean at rounding level
                    let m2 = x.iter().map(|row| row[j]).sum::<f64>() / n as f64;
                    for i in 0..n {
                        x[i][j] -= m2;
                    }
                }
            }
            _ => {
                let k = match kind {
                    3 => 1.0,
                    4 => -1.0,
                    5 => 100.0,
                    6 => -100.0,
                    _ => 0.0,
                };
                for i in 0..n {
                    x[i][j] = scale * (g[i][j] + k);
                }
            }
        }
    }
    // constant column
    if enet && (r.special == 2 || r.special == 3) {
        let j = idx(r.sp_a, p);
        let e = if r.lattice { 0 } else { r.cols[j].0 };
        let e = if flavor == Flavor::F32 { e.clamp(-2, 2) } else { e };
        let v = [0.0, 1.0, -2.5][(r.sp_v as usize).min(2)] * 10f64.powf(e as f64 / 2.0);
        for i in 0..n {
            x[i][j] = v;
        }
    }
    // a feature exactly uncorrelated with every target: column 0 = scale * (e_a - e_b), and below y_b := y_a
    let planted = if enet && r.special == 5 {
        let a = idx(r.sp_a, n);
        let mut b = idx(r.sp_b, n);
        if b == a {
            b = (a + 1) % n;
        }
        let e = if r.lattice { 0 } else { r.cols[0].0 };
        let e = if flavor == Flavor::F32 { e.clamp(-2, 2) } else { e };
        let v = 10f64.powf(e as f64 / 2.0);
        for i in 0..n {
            x[i][0] = if i == a {
                v
            } else if i == b {
                -v
            } else {
                0.0
            };
        }
        Some((a, b))
    } else {
        None
    };
    if flavor == Flavor::F32 {
        for row in x.iter_mut() {
            for v in row.iter_mut() {
                *v = to_f32(*v);
            }
        }
    }
    // targets
    let rms: Vec<f64> = (0..p)
        .map(|j| (x.iter().map(|row| row[j] * row[j]).sum::<f64>() / n as f64).sqrt())
        .collect();
    let sigma = [0.0, 1e-3, 1e-3, 0.1, 0.1, 0.1, 1.0, 1.0][(r.sigma as usize).min(7)];
    let bstar = [0.0, 1.0, -1.0, 10.0, -10.0][(r.bstar as usize).min(4)];
    let mut y = vec![vec![0.0; t]; n];
    for c in 0..t {
        let w: Vec<f64> = (0..p)
            .map(|j| {
                if r.rowzero[j] || rms[j] == 0.0 {
                    0.0
                } else if r.lattice {
                    (r.wstar[j][c] * 1.5).round()
                } else {
                    2.0 * r.wstar[j][c] / rms[j]
                }
            })
            .collect();
        for i in 0..n {
            let mut s = bstar;
            for j in 0..p {
                s += x[i][j] * w[j];
            }
            s += if r.lattice {
                if sigma == 0.0 {
                    0.0
                } else {
                    (r.noise[i][c] * 0.7).round()
                }
            } else {
                sigma * r.noise[i][c]
            };
            y[i][c] = if flavor == Flavor::F32 { to_f32(s) } else { s };
        }
    }
    if let Some((a, b)) = planted {
        y[b] = y[a].clone();
    }
    (x, y)
}

/// memory layout: standard with weight 4, each of the five others with weight 1
fn layout_s() -> impl Strategy<Value = u8> {
    prop_oneof![4 => Just(0u8), 1 => Just(1u8), 1 => Just(2u8), 1 => Just(3u8), 1 => Just(4u8), 1 => Just(5u8)]
}

fn penalty_s() -> impl Strategy<Value = f64> {
    prop_oneof![1 => Just(0.0), 3 => Just(1e-3), 3 => Just(0.1), 3 => Just(1.0), 2 => Just(10.0)]
}
fn l1_s() -> impl Strategy<Value = f64> {
    prop_oneof![1 => Just(0.0), 2 => Just(0.3), 2 => Just(0.5), 3 => Just(1.0)]
}

pub fn enet_strategy(flavor: Flavor, max_iter: u32) -> impl Strategy<Value = EnetCase> {
    let tol = if flavor == Flavor::F32 {
        prop_oneof![Just(1e-3), Just(1e-4)].boxed()
    } else {
        prop_oneof![Just(1e-4), Just(1e-8), Just(1e-12)].boxed()
    };
    (raw(flavor), penalty_s(), l1_s(), any::<bool>(), tol, any::<u64>(), any::<bool>(), 0u8..4, any::<bool>(), (layout_s(), layout_s())).prop_map(
        move |(r, penalty, l1_ratio, intercept, tol, pert_seed, multi32, ctor, leave_defaults, (x_layout, y_layout))| {
            let ridge_part = penalty * (1.0 - l1_ratio) > 0.0;
            let (x, y) = build(&r, flavor, ridge_part, true);
            EnetCase {
                x,
                y,
                multi: flavor == Flavor::Multi || (flavor == Flavor::F32 && multi32),
                f32: flavor == Flavor::F32,
                penalty,
                l1_ratio,
                intercept,
                tol,
                ctor,
                leave_defaults,
                x_layout,
                y_layout,
                max_iter,
                pert_seed,
            }
        },
    )
}

pub fn ols_strategy() -> impl Strategy<Value = OlsCase> {
    (prop::bool::weighted(0.25), any::<bool>(), any::<u64>(), 0u8..2, any::<bool>(), layout_s(), layout_s())
        .prop_flat_map(|(f32, intercept, pert_seed, ctor, leave_defaults, x_layout, y_layout)| {
            let flavor = if f32 { Flavor::F32 } else { Flavor::Ols };
            raw(flavor).prop_map(move |r| {
                let (x, y) = build(&r, flavor, false, false);
                OlsCase { x, y: y.iter().map(|row| row[0]).collect(), intercept, ctor, leave_defaults, x_layout, y_layout, f32, pert_seed }
            })
        })
}
