//! The calls into linfa (linfa-linear OLS, linfa-elasticnet single- and multi-task), generic over
//! the element type. Inputs and outputs cross this boundary as plain `f64` matrices.

use crate::oracle::Mat;
use linfa::traits::{Fit, Predict};
use linfa::{DatasetBase, Float};
use linfa_elasticnet::{ElasticNet, ElasticNetParams, ElasticNetParamsBase, MultiTaskElasticNet, MultiTaskElasticNetParams};
use linfa_linear::LinearRegression;
use ndarray::{s, Array1, Array2, ArrayView1, ArrayView2, Axis, ShapeBuilder};

#[derive(Debug, Clone)]
pub struct EnetOut {
    /// coefficients, p x t
    pub w: Mat,
    /// intercepts, t
    pub b: Vec<f64>,
    pub gap: f64,
    pub n_steps: u32,
    /// predictions on the training records, n x t
    pub pred: Mat,
}

pub struct EnetCfg {
    pub multi: bool,
    pub penalty: f64,
    pub l1_ratio: f64,
    pub intercept: bool,
    pub tol: f64,
    pub max_iter: u32,
    /// construction path, see `EnetCase::ctor`
    pub ctor: u8,
    /// leave options that equal their documented default unset
    pub leave_defaults: bool,
}

/// Documented defaults (parameter table of `ElasticNetParams`).
pub const DEF_PENALTY: f64 = 1.0;
pub const DEF_L1_RATIO: f64 = 0.5;
pub const DEF_INTERCEPT: bool = true;
pub const DEF_TOL: f64 = 1e-4;

/// Applies the options; with `leave_defaults` an option equal to its documented default is not
/// touched, `l1_preset` says that the constructor (`lasso()` / `ridge()`) already fixed l1_ratio.
fn configure<F: Float, const M: bool>(mut p: ElasticNetParamsBase<F, M>, cfg: &EnetCfg, l1_preset: bool) -> ElasticNetParamsBase<F, M> {
    let leave = cfg.leave_defaults;
    if !(leave && cfg.penalty == DEF_PENALTY) {
        p = p.penalty(F::cast(cfg.penalty));
    }
    if !l1_preset && !(leave && cfg.l1_ratio == DEF_L1_RATIO) {
        p = p.l1_ratio(F::cast(cfg.l1_ratio));
    }
    if !(leave && cfg.intercept == DEF_INTERCEPT) {
        p = p.with_intercept(cfg.intercept);
    }
    if !(leave && cfg.tol == DEF_TOL) {
        p = p.tolerance(F::cast(cfg.tol));
    }
    p.max_iterations(cfg.max_iter)
}

fn f<F: Float>(v: F) -> f64 {
    v.to_f64().unwrap_or(f64::NAN)
}

/// Memory layouts in which a logical matrix / vector is handed to linfa. The logical content is
/// always the same; only the backing storage and the strides of the view differ.
///   0 row-major (standard layout)            1 column-major (Fortran layout, contiguous)
///   2 every second row of a 2r x c table     3 rows stored in reverse, axis 0 inverted (contiguous, negative stride)
///   4 columns stored in reverse, axis 1 inverted
///   5 transposed view of a feature-major (c x r) row-major table
/// One-dimensional targets know only standard (0, 1, 5), every second element (2) and reversed (3, 4).
pub const N_LAYOUTS: u8 = 6;

pub struct Laid2<F> {
    backing: Array2<F>,
    kind: u8,
}

impl<F: Float> Laid2<F> {
    pub fn new(m: &Mat, r: usize, c: usize, kind: u8) -> Self {
        let at = |i: usize, j: usize| F::cast(m[i][j]);
        let backing = match kind {
            1 => {
                let mut a = Array2::<F>::zeros((r, c).f());
                for i in 0..r {
                    for j in 0..c {
                        a[(i, j)] = at(i, j);
                    }
                }
                a
            }
            2 => Array2::from_shape_fn((2 * r, c), |(i, j)| if i % 2 == 0 { at(i / 2, j) } else { F::cast(977.0 + i as f64 - 3.5 * j as f64) }),
            3 => Array2::from_shape_fn((r, c), |(i, j)| at(r - 1 - i, j)),
            4 => Array2::from_shape_fn((r, c), |(i, j)| at(i, c - 1 - j)),
            5 => Array2::from_shape_fn((c, r), |(j, i)| at(i, j)),
            _ => Array2::from_shape_fn((r, c), |(i, j)| at(i, j)),
        };
        Laid2 { backing, kind }
    }
    pub fn view(&self) -> ArrayView2<'_, F> {
        match self.kind {
            2 => self.backing.slice(s![..;2, ..]),
            3 => {
                let mut v = self.backing.view();
                v.invert_axis(Axis(0));
                v
            }
            4 => {
                let mut v = self.backing.view();
                v.invert_axis(Axis(1));
                v
            }
            5 => self.backing.t(),
            _ => self.backing.view(),
        }
    }
}

pub struct Laid1<F> {
    backing: Array1<F>,
    kind: u8,
}

impl<F: Float> Laid1<F> {
    pub fn new(v: &[f64], kind: u8) -> Self {
        let r = v.len();
        let backing = match kind {
            2 => Array1::from_shape_fn(2 * r, |i| if i % 2 == 0 { F::cast(v[i / 2]) } else { F::cast(-613.0 + i as f64) }),
            3 | 4 => Array1::from_shape_fn(r, |i| F::cast(v[r - 1 - i])),
            _ => Array1::from_shape_fn(r, |i| F::cast(v[i])),
        };
        Laid1 { backing, kind }
    }
    pub fn view(&self) -> ArrayView1<'_, F> {
        match self.kind {
            2 => self.backing.slice(s![..;2]),
            3 | 4 => {
                let mut v = self.backing.view();
                v.invert_axis(Axis(0));
                v
            }
            _ => self.backing.view(),
        }
    }
}

pub fn fit_enet<F: Float>(x: &Mat, y: &Mat, n: usize, p: usize, t: usize, cfg: &EnetCfg, x_layout: u8, y_layout: u8) -> Result<EnetOut, String> {
    let xl: Laid2<F> = Laid2::new(x, n, p, x_layout);
    let xa = xl.view();
    if xa.dim() != (n, p) || (0..n).any(|i| (0..p).any(|j| f(xa[(i, j)]) != f(F::cast(x[i][j])))) {
        return Err("harness: laid-out records differ from the logical matrix".into());
    }
    if cfg.multi {
        let yl: Laid2<F> = Laid2::new(y, n, t, y_layout);
        let ya = yl.view();
        if ya.dim() != (n, t) || (0..n).any(|i| (0..t).any(|c| f(ya[(i, c)]) != f(F::cast(y[i][c])))) {
            return Err("harness: laid-out targets differ from the logical matrix".into());
        }
        let ds = DatasetBase::new(xa, ya);
        let (base, preset): (MultiTaskElasticNetParams<F>, bool) = match cfg.ctor {
            1 => (MultiTaskElasticNetParams::<F>::new(), false),
            2 => (MultiTaskElasticNetParams::<F>::default(), false),
            3 if cfg.l1_ratio == 1.0 => (MultiTaskElasticNet::<F>::lasso(), true),
            3 if cfg.l1_ratio == 0.0 => (MultiTaskElasticNet::<F>::ridge(), true),
            _ => (MultiTaskElasticNet::<F>::params(), false),
        };
        let m = configure(base, cfg, preset)
            .fit(&ds)
            .map_err(|e| e.to_string())?;
        let h = m.hyperplane();
        if h.nrows() != p || h.ncols() != t || m.intercept().len() != t {
            return Err(format!("hyperplane has shape {:?}, intercept length {}", h.dim(), m.intercept().len()));
        }
        let pred: Array2<F> = m.predict(&xa);
        if pred.nrows() != n || pred.ncols() != t {
            return Err(format!("predict returned shape {:?}", pred.dim()));
        }
        Ok(EnetOut {
            w: (0..p).map(|j| (0..t).map(|c| f(h[(j, c)])).collect()).collect(),
            b: m.intercept().iter().map(|v| f(*v)).collect(),
            gap: f(m.duality_gap()),
            n_steps: m.n_steps(),
            pred: (0..n).map(|i| (0..t).map(|c| f(pred[(i, c)])).collect()).collect(),
        })
    } else {
        let ycol: Vec<f64> = y.iter().map(|r| r[0]).collect();
        let yl: Laid1<F> = Laid1::new(&ycol, y_layout);
        let ya = yl.view();
        if ya.len() != n || (0..n).any(|i| f(ya[i]) != f(F::cast(ycol[i]))) {
            return Err("harness: laid-out targets differ from the logical vector".into());
        }
        let ds = DatasetBase::new(xa, ya);
        let (base, preset): (ElasticNetParams<F>, bool) = match cfg.ctor {
            1 => (ElasticNetParams::<F>::new(), false),
            2 => (ElasticNetParams::<F>::default(), false),
            3 if cfg.l1_ratio == 1.0 => (ElasticNet::<F>::lasso(), true),
            3 if cfg.l1_ratio == 0.0 => (ElasticNet::<F>::ridge(), true),
            _ => (ElasticNet::<F>::params(), false),
        };
        let m = configure(base, cfg, preset)
            .fit(&ds)
            .map_err(|e| e.to_string())?;
        let h = m.hyperplane();
        if h.len() != p {
            return Err(format!("hyperplane has length {}", h.len()));
        }
        let pred: Array1<F> = m.predict(&xa);
        if pred.len() != n {
            return Err(format!("predict returned length {}", pred.len()));
        }
        Ok(EnetOut {
            w: (0..p).map(|j| vec![f(h[j])]).collect(),
            b: vec![f(m.intercept())],
            gap: f(m.duality_gap()),
            n_steps: m.n_steps(),
            pred: (0..n).map(|i| vec![f(pred[i])]).collect(),
        })
    }
}

#[derive(Debug, Clone)]
pub struct OlsOut {
    pub w: Vec<f64>,
    pub b: f64,
    pub pred: Vec<f64>,
}

/// `ctor`: 0 = `LinearRegression::new()`, 1 = `LinearRegression::default()`; with `leave_defaults` the
/// intercept option is not touched when it equals its documented default (intercept fitted).
#[allow(clippy::too_many_arguments)]
pub fn fit_ols<F: Float>(x: &Mat, y: &[f64], n: usize, p: usize, intercept: bool, ctor: u8, leave_defaults: bool, x_layout: u8, y_layout: u8) -> Result<OlsOut, String> {
    let xl: Laid2<F> = Laid2::new(x, n, p, x_layout);
    let xa = xl.view();
    let yl: Laid1<F> = Laid1::new(y, y_layout);
    let ya = yl.view();
    if xa.dim() != (n, p) || ya.len() != n || (0..n).any(|i| f(ya[i]) != f(F::cast(y[i])) || (0..p).any(|j| f(xa[(i, j)]) != f(F::cast(x[i][j])))) {
        return Err("harness: laid-out data differ from the logical data".into());
    }
    let ds = DatasetBase::new(xa, ya);
    let mut lr = if ctor == 1 { LinearRegression::default() } else { LinearRegression::new() };
    if !(leave_defaults && intercept) {
        lr = lr.with_intercept(intercept);
    }
    let m = lr
        .fit(&ds)
        .map_err(|e| e.to_string())?;
    if m.params().len() != p {
        return Err(format!("params has length {}", m.params().len()));
    }
    let pred: Array1<F> = m.predict(&xa);
    if pred.len() != n {
        return Err(format!("predict returned length {}", pred.len()));
    }
    Ok(OlsOut {
        w: m.params().iter().map(|v| f(*v)).collect(),
        b: f(m.intercept()),
        pred: pred.iter().map(|v| f(*v)).collect(),
    })
}
