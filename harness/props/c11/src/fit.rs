//! The calls into linfa (linfa-linear OLS, linfa-elasticnet single- and multi-task), generic over
//! the element type. Inputs and outputs cross this boundary as plain `f64` matrices.

use crate::oracle::Mat;
use linfa::traits::{Fit, Predict};
use linfa::{Dataset, Float};
use linfa_elasticnet::{ElasticNet, ElasticNetParams, ElasticNetParamsBase, MultiTaskElasticNet, MultiTaskElasticNetParams};
use linfa_linear::LinearRegression;
use ndarray::{Array1, Array2};

#[derive(Debug, Clone)]
pub struct EnetOut {
    /// coefficients, p x t
    pub w: Mat,
    /// intercepts, t
    pub b: Vec<f64>,
    pub gap: f64,
    pub n_steps: u32,
    /// predictions on the training records, n x t
    pub pred: Mat,
}

pub struct EnetCfg {
    pub multi: bool,
    pub penalty: f64,
    pub l1_ratio: f64,
    pub intercept: bool,
    pub tol: f64,
    pub max_iter: u32,
    /// construction path, see `EnetCase::ctor`
    pub ctor: u8,
    /// leave options that equal their documented default unset
    pub leave_defaults: bool,
}

/// Documented defaults (parameter table of `ElasticNetParams`).
pub const DEF_PENALTY: f64 = 1.0;
pub const DEF_L1_RATIO: f64 = 0.5;
pub const DEF_INTERCEPT: bool = true;
pub const DEF_TOL: f64 = 1e-4;

/// Applies the options; with `leave_defaults` an option equal to its documented default is not
/// touched, `l1_preset` says that the constructor (`lasso()` / `ridge()`) already fixed l1_ratio.
fn configure<F: Float, const M: bool>(mut p: ElasticNetParamsBase<F, M>, cfg: &EnetCfg, l1_preset: bool) -> ElasticNetParamsBase<F, M> {
    let leave = cfg.leave_defaults;
    if !(leave && cfg.penalty == DEF_PENALTY) {
        p = p.penalty(F::cast(cfg.penalty));
    }
    if !l1_preset && !(leave && cfg.l1_ratio == DEF_L1_RATIO) {
        p = p.l1_ratio(F::cast(cfg.l1_ratio));
    }
    if !(leave && cfg.intercept == DEF_INTERCEPT) {
        p = p.with_intercept(cfg.intercept);
    }
    if !(leave && cfg.tol == DEF_TOL) {
        p = p.tolerance(F::cast(cfg.tol));
    }
    p.max_iterations(cfg.max_iter)
}

fn f<F: Float>(v: F) -> f64 {
    v.to_f64().unwrap_or(f64::NAN)
}

fn arr2<F: Float>(m: &Mat, r: usize, c: usize) -> Array2<F> {
    Array2::from_shape_fn((r, c), |(i, j)| F::cast(m[i][j]))
}

pub fn fit_enet<F: Float>(x: &Mat, y: &Mat, n: usize, p: usize, t: usize, cfg: &EnetCfg) -> Result<EnetOut, String> {
    let xa: Array2<F> = arr2(x, n, p);
    if cfg.multi {
        let ya: Array2<F> = arr2(y, n, t);
        let ds = Dataset::new(xa.clone(), ya);
        let (base, preset): (MultiTaskElasticNetParams<F>, bool) = match cfg.ctor {
            1 => (MultiTaskElasticNetParams::<F>::new(), false),
            2 => (MultiTaskElasticNetParams::<F>::default(), false),
            3 if cfg.l1_ratio == 1.0 => (MultiTaskElasticNet::<F>::lasso(), true),
            3 if cfg.l1_ratio == 0.0 => (MultiTaskElasticNet::<F>::ridge(), true),
            _ => (MultiTaskElasticNet::<F>::params(), false),
        };
        let m = configure(base, cfg, preset)
            .fit(&ds)
            .map_err(|e| e.to_string())?;
        let h = m.hyperplane();
        if h.nrows() != p || h.ncols() != t || m.intercept().len() != t {
            return Err(format!("hyperplane has shape {:?}, intercept length {}", h.dim(), m.intercept().len()));
        }
        let pred: Array2<F> = m.predict(&xa);
        if pred.nrows() != n || pred.ncols() != t {
            return Err(format!("predict returned shape {:?}", pred.dim()));
        }
        Ok(EnetOut {
            w: (0..p).map(|j| (0..t).map(|c| f(h[(j, c)])).collect()).collect(),
            b: m.intercept().iter().map(|v| f(*v)).collect(),
            gap: f(m.duality_gap()),
            n_steps: m.n_steps(),
            pred: (0..n).map(|i| (0..t).map(|c| f(pred[(i, c)])).collect()).collect(),
        })
    } else {
        let ya: Array1<F> = Array1::from_shape_fn(n, |i| F::cast(y[i][0]));
        let ds = Dataset::new(xa.clone(), ya);
        let (base, preset): (ElasticNetParams<F>, bool) = match cfg.ctor {
            1 => (ElasticNetParams::<F>::new(), false),
            2 => (ElasticNetParams::<F>::default(), false),
            3 if cfg.l1_ratio == 1.0 => (ElasticNet::<F>::lasso(), true),
            3 if cfg.l1_ratio == 0.0 => (ElasticNet::<F>::ridge(), true),
            _ => (ElasticNet::<F>::params(), false),
        };
        let m = configure(base, cfg, preset)
            .fit(&ds)
            .map_err(|e| e.to_string())?;
        let h = m.hyperplane();
        if h.len() != p {
            return Err(format!("hyperplane has length {}", h.len()));
        }
        let pred: Array1<F> = m.predict(&xa);
        if pred.len() != n {
            return Err(format!("predict returned length {}", pred.len()));
        }
        Ok(EnetOut {
            w: (0..p).map(|j| vec![f(h[j])]).collect(),
            b: vec![f(m.intercept())],
            gap: f(m.duality_gap()),
            n_steps: m.n_steps(),
            pred: (0..n).map(|i| vec![f(pred[i])]).collect(),
        })
    }
}

#[derive(Debug, Clone)]
pub struct OlsOut {
    pub w: Vec<f64>,
    pub b: f64,
    pub pred: Vec<f64>,
}

/// `ctor`: 0 = `LinearRegression::new()`, 1 = `LinearRegression::default()`; with `leave_defaults` the
/// intercept option is not touched when it equals its documented default (intercept fitted).
pub fn fit_ols<F: Float>(x: &Mat, y: &[f64], n: usize, p: usize, intercept: bool, ctor: u8, leave_defaults: bool) -> Result<OlsOut, String> {
    let xa: Array2<F> = arr2(x, n, p);
    let ya: Array1<F> = Array1::from_shape_fn(n, |i| F::cast(y[i]));
    let ds = Dataset::new(xa.clone(), ya);
    let mut lr = if ctor == 1 { LinearRegression::default() } else { LinearRegression::new() };
    if !(leave_defaults && intercept) {
        lr = lr.with_intercept(intercept);
    }
    let m = lr
        .fit(&ds)
        .map_err(|e| e.to_string())?;
    if m.params().len() != p {
        return Err(format!("params has length {}", m.params().len()));
    }
    let pred: Array1<F> = m.predict(&xa);
    if pred.len() != n {
        return Err(format!("predict returned length {}", pred.len()));
    }
    Ok(OlsOut {
        w: m.params().iter().map(|v| f(*v)).collect(),
        b: f(m.intercept()),
        pred: pred.iter().map(|v| f(*v)).collect(),
    })
}
