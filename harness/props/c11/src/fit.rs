//! The calls into linfa (linfa-linear OLS, linfa-elasticnet single- and multi-task), generic over
//! the element type. Inputs and outputs cross this boundary as plain `f64` matrices.

use crate::oracle::Mat;
use linfa::traits::{Fit, Predict};
use linfa::{Dataset, Float};
use linfa_elasticnet::{ElasticNet, MultiTaskElasticNet};
use linfa_linear::LinearRegression;
use ndarray::{Array1, Array2};

#[derive(Debug, Clone)]
pub struct EnetOut {
    /// coefficients, p x t
    pub w: Mat,
    /// intercepts, t
    pub b: Vec<f64>,
    pub gap: f64,
    pub n_steps: u32,
    /// predictions on the training records, n x t
    pub pred: Mat,
}

pub struct EnetCfg {
    pub multi: bool,
    pub penalty: f64,
    pub l1_ratio: f64,
    pub intercept: bool,
    pub tol: f64,
    pub max_iter: u32,
}

fn f<F: Float>(v: F) -> f64 {
    v.to_f64().unwrap_or(f64::NAN)
}

fn arr2<F: Float>(m: &Mat, r: usize, c: usize) -> Array2<F> {
    Array2::from_shape_fn((r, c), |(i, j)| F::cast(m[i][j]))
}

pub fn fit_enet<F: Float>(x: &Mat, y: &Mat, n: usize, p: usize, t: usize, cfg: &EnetCfg) -> Result<EnetOut, String> {
    let xa: Array2<F> = arr2(x, n, p);
    if cfg.multi {
        let ya: Array2<F> = arr2(y, n, t);
        let ds = Dataset::new(xa.clone(), ya);
        let m = MultiTaskElasticNet::<F>::params()
            .penalty(F::cast(cfg.penalty))
            .l1_ratio(F::cast(cfg.l1_ratio))
            .with_intercept(cfg.intercept)
            .tolerance(F::cast(cfg.tol))
            .max_iterations(cfg.max_iter)
            .fit(&ds)
            .map_err(|e| e.to_string())?;
        let h = m.hyperplane();
        if h.nrows() != p || h.ncols() != t || m.intercept().len() != t {
            return Err(format!("hyperplane has shape {:?}, intercept length {}", h.dim(), m.intercept().len()));
        }
        let pred: Array2<F> = m.predict(&xa);
        if pred.nrows() != n || pred.ncols() != t {
            return Err(format!("predict returned shape {:?}", pred.dim()));
        }
        Ok(EnetOut {
            w: (0..p).map(|j| (0..t).map(|c| f(h[(j, c)])).collect()).collect(),
            b: m.intercept().iter().map(|v| f(*v)).collect(),
            gap: f(m.duality_gap()),
            n_steps: m.n_steps(),
            pred: (0..n).map(|i| (0..t).map(|c| f(pred[(i, c)])).collect()).collect(),
        })
    } else {
        let ya: Array1<F> = Array1::from_shape_fn(n, |i| F::cast(y[i][0]));
        let ds = Dataset::new(xa.clone(), ya);
        let m = ElasticNet::<F>::params()
            .penalty(F::cast(cfg.penalty))
            .l1_ratio(F::cast(cfg.l1_ratio))
            .with_intercept(cfg.intercept)
            .tolerance(F::cast(cfg.tol))
            .max_iterations(cfg.max_iter)
            .fit(&ds)
            .map_err(|e| e.to_string())?;
        let h = m.hyperplane();
        if h.len() != p {
            return Err(format!("hyperplane has length {}", h.len()));
        }
        let pred: Array1<F> = m.predict(&xa);
        if pred.len() != n {
            return Err(format!("predict returned length {}", pred.len()));
        }
        Ok(EnetOut {
            w: (0..p).map(|j| vec![f(h[j])]).collect(),
            b: vec![f(m.intercept())],
            gap: f(m.duality_gap()),
            n_steps: m.n_steps(),
            pred: (0..n).map(|i| vec![f(pred[i])]).collect(),
        })
    }
}

#[derive(Debug, Clone)]
pub struct OlsOut {
    pub w: Vec<f64>,
    pub b: f64,
    pub pred: Vec<f64>,
}

pub fn fit_ols<F: Float>(x: &Mat, y: &[f64], n: usize, p: usize, intercept: bool) -> Result<OlsOut, String> {
    let xa: Array2<F> = arr2(x, n, p);
    let ya: Array1<F> = Array1::from_shape_fn(n, |i| F::cast(y[i]));
    let ds = Dataset::new(xa.clone(), ya);
    let m = LinearRegression::new()
        .with_intercept(intercept)
        .fit(&ds)
        .map_err(|e| e.to_string())?;
    if m.params().len() != p {
        return Err(format!("params has length {}", m.params().len()));
    }
    let pred: Array1<F> = m.predict(&xa);
    if pred.len() != n {
        return Err(format!("predict returned length {}", pred.len()));
    }
    Ok(OlsOut {
        w: m.params().iter().map(|v| f(*v)).collect(),
        b: f(m.intercept()),
        pred: pred.iter().map(|v| f(*v)).collect(),
    })
}
