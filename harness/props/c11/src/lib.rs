//! C11 — stub (to be written; see /verif/harness/AUTHORING.md and DESIGN.md §3 C11)
use vengine::Property;

pub fn property() -> Property {
    Property { id: "C11", rule: "", assumptions: vec![], subs: vec![] }
}
