//! C11 — least-squares estimators return a minimiser of their documented objective.
//!
//! * `LinearRegression` (linfa-linear): residual orthogonal to every feature column and to the
//!   constant column, no perturbation lowers the SSE, coefficients agree with an independent solve.
//! * `ElasticNet` / `MultiTaskElasticNet` (linfa-elasticnet): the returned point is judged against
//!   the documented objective itself (evaluated by the harness' own code): no candidate — exact
//!   one-dimensional (block) minimisers, the exact intercept minimiser, random perturbations, an
//!   independently computed reference solution — lowers it by more than the reported duality gap;
//!   the gap is non-negative and below `tolerance * ||y_c||^2`; rows under the l1 threshold are
//!   exactly zero (with a margin derived rigorously from the last sweep's coefficient changes).
//!
//! See `oracle.rs` for the objective and the reference code, `cases.rs` for the generators.

pub mod cases;
pub mod fit;
pub mod oracle;

use cases::{enet_strategy, ols_strategy, EnetCase, Flavor, OlsCase};
use fit::{fit_enet, fit_ols, EnetCfg, EnetOut};
use oracle::*;
use vengine::gen::SplitMix;
use vengine::{prop_sub, Obs, Property, Tier};

// ------------------------------------------------------------------------------------------------
// named tolerances (all of them are repeated in `assumptions`)

/// iteration budget for fits whose stopping rule can fire (l1 part > 0): the case's `max_iter`
/// (10 000 in the quick tier, 100 000 in the thorough tier)
const MAX_ITER_QUICK: u32 = 10_000;
const MAX_ITER_THOROUGH: u32 = 100_000;
/// budgets of the two fits used to establish stationarity when the l1 part is zero: RIDGE_ITER and twice that
const RIDGE_ITER: u32 = 5_000;
/// budget of the f32 fits
const F32_ITER: u32 = 5_000;
/// float slack of objective comparisons, relative to `objective_scale`
const SLACK_F64: f64 = 1e-10;
const SLACK_F32: f64 = 1e-4;
/// drift allowance of linfa's incrementally updated residual in the exact-zero rule (relative)
const DRIFT_F64: f64 = 1e-10;
/// a column counts as centred when |sum_i x_ij| <= max(CENTRED, 16 eps) * sqrt(n) * ||x_j||
const CENTRED: f64 = 1e-9;
/// two-budget stationarity: scaled coefficient change allowed between the two fits
const STATIONARY: f64 = 1e-12;
/// OLS orthogonality: |x_j^T r| <= ORTH_EPS * eps * ||x_j|| * M
const ORTH_EPS: f64 = 1000.0;
/// OLS agreement with the reference solve: AGREE_EPS * eps * cond * M
const AGREE_EPS: f64 = 500.0;
/// designs whose equilibrated Gram condition number exceeds this are not judged (OLS)
const COND_MAX: f64 = 1e7;
/// number of random perturbations per fit
const N_PERT: usize = 200;

const KNOWN_NAN_SIG: &str = "enet:non-finite-output:multitask:l1-threshold-0:nan-hyperplane";
const KNOWN_INTERCEPT_SIG: &str = "enet:intercept-not-jointly-optimal:nonzero-column-means:intercept=mean(y)";

fn eps_of(f32_: bool) -> f64 {
    if f32_ {
        f32::EPSILON as f64
    } else {
        f64::EPSILON
    }
}

// ------------------------------------------------------------------------------------------------
// measured description of a design matrix

struct XInfo {
    norms: Vec<f64>,
    means: Vec<f64>,
    any_uncentred: bool,
}

fn describe_x(x: &Mat, n: usize, p: usize, eps: f64, obs: &mut Obs) -> XInfo {
    let norms = col_norms(x, p);
    let means = col_means(x, p);
    let sq = (n as f64).sqrt();
    let centred: Vec<bool> = (0..p).map(|j| (means[j] * n as f64).abs() <= CENTRED.max(16.0 * eps) * sq * norms[j]).collect();
    let any_uncentred = centred.iter().any(|c| !c);
    obs.class_if(!any_uncentred, "x_all_columns_centred");
    obs.class_if(any_uncentred, "x_some_column_uncentred");
    let mut big = false;
    let mut constant = false;
    let mut zero = false;
    for j in 0..p {
        if norms[j] == 0.0 {
            zero = true;
            continue;
        }
        let cosine = (means[j] * sq).abs() / norms[j];
        if x.iter().all(|r| r[j] == x[0][j]) {
            constant = true;
        } else if cosine > 0.99 {
            big = true;
        }
    }
    obs.class_if(big, "x_column_offset_100_scales");
    obs.class_if(constant, "x_constant_nonzero_column");
    obs.class_if(zero, "x_zero_column");
    let nz: Vec<f64> = norms.iter().cloned().filter(|v| *v > 0.0).collect();
    if let (Some(mx), Some(mn)) = (
        nz.iter().cloned().reduce(f64::max),
        nz.iter().cloned().reduce(f64::min),
    ) {
        obs.class_if(mx / mn >= 1e3, "x_badly_scaled_columns_ratio_ge_1e3");
        obs.class_if(mx / mn >= 1e5, "x_badly_scaled_columns_ratio_ge_1e5");
    }
    // near-collinear pair (centred cosine)
    let mut coll = false;
    for a in 0..p {
        for b in a + 1..p {
            let (mut sab, mut saa, mut sbb) = (0.0, 0.0, 0.0);
            for r in x.iter() {
                let (u, v) = (r[a] - means[a], r[b] - means[b]);
                sab += u * v;
                saa += u * u;
                sbb += v * v;
            }
            if saa > 0.0 && sbb > 0.0 && sab.abs() / (saa * sbb).sqrt() > 0.95 {
                coll = true;
            }
        }
    }
    obs.class_if(coll, "x_near_collinear_pair");
    obs.class_if(
        x.iter().all(|r| r.iter().all(|v| v.fract() == 0.0 && v.abs() <= 4.0)),
        "x_small_integer_lattice",
    );
    XInfo { norms, means, any_uncentred }
}

// ------------------------------------------------------------------------------------------------
// elastic net

fn enet_cfg(c: &EnetCase, tol: f64, max_iter: u32) -> EnetCfg {
    EnetCfg { multi: c.multi, penalty: c.penalty, l1_ratio: c.l1_ratio, intercept: c.intercept, tol, max_iter, ctor: c.ctor, leave_defaults: c.leave_defaults }
}

fn run_enet(c: &EnetCase, n: usize, p: usize, t: usize, tol: f64, max_iter: u32) -> Result<EnetOut, String> {
    run_enet_layout(c, n, p, t, tol, max_iter, c.x_layout, c.y_layout)
}

#[allow(clippy::too_many_arguments)]
fn run_enet_layout(c: &EnetCase, n: usize, p: usize, t: usize, tol: f64, max_iter: u32, xl: u8, yl: u8) -> Result<EnetOut, String> {
    let cfg = enet_cfg(c, tol, max_iter);
    if c.f32 {
        fit_enet::<f32>(&c.x, &c.y, n, p, t, &cfg, xl, yl)
    } else {
        fit_enet::<f64>(&c.x, &c.y, n, p, t, &cfg, xl, yl)
    }
}

fn layout_classes(xl: u8, yl: u8, targets_2d: bool, obs: &mut Obs) {
    obs.class(match xl {
        1 => "x_layout_column_major",
        2 => "x_layout_every_second_row_view",
        3 => "x_layout_rows_reversed",
        4 => "x_layout_columns_reversed",
        5 => "x_layout_transposed_feature_major_view",
        _ => "x_layout_row_major",
    });
    if targets_2d {
        obs.class(match yl {
            1 => "y_layout_column_major",
            2 => "y_layout_every_second_row_view",
            3 => "y_layout_rows_reversed",
            4 => "y_layout_columns_reversed",
            5 => "y_layout_transposed_view",
            _ => "y_layout_row_major",
        });
    } else {
        obs.class(match yl {
            2 => "y_layout_every_second_element_view",
            3 | 4 => "y_layout_reversed",
            _ => "y_layout_standard",
        });
    }
}

fn out_finite(o: &EnetOut) -> bool {
    all_finite(&o.w) && o.b.iter().all(|v| v.is_finite()) && o.gap.is_finite() && all_finite(&o.pred)
}

/// largest scaled difference between two coefficient matrices (rows scaled by the column norm)
fn scaled_diff(a: &Mat, b: &Mat, norms: &[f64]) -> (f64, f64) {
    let mut d: f64 = 0.0;
    let mut m: f64 = 0.0;
    for j in 0..a.len() {
        let mut dj = 0.0;
        for c in 0..a[j].len() {
            let e = a[j][c] - b[j][c];
            dj += e * e;
        }
        d = d.max(dj.sqrt() * norms[j]);
        m = m.max(row_norm(&a[j]) * norms[j]);
    }
    (d, m)
}

struct Judge<'a> {
    pr: &'a Prob<'a>,
    p0: f64,
    s0: f64,
    /// what the candidate may gain: max(reported gap, 0), or 0 when stationarity was established
    allowance: f64,
    slack_rel: f64,
}

impl<'a> Judge<'a> {
    /// true when the candidate does NOT lower the objective by more than allowed
    fn ok(&self, w2: &Mat, b2: &[f64]) -> (bool, f64) {
        let p1 = objective(self.pr, w2, b2);
        let gain = self.p0 - p1;
        if !(gain > self.allowance + self.slack_rel * self.s0) {
            return (true, gain);
        }
        let s1 = objective_scale(self.pr, w2, b2);
        (!(gain > self.allowance + self.slack_rel * self.s0.max(s1)), gain)
    }
}

fn check_enet(c: &EnetCase, obs: &mut Obs) {
    let n = c.x.len();
    let p = c.x.first().map_or(0, |r| r.len());
    let t = c.y.first().map_or(0, |r| r.len());
    if n < 3
        || p == 0
        || t == 0
        || n <= p
        || !shape_ok(&c.x, n, p)
        || !shape_ok(&c.y, n, t)
        || (!c.multi && t != 1)
        || !all_finite(&c.x)
        || !all_finite(&c.y)
        || !(c.penalty >= 0.0)
        || !(0.0..=1.0).contains(&c.l1_ratio)
        || !(c.tol >= 0.0)
    {
        obs.skip("malformed_case");
        return;
    }
    let nf = n as f64;
    let xi = describe_x(&c.x, n, p, eps_of(c.f32), obs);
    obs.class_if(c.multi, "estimator_multitask");
    obs.class_if(!c.multi, "estimator_single_task");
    obs.class_if(t == 1, "targets_1");
    obs.class_if(t == 2, "targets_2");
    obs.class_if(t == 3, "targets_3");
    obs.class_if(c.f32, "f32");
    obs.class_if(c.intercept, "intercept_on");
    obs.class_if(!c.intercept, "intercept_off");
    layout_classes(c.x_layout, c.y_layout, c.multi, obs);
    {
        let preset = c.ctor == 3 && (c.l1_ratio == 0.0 || c.l1_ratio == 1.0);
        obs.class_if(c.ctor == 1, "ctor_params_new");
        obs.class_if(c.ctor == 2, "ctor_params_default");
        obs.class_if(preset, "ctor_preset_lasso_or_ridge");
        obs.class_if(c.ctor != 1 && c.ctor != 2 && !preset, "ctor_estimator_params");
        obs.class_if(c.leave_defaults && c.intercept == fit::DEF_INTERCEPT, "intercept_left_at_documented_default");
        obs.class_if(c.leave_defaults && c.penalty == fit::DEF_PENALTY, "penalty_left_at_documented_default");
        obs.class_if(c.leave_defaults && c.l1_ratio == fit::DEF_L1_RATIO, "l1_ratio_left_at_documented_default");
        obs.class_if(c.leave_defaults && c.tol == fit::DEF_TOL, "tolerance_left_at_documented_default");
        obs.class_if(!c.leave_defaults, "all_options_set_explicitly");
    }
    obs.class_if(c.penalty == 0.0, "penalty_0");
    obs.class_if(c.penalty > 0.0 && c.penalty < 0.05, "penalty_1e-3");
    obs.class_if(c.penalty >= 0.05 && c.penalty < 5.0, "penalty_0.1_or_1");
    obs.class_if(c.penalty >= 5.0, "penalty_10");
    obs.class_if(c.l1_ratio == 0.0, "l1_ratio_0_ridge");
    obs.class_if(c.l1_ratio == 1.0, "l1_ratio_1_lasso");
    obs.class_if(c.l1_ratio > 0.0 && c.l1_ratio < 1.0, "l1_ratio_mixed");
    obs.class_if(c.tol <= 1e-11, "tol_1e-12");
    obs.class_if(c.tol > 1e-11 && c.tol <= 1e-7, "tol_1e-8");
    obs.class_if(c.tol > 1e-7, "tol_ge_1e-4");

    {
        let mut any = false;
        for j in 0..p {
            if xi.norms[j] > 0.0 {
                any |= (0..t).all(|cc| {
                    let m = if c.intercept { c.y.iter().map(|row| row[cc]).sum::<f64>() / nf } else { 0.0 };
                    (0..n).map(|i| c.x[i][j] * (c.y[i][cc] - m)).sum::<f64>() == 0.0
                });
            }
        }
        obs.class_if(any, "x_feature_exactly_orthogonal_to_targets");
    }

    let alpha = nf * c.penalty * c.l1_ratio;
    let beta = nf * c.penalty * (1.0 - c.l1_ratio);
    let pr = Prob { x: &c.x, y: &c.y, n, p, t, alpha, beta };
    let slack_rel = if c.f32 { SLACK_F32 } else { SLACK_F64 };
    let eps = eps_of(c.f32);
    let l1_part = alpha > 0.0;
    let budget = if c.f32 {
        F32_ITER
    } else if l1_part {
        c.max_iter.clamp(10, MAX_ITER_THOROUGH)
    } else {
        RIDGE_ITER
    };

    // ---- the fit
    let out = match obs.call("elasticnet.fit", || run_enet(c, n, p, t, c.tol, budget)) {
        None => return,
        Some(Err(e)) => {
            obs.fail("enet:fit-error", format!("fit returned an error on a valid regression problem: {e}"));
            return;
        }
        Some(Ok(o)) => o,
    };
    if !shape_ok(&out.w, p, t) || out.b.len() != t || !shape_ok(&out.pred, n, t) {
        obs.fail("enet:output-shape", "hyperplane / intercept / prediction have the wrong shape".to_string());
        return;
    }
    if !out_finite(&out) {
        // recognised defect: the multi-task block soft threshold with l1 threshold exactly 0 divides
        // 0/0 as soon as some feature is exactly orthogonal to the partial residual (first sweep:
        // feature uncorrelated with the targets; later sweeps: residual fitted exactly). Its
        // necessary condition (multi-task, threshold 0) plus its symptom (NaN coefficients) select
        // the known signature; non-finite output in any other configuration keeps the plain one.
        let known_nan = c.multi && alpha == 0.0 && out.w.iter().any(|r| r.iter().any(|v| v.is_nan()));
        let mut orth = None;
        if known_nan {
            let ybar: Vec<f64> = (0..t)
                .map(|cc| if c.intercept { c.y.iter().map(|row| row[cc]).sum::<f64>() / nf } else { 0.0 })
                .collect();
            for j in 0..p {
                if xi.norms[j] > 0.0 {
                    let mut all = true;
                    for cc in 0..t {
                        let d: f64 = (0..n).map(|i| c.x[i][j] * (c.y[i][cc] - ybar[cc])).sum();
                        let yn = (0..n).map(|i| (c.y[i][cc] - ybar[cc]).powi(2)).sum::<f64>().sqrt();
                        all &= d.abs() <= 1e-13 * xi.norms[j] * yn;
                    }
                    if all {
                        orth = Some(j);
                        break;
                    }
                }
            }
        }
        let sig = if known_nan { KNOWN_NAN_SIG } else { "enet:non-finite-output" };
        obs.class_if(known_nan, "nan_multitask_l1_threshold_0");
        obs.fail(
            sig,
            format!(
                "non-finite model: hyperplane {:?}, intercept {:?}, gap {}, n_steps {} (first feature orthogonal to the centred targets: {:?}, l1 threshold {alpha})",
                out.w, out.b, out.gap, out.n_steps, orth
            ),
        );
        return;
    }
    let (w, b) = (&out.w, &out.b[..]);

    // ---- predict = X w + b
    for i in 0..n {
        for cc in 0..t {
            let mut s = b[cc];
            let mut m = b[cc].abs();
            for j in 0..p {
                s += c.x[i][j] * w[j][cc];
                m += (c.x[i][j] * w[j][cc]).abs();
            }
            if !obs.ensure((out.pred[i][cc] - s).abs() <= 64.0 * eps * m + 1e-300, "enet:predict-not-xw-plus-b", || {
                format!("row {i} target {cc}: predict gives {}, X w + b = {}", out.pred[i][cc], s)
            }) {
                break;
            }
        }
    }
    if !c.intercept {
        obs.ensure(b.iter().all(|v| *v == 0.0), "enet:intercept-nonzero-when-disabled", || {
            format!("with_intercept(false) but intercept = {:?}", b)
        });
    }

    // ---- what kind of point is it?
    let zero_rows = w.iter().filter(|r| r.iter().all(|v| *v == 0.0)).count();
    obs.class_if(zero_rows == p, "solution_all_zero");
    obs.class_if(zero_rows > 0 && zero_rows < p, "solution_zero_and_nonzero_rows");
    obs.class_if(zero_rows == 0, "solution_dense");
    let uncentred_with_intercept = c.intercept && xi.any_uncentred;
    obs.class_if(uncentred_with_intercept, "uncentred_x_with_intercept");
    obs.nontrivial_if(uncentred_with_intercept || (zero_rows > 0 && zero_rows < p) || (c.multi && t >= 2));

    // ---- has the iteration converged?
    let reported = out.n_steps < budget;
    let mut allowance = out.gap.max(0.0);
    let p0 = objective(&pr, w, b);
    let s0 = objective_scale(&pr, w, b);
    let yc2: f64 = {
        let mut s = 0.0;
        for i in 0..n {
            for cc in 0..t {
                let v = c.y[i][cc] - b[cc];
                s += v * v;
            }
        }
        s
    };

    // the reported gap is a non-negative upper bound whatever the state of the iteration
    obs.ensure(out.gap >= -slack_rel * s0, "enet:gap-negative", || {
        format!("reported duality gap {} is negative beyond rounding (objective scale {})", out.gap, s0)
    });

    if reported {
        obs.class("converged_reported_by_solver");
        let factor = if c.f32 { 1.0 + 1e-4 } else { 1.0 + 1e-9 };
        obs.ensure(out.gap <= c.tol * yc2 * factor + 1e-300, "enet:gap-above-tolerance", || {
            format!(
                "solver stopped after {} < {} sweeps with gap {} but tolerance * ||y - b||^2 = {}",
                out.n_steps,
                budget,
                out.gap,
                c.tol * yc2
            )
        });
    } else if !l1_part && !c.f32 {
        // l1 part zero: linfa's gap degenerates to the primal value, the stopping rule cannot fire.
        // Convergence of the iteration is established by comparing two budgets instead.
        let out2 = match obs.call("elasticnet.fit", || run_enet(c, n, p, t, c.tol, 2 * budget)) {
            Some(Ok(o)) if shape_ok(&o.w, p, t) && o.b.len() == t && out_finite(&o) => o,
            _ => {
                obs.fail("enet:refit-differs", "second fit with a doubled budget failed".to_string());
                return;
            }
        };
        let (d, m) = scaled_diff(w, &out2.w, &xi.norms);
        if d <= STATIONARY * m {
            obs.class("converged_two_budget_stationary");
            allowance = 0.0;
        } else {
            obs.skip("not_converged_ridge_not_stationary");
            return;
        }
    } else {
        // l1 part > 0 and the budget ran out. If the harness' own plain coordinate descent reaches a
        // gap a thousand times below the requested one in <= 2000 sweeps, the budget of >= 10 000 was
        // large enough and the solver had to stop.
        if !c.f32 && c.tol >= 1e-8 && yc2 > 0.0 {
            let (wr, sweeps, _) = ref_cd(&pr, b, 2000);
            let g = dual_gap(&pr, &wr, b);
            let sr = objective_scale(&pr, &wr, b);
            if budget >= MAX_ITER_QUICK && sweeps < 2000 && g.is_finite() && g + 1e-12 * sr < 1e-3 * c.tol * yc2 {
                obs.fail(
                    "enet:not-converged-within-budget",
                    format!(
                        "solver used all {} sweeps (gap {}) although plain coordinate descent reaches gap {} (tolerance*||y||^2 = {}) in {} sweeps",
                        budget,
                        out.gap,
                        g,
                        c.tol * yc2,
                        sweeps
                    ),
                );
                return;
            }
        }
        obs.skip("not_converged_budget_exhausted");
        return;
    }

    let judge = Judge { pr: &pr, p0, s0, allowance, slack_rel };
    let r = residual(&pr, w, b);
    let xjj: Vec<f64> = xi.norms.iter().map(|v| v * v).collect();

    // ---- (1) exact one-dimensional (block) minimisers, b fixed
    for j in 0..p {
        let rj = rho(&pr, &r, w, j);
        let new = block_minimiser(&pr, &rj, xjj[j]);
        let mut w2 = w.clone();
        w2[j] = new;
        let (ok, gain) = judge.ok(&w2, b);
        obs.ensure(ok, "enet:coordinate-minimiser-lowers-objective", || {
            format!(
                "replacing row {j} = {:?} by its exact minimiser {:?} lowers the objective by {gain} > gap {} (objective {p0})",
                w[j], w2[j], out.gap
            )
        });
    }

    // ---- (2) random perturbations, b fixed
    let mut rng = SplitMix(c.pert_seed);
    let ynorm = yc2.sqrt();
    let typical: Vec<f64> = (0..p)
        .map(|j| if xi.norms[j] > 0.0 { ynorm / (xi.norms[j] * (p as f64).sqrt()) } else { 1.0 })
        .collect();
    let rms_y: Vec<f64> = (0..t).map(|cc| (c.y.iter().map(|row| row[cc] * row[cc]).sum::<f64>() / nf).sqrt()).collect();
    let perturb = |rng: &mut SplitMix, joint: bool| -> (Mat, Vec<f64>) {
        let s = 10f64.powi(-(rng.below(9) as i32));
        let mut w2 = w.clone();
        let mut b2 = b.to_vec();
        let kind = rng.below(5);
        let j0 = rng.below(p);
        match kind {
            1 => {
                for cc in 0..t {
                    w2[j0][cc] += s * rng.gauss() * (w[j0][cc].abs() + typical[j0]);
                }
            }
            2 => {
                // drop a non-zero row
                if let Some(j) = (0..p).map(|k| (j0 + k) % p).find(|&j| w[j].iter().any(|v| *v != 0.0)) {
                    w2[j] = vec![0.0; t];
                }
            }
            3 => {
                // activate a zero row
                if let Some(j) = (0..p).map(|k| (j0 + k) % p).find(|&j| w[j].iter().all(|v| *v == 0.0)) {
                    for cc in 0..t {
                        w2[j][cc] = s * rng.gauss() * typical[j];
                    }
                }
            }
            _ => {
                for j in 0..p {
                    for cc in 0..t {
                        w2[j][cc] += s * rng.gauss() * (w[j][cc].abs() + typical[j]);
                    }
                }
            }
        }
        if joint && (kind == 4 || kind == 0) {
            for cc in 0..t {
                b2[cc] += s * rng.gauss() * (b[cc].abs() + rms_y[cc]);
            }
        }
        (w2, b2)
    };
    for k in 0..N_PERT {
        let (w2, _) = perturb(&mut rng, false);
        let (ok, gain) = judge.ok(&w2, b);
        if !obs.ensure(ok, "enet:perturbation-lowers-objective", || {
            format!("perturbation #{k} of the coefficients lowers the objective by {gain} > gap {} (objective {p0}); perturbed coefficients {:?}", out.gap, w2)
        }) {
            break;
        }
    }

    // ---- (3) independent reference solution of the w-block problem
    let wref = if alpha == 0.0 { ref_direct(&pr, b) } else { None }.unwrap_or_else(|| ref_cd(&pr, b, 3000).0);
    if all_finite(&wref) {
        let (ok, gain) = judge.ok(&wref, b);
        obs.ensure(ok, "enet:reference-solution-lower-objective", || {
            format!(
                "independent solution {:?} has an objective lower by {gain} than the returned {:?} (gap {}, objective {p0})",
                wref, w, out.gap
            )
        });
    }

    // ---- (4) jointly in coefficients and intercept
    if c.intercept {
        let ybar: Vec<f64> = (0..t).map(|cc| c.y.iter().map(|row| row[cc]).sum::<f64>() / nf).collect();
        let b_is_ymean = (0..t).all(|cc| (b[cc] - ybar[cc]).abs() <= 1e4 * eps * (ybar[cc].abs() + rms_y[cc]) + 1e-300);
        // the defect recognised as known: features with non-zero column means and intercept = mean(y)
        let sig: &str = if xi.any_uncentred && b_is_ymean {
            KNOWN_INTERCEPT_SIG
        } else {
            "enet:intercept-not-jointly-optimal"
        };
        // exact minimiser over b: b + mean residual; the gain is n/2 * sum_c mean(r_c)^2
        let mr: Vec<f64> = (0..t).map(|cc| r.iter().map(|row| row[cc]).sum::<f64>() / nf).collect();
        let gain_b = 0.5 * nf * mr.iter().map(|v| v * v).sum::<f64>();
        obs.ensure(!(gain_b > allowance + slack_rel * s0), sig, || {
            format!(
                "moving the intercept {:?} by the mean residual {:?} lowers the objective by {gain_b} > gap {} (objective {p0}); column means {:?}, mean(y) {:?}",
                b, mr, out.gap, xi.means, ybar
            )
        });
        for k in 0..N_PERT / 2 {
            let (w2, b2) = perturb(&mut rng, true);
            let (ok, gain) = judge.ok(&w2, &b2);
            if !obs.ensure(ok, sig, || {
                format!("joint perturbation #{k} (coefficients {:?}, intercept {:?}) lowers the objective by {gain} > gap {}", w2, b2, out.gap)
            }) {
                break;
            }
        }
        // joint reference: eliminate the intercept by centring with the harness' own code
        let xc: Mat = c.x.iter().map(|row| (0..p).map(|j| row[j] - xi.means[j]).collect()).collect();
        let yc: Mat = c.y.iter().map(|row| (0..t).map(|cc| row[cc] - ybar[cc]).collect()).collect();
        let prc = Prob { x: &xc, y: &yc, n, p, t, alpha, beta };
        let zero_b = vec![0.0; t];
        let wj = if alpha == 0.0 { ref_direct(&prc, &zero_b) } else { None }.unwrap_or_else(|| ref_cd(&prc, &zero_b, 3000).0);
        if all_finite(&wj) {
            let bj: Vec<f64> = (0..t).map(|cc| ybar[cc] - (0..p).map(|j| xi.means[j] * wj[j][cc]).sum::<f64>()).collect();
            let (ok, gain) = judge.ok(&wj, &bj);
            obs.ensure(ok, sig, || {
                format!(
                    "joint minimiser computed on centred features (coefficients {:?}, intercept {:?}) has an objective lower by {gain} than the returned (coefficients {:?}, intercept {:?}); gap {}, objective {p0}",
                    wj, bj, w, b, out.gap
                )
            });
        }
    }

    // ---- (4b) the row-major twin: the same logical data in standard layout must give the same model.
    // Two points that are each within `a_i` of the minimum of P(., b) satisfy
    // ||X (W1 - W2)||_F <= sqrt(2 a_1) + sqrt(2 a_2) (P - P* >= 1/2 ||X (W - W*)||^2).
    if c.x_layout != 0 || c.y_layout != 0 {
        match obs.call("elasticnet.fit", || run_enet_layout(c, n, p, t, c.tol, budget, 0, 0)) {
            Some(Ok(tw)) if shape_ok(&tw.w, p, t) && tw.b.len() == t && out_finite(&tw) => {
                let tw_reported = tw.n_steps < budget;
                if tw_reported || !reported {
                    obs.class("row_major_twin_compared");
                    let a2 = if tw_reported { tw.gap.max(0.0) } else { allowance };
                    let sigma = slack_rel * s0;
                    let mut db: f64 = 0.0;
                    let mut b_ok = true;
                    for cc in 0..t {
                        let d = (tw.b[cc] - b[cc]).abs();
                        b_ok &= d <= 1e3 * eps * (b[cc].abs() + rms_y[cc]) + 1e-300;
                        db += d * d;
                    }
                    obs.ensure(b_ok, "enet:layout-twin-differs", || {
                        format!(
                            "records layout {} / targets layout {}: intercept {:?}, but {:?} for the same data in row-major layout",
                            c.x_layout, c.y_layout, b, tw.b
                        )
                    });
                    let mut d2 = 0.0;
                    for i in 0..n {
                        for cc in 0..t {
                            let mut v = 0.0;
                            for j in 0..p {
                                v += c.x[i][j] * (w[j][cc] - tw.w[j][cc]);
                            }
                            d2 += v * v;
                        }
                    }
                    let allowed = (2.0 * (allowance + sigma)).sqrt() + (2.0 * (a2 + sigma)).sqrt() + (nf * db).sqrt();
                    obs.ensure(d2.sqrt() <= allowed, "enet:layout-twin-differs", || {
                        format!(
                            "records layout {} / targets layout {}: coefficients {:?} (gap {}), but {:?} (gap {}) for the same data in row-major layout; ||X dW|| = {} > {}",
                            c.x_layout, c.y_layout, w, out.gap, tw.w, tw.gap, d2.sqrt(), allowed
                        )
                    });
                } else {
                    obs.class("row_major_twin_not_converged");
                }
            }
            Some(Ok(_)) => obs.fail("enet:layout-twin-differs", "the row-major twin returned a non-finite or mis-shaped model".to_string()),
            Some(Err(e)) => obs.fail("enet:layout-twin-differs", format!("the row-major twin failed to fit: {e}")),
            None => {}
        }
    }

    // ---- (5) rows under the l1 threshold are exactly zero (and zero rows are not above it)
    if l1_part && !c.f32 && reported {
        // the iterate before the last sweep: tolerance 0 disables the stopping rule, so a fit with
        // budget n_steps - 1 returns exactly the previous iterate of the same deterministic iteration
        let prev: Option<Mat> = if out.n_steps <= 1 {
            Some(zeros(p, t))
        } else {
            match obs.call("elasticnet.fit", || run_enet(c, n, p, t, 0.0, out.n_steps - 1)) {
                Some(Ok(o)) if o.n_steps == out.n_steps - 1 && shape_ok(&o.w, p, t) && all_finite(&o.w) => Some(o.w),
                _ => None,
            }
        };
        match prev {
            None => obs.class("previous_iterate_unavailable"),
            Some(wp) => {
                let q = (2.0 * (s0 - penalty_value(&pr, w)).max(0.0)).sqrt();
                for j in 0..p {
                    let rj = rho(&pr, &r, w, j);
                    let nr = row_norm(&rj);
                    let mut bound = DRIFT_F64 * xi.norms[j] * q;
                    for k in j + 1..p {
                        let mut d2 = 0.0;
                        for cc in 0..t {
                            let e = w[k][cc] - wp[k][cc];
                            d2 += e * e;
                        }
                        bound += col_dot(&c.x, j, k).abs() * d2.sqrt();
                    }
                    let is_zero = w[j].iter().all(|v| *v == 0.0);
                    if nr + bound < alpha * (1.0 - 1e-9) {
                        obs.class("row_strictly_under_threshold");
                        obs.ensure(is_zero, "enet:below-threshold-not-exactly-zero", || {
                            format!(
                                "feature {j}: |x_j^T partial residual| = {nr} (+ margin {bound}) is under the l1 threshold {alpha} but the coefficient row is {:?}",
                                w[j]
                            )
                        });
                    }
                    if is_zero && xjj[j] > 0.0 {
                        obs.ensure(nr <= alpha * (1.0 + 1e-9) + bound, "enet:zero-row-above-threshold", || {
                            format!("feature {j}: coefficient row is exactly zero but |x_j^T partial residual| = {nr} exceeds the l1 threshold {alpha} (margin {bound})")
                        });
                    }
                }
            }
        }
    }
}

// ------------------------------------------------------------------------------------------------
// ordinary least squares

fn check_ols(c: &OlsCase, obs: &mut Obs) {
    let n = c.x.len();
    let p = c.x.first().map_or(0, |r| r.len());
    if n < 3 || p == 0 || n <= p + 1 || !shape_ok(&c.x, n, p) || c.y.len() != n || !all_finite(&c.x) || c.y.iter().any(|v| !v.is_finite()) {
        obs.skip("malformed_case");
        return;
    }
    let nf = n as f64;
    let xi = describe_x(&c.x, n, p, eps_of(c.f32), obs);
    obs.class_if(c.f32, "f32");
    obs.class_if(!c.f32, "f64");
    obs.class_if(c.intercept, "intercept_on");
    obs.class_if(!c.intercept, "intercept_off");
    layout_classes(c.x_layout, c.y_layout, false, obs);
    obs.class_if(
        !c.intercept && matches!(c.x_layout, 1 | 3 | 4 | 5) && p >= 2,
        "no_intercept_contiguous_non_standard_records",
    );
    obs.class_if(c.ctor == 1, "ctor_default");
    obs.class_if(c.ctor != 1, "ctor_new");
    obs.class_if(c.leave_defaults && c.intercept, "intercept_left_at_documented_default");
    obs.class_if(!(c.leave_defaults && c.intercept), "intercept_set_explicitly");
    obs.class_if(c.ctor == 1 && c.leave_defaults && c.intercept, "ctor_default_intercept_untouched");
    let eps = eps_of(c.f32);

    // conditioning of the (augmented) design, columns scaled to unit length
    let cols = if c.intercept { p + 1 } else { p };
    let aug: Mat = c
        .x
        .iter()
        .map(|row| {
            let mut v = row.clone();
            if c.intercept {
                v.push(1.0);
            }
            v
        })
        .collect();
    let cond = equilibrated_gram_cond(&aug, cols);
    if !(cond <= COND_MAX) {
        obs.skip("design_not_full_rank_or_cond_above_1e7");
        return;
    }
    obs.class_if(cond > 1e3, "cond_above_1e3");
    let unc = c.intercept && xi.any_uncentred;
    obs.class_if(unc, "uncentred_x_with_intercept");
    obs.nontrivial_if(unc);

    let fitted = obs.call("linear_regression.fit", || {
        if c.f32 {
            fit_ols::<f32>(&c.x, &c.y, n, p, c.intercept, c.ctor, c.leave_defaults, c.x_layout, c.y_layout)
        } else {
            fit_ols::<f64>(&c.x, &c.y, n, p, c.intercept, c.ctor, c.leave_defaults, c.x_layout, c.y_layout)
        }
    });
    let out = match fitted {
        None => return,
        Some(Err(e)) => {
            obs.fail("ols:fit-error", format!("fit failed on a full-column-rank design (cond {cond}): {e}"));
            return;
        }
        Some(Ok(o)) => o,
    };
    if out.w.len() != p || out.pred.len() != n {
        obs.fail("ols:output-shape", "params / prediction have the wrong length".to_string());
        return;
    }
    if !obs.ensure(
        out.w.iter().all(|v| v.is_finite()) && out.b.is_finite() && out.pred.iter().all(|v| v.is_finite()),
        "ols:non-finite-output",
        || format!("params {:?}, intercept {}", out.w, out.b),
    ) {
        return;
    }
    if !c.intercept {
        obs.ensure(out.b == 0.0, "ols:intercept-nonzero-when-disabled", || format!("intercept = {}", out.b));
    }
    let (w, b) = (&out.w, out.b);

    // predict
    for i in 0..n {
        let mut s = b;
        let mut m = b.abs();
        for j in 0..p {
            s += c.x[i][j] * w[j];
            m += (c.x[i][j] * w[j]).abs();
        }
        if !obs.ensure((out.pred[i] - s).abs() <= 64.0 * eps * m + 1e-300, "ols:predict-not-xw-plus-b", || {
            format!("row {i}: predict gives {}, X w + b = {}", out.pred[i], s)
        }) {
            break;
        }
    }

    // residual and magnitude scale M = ||y|| + sum_k ||x_k|| |w_k| + sqrt(n) |b|
    let sse = |w: &[f64], b: f64| -> (f64, Vec<f64>) {
        let mut r = vec![0.0; n];
        let mut s = 0.0;
        for i in 0..n {
            let mut v = c.y[i] - b;
            for j in 0..p {
                v -= c.x[i][j] * w[j];
            }
            r[i] = v;
            s += v * v;
        }
        (s, r)
    };
    let (sse0, r) = sse(w, b);
    let ynorm = c.y.iter().map(|v| v * v).sum::<f64>().sqrt();
    let m_scale = ynorm + (0..p).map(|j| xi.norms[j] * w[j].abs()).sum::<f64>() + nf.sqrt() * b.abs();
    let tau = ORTH_EPS * eps;
    for j in 0..p {
        let d: f64 = (0..n).map(|i| c.x[i][j] * r[i]).sum();
        obs.ensure(d.abs() <= tau * xi.norms[j] * m_scale, "ols:residual-not-orthogonal-to-feature", || {
            format!("x_{j}^T r = {d}, allowed {} (||x_j|| = {}, scale {m_scale}); params {:?}, intercept {b}", tau * xi.norms[j] * m_scale, xi.norms[j], w)
        });
    }
    if c.intercept {
        let d: f64 = r.iter().sum();
        obs.ensure(d.abs() <= tau * nf.sqrt() * m_scale, "ols:residual-not-orthogonal-to-constant", || {
            format!("1^T r = {d}, allowed {}; params {:?}, intercept {b}", tau * nf.sqrt() * m_scale, w)
        });
    }

    // no perturbation lowers the SSE beyond float slack
    let slack = 1e4 * eps * m_scale * m_scale;
    let mut rng = SplitMix(c.pert_seed);
    let typical: Vec<f64> = (0..p).map(|j| ynorm / (xi.norms[j] * (p as f64).sqrt())).collect();
    for k in 0..N_PERT {
        let s = 10f64.powi(-(rng.below(9) as i32));
        let mut w2 = w.clone();
        let mut b2 = b;
        let kind = rng.below(4);
        if kind == 0 {
            let j = rng.below(p);
            w2[j] += s * rng.gauss() * (w[j].abs() + typical[j]);
        } else {
            for j in 0..p {
                w2[j] += s * rng.gauss() * (w[j].abs() + typical[j]);
            }
        }
        if c.intercept && kind >= 2 {
            b2 += s * rng.gauss() * (b.abs() + ynorm / nf.sqrt());
        }
        let (s1, _) = sse(&w2, b2);
        if !obs.ensure(!(sse0 - s1 > slack), "ols:perturbation-lowers-sse", || {
            format!("perturbation #{k} (params {:?}, intercept {b2}) has SSE {s1} < {sse0} of the returned (params {:?}, intercept {b})", w2, w)
        }) {
            break;
        }
    }

    // the row-major twin: same logical data in standard layout, same parameters within the
    // tolerance of the reference comparison
    if c.x_layout != 0 || c.y_layout != 0 {
        let twin = obs.call("linear_regression.fit", || {
            if c.f32 {
                fit_ols::<f32>(&c.x, &c.y, n, p, c.intercept, c.ctor, c.leave_defaults, 0, 0)
            } else {
                fit_ols::<f64>(&c.x, &c.y, n, p, c.intercept, c.ctor, c.leave_defaults, 0, 0)
            }
        });
        match twin {
            Some(Ok(tw)) if tw.w.len() == p && tw.w.iter().all(|v| v.is_finite()) && tw.b.is_finite() => {
                obs.class("row_major_twin_compared");
                let tol = AGREE_EPS * eps * cond * m_scale;
                let worst = (0..p).map(|j| (w[j] - tw.w[j]).abs() * xi.norms[j]).fold((b - tw.b).abs() * nf.sqrt(), f64::max);
                obs.ensure(worst <= tol, "ols:layout-twin-differs", || {
                    format!(
                        "records layout {} / targets layout {}: params {:?}, intercept {b}, but params {:?}, intercept {} for the same data in row-major layout (scaled difference {worst}, allowed {tol})",
                        c.x_layout, c.y_layout, w, tw.w, tw.b
                    )
                });
            }
            Some(Ok(_)) => obs.fail("ols:layout-twin-differs", "the row-major twin returned a non-finite or mis-shaped model".to_string()),
            Some(Err(e)) => obs.fail("ols:layout-twin-differs", format!("the row-major twin failed to fit: {e}")),
            None => {}
        }
    }

    // agreement with an independent solve: centred (if intercept), unit-length columns, normal
    // equations by Gaussian elimination with partial pivoting
    let means: Vec<f64> = if c.intercept { xi.means.clone() } else { vec![0.0; p] };
    let ybar = if c.intercept { c.y.iter().sum::<f64>() / nf } else { 0.0 };
    let xc: Mat = c.x.iter().map(|row| (0..p).map(|j| row[j] - means[j]).collect()).collect();
    let cn = col_norms(&xc, p);
    if cn.iter().all(|v| *v > 0.0) {
        let mut a = zeros(p, p);
        for j in 0..p {
            for k in 0..p {
                a[j][k] = col_dot(&xc, j, k) / (cn[j] * cn[k]);
            }
        }
        let rhs: Vec<f64> = (0..p).map(|j| (0..n).map(|i| xc[i][j] * (c.y[i] - ybar)).sum::<f64>() / cn[j]).collect();
        if let Some(z) = vengine::num::solve(&a, &rhs) {
            let wref: Vec<f64> = (0..p).map(|j| z[j] / cn[j]).collect();
            let bref = ybar - (0..p).map(|j| means[j] * wref[j]).sum::<f64>();
            let tol = AGREE_EPS * eps * cond * m_scale;
            for j in 0..p {
                obs.ensure((w[j] - wref[j]).abs() * xi.norms[j] <= tol, "ols:coefficients-differ-from-reference", || {
                    format!("coefficient {j}: linfa {}, reference {} (scaled difference {}, allowed {tol}, cond {cond})", w[j], wref[j], (w[j] - wref[j]).abs() * xi.norms[j])
                });
            }
            if c.intercept {
                obs.ensure((b - bref).abs() * nf.sqrt() <= tol, "ols:intercept-differs-from-reference", || {
                    format!("intercept: linfa {b}, reference {bref} (allowed {}, cond {cond})", tol / nf.sqrt())
                });
            }
        }
    }
}

// ------------------------------------------------------------------------------------------------

pub fn property() -> Property {
    Property {
        id: "C11",
        rule: "cases = finished (X, y) matrices + estimator configuration. X = (G + k) diag(scale): G gaussian or small-integer lattice, n 6..=60, p 1..=6, n >= p+2, \
               scale_j = 10^(e/2) with e in -6..=6, offset k_j in {exactly centred, raw, +-1, +-100} column scales (at most one +-100), optional constant column (zero or non-zero), \
               near-collinear pair (elastic net; the pair only with a positive ridge part) or planted feature exactly uncorrelated with every target (column e_a - e_b with y_a = y_b); y = X w* + b* + sigma noise with row-sparse w*, 1..=3 target columns for the multi-task estimator; \
               construction path: LinearRegression::new() | ::default(); ElasticNet::params() | ElasticNetParams::new() | ::default() | preset lasso()/ridge() (same for the multi-task type), \
               each with every option either set explicitly or, when its value equals the documented default (intercept on, penalty 1.0, l1_ratio 0.5, tolerance 1e-4), left untouched; \
               memory layout of records and of targets, independently: row-major (weight 4), column-major, every-second-row view of a larger table, rows reversed (inverted axis), columns reversed, transposed view of a feature-major table (weight 1 each; 1-D targets: standard / every second element / reversed); \
               penalty in {0,1e-3,0.1,1,10}, l1_ratio in {0,0.3,0.5,1}, intercept on/off, tolerance in {1e-4,1e-8,1e-12} (f32: {1e-3,1e-4}), max_iterations 10000 (quick) / 100000 (thorough). \
               Non-trivial = judged (converged) case with un-centred X and intercept, or >= 1 exactly-zero and >= 1 non-zero coefficient row, or multi-task with >= 2 target columns; \
               for OLS: un-centred X with intercept. distinct = distinct canonical JSON of the case",
        assumptions: vec![
            "the objective is evaluated by the harness as P(W,b) = 1/2||Y-1b^T-XW||_F^2 + n*penalty*(l1_ratio*sum_j||W_j||_2 + (1-l1_ratio)/2||W||_F^2), i.e. n times the documented objective; the reported duality gap is on the same scale".into(),
            format!("objective comparisons carry a float slack of {SLACK_F64:e} (f64) / {SLACK_F32:e} (f32) times the cancellation-free magnitude of the objective"),
            format!("elastic-net fits are judged only when the solver reports convergence (n_steps < max_iterations = {MAX_ITER_QUICK} quick / {MAX_ITER_THOROUGH} thorough; f32: {F32_ITER}); other fits are counted as skipped"),
            format!("when n*penalty*l1_ratio = 0 linfa's duality gap equals the primal value and its stopping rule cannot fire (observation, not judged as a violation: the gap is still an upper bound); such fits are judged when two fits with budgets {RIDGE_ITER} and {} agree to {STATIONARY:e} (scaled by column norms), and then suboptimality must be within float slack", 2 * RIDGE_ITER),
            "a fit that exhausts its budget of >= 10000 sweeps is a violation only when tolerance >= 1e-8 and the harness' plain coordinate descent reaches a duality gap below 1e-3*tolerance*||y||^2 in fewer than 2000 sweeps".into(),
            format!("a column counts as centred when |sum_i x_ij| <= max({CENTRED:e}, 16 eps)*sqrt(n)*||x_j||; joint optimality in (w,b) is enforced for all designs, the failures on designs with a non-centred column and intercept == mean(y) carry the known-finding signature"),
            format!("exact-zero rule: row j must be exactly zero when ||x_j^T(partial residual)|| + margin < n*penalty*l1_ratio*(1-1e-9); margin = sum_{{k>j}} |x_j^T x_k| * ||W_k - W_k(previous sweep)|| + {DRIFT_F64:e}*||x_j||*(cancellation-free residual norm); the previous sweep's iterate is obtained from linfa itself with tolerance 0 and max_iterations = n_steps-1; f64 only"),
            format!("OLS: |x_j^T r| <= {ORTH_EPS}*eps*||x_j||*M and |1^T r| <= {ORTH_EPS}*eps*sqrt(n)*M with M = ||y|| + sum_k ||x_k|| |w_k| + sqrt(n)|b|; SSE slack 1e4*eps*M^2; agreement with the reference solve within {AGREE_EPS}*eps*cond*M where cond is the condition number of the unit-column Gram matrix of [X 1]; designs with cond > {COND_MAX:e} are not judged"),
            "non-finite output is always a failure; NaN coefficients of the multi-task estimator with n*penalty*l1_ratio == 0 carry the known-finding signature of the 0/0 in block_soft_thresholding, every other non-finite output the plain signature".into(),
            "documented defaults used by the oracle when an option is left untouched: LinearRegression fits an intercept ('By default, an intercept will be fitted'); ElasticNetParams table: penalty 1.0, l1_ratio 0.5, with_intercept true, tolerance 1e-4; lasso() = l1_ratio 1, ridge() = l1_ratio 0; max_iterations is always set explicitly".into(),
            format!("layouts: every obligation is judged on the model fitted through the generated layout; in addition the model must equal the one fitted on the same logical data in row-major layout: OLS within {AGREE_EPS}*eps*cond*M (scaled by column norms), elastic net within ||X(W1-W2)||_F <= sqrt(2(a1+s)) + sqrt(2(a2+s)) + sqrt(n)*|b1-b2| (a_i = reported gap or 0 under the two-budget rule, s = float slack; strong convexity of the objective in XW) and |b1-b2| <= 1e3*eps*(|b|+rms(y))"),
            "predict must equal X w + b within 64*eps*(|b| + sum_j |x_ij w_j|)".into(),
            "f32 cases are mild (scales 0.1..10, offsets <= 1 scale, no collinear pair); for f32 the exact-zero rule, the two-budget ridge rule and the budget rule are not applied".into(),
            "trusted base: ndarray, the harness' own Gaussian elimination / Jacobi eigen-solver / coordinate descent (used only to propose candidate points, whose objective is evaluated from the definition)".into(),
        ],
        subs: vec![
            prop_sub("elasticnet", 6000, 48000, |t: Tier| enet_strategy(Flavor::Enet, t.pick(MAX_ITER_QUICK, MAX_ITER_THOROUGH)), check_enet)
                .chunks(16)
                .require(&["converged_reported_by_solver", "converged_two_budget_stationary", "solution_zero_and_nonzero_rows", "row_strictly_under_threshold", "uncentred_x_with_intercept", "x_all_columns_centred", "ctor_params_default", "ctor_params_new", "ctor_preset_lasso_or_ridge", "intercept_left_at_documented_default", "y_layout_every_second_element_view", "y_layout_reversed", "x_layout_column_major", "x_layout_every_second_row_view", "x_layout_rows_reversed", "x_layout_columns_reversed", "x_layout_transposed_feature_major_view", "x_layout_row_major", "row_major_twin_compared"]),
            prop_sub("multitask", 4500, 33000, |t: Tier| enet_strategy(Flavor::Multi, t.pick(MAX_ITER_QUICK, MAX_ITER_THOROUGH)), check_enet)
                .chunks(16)
                .require(&["converged_reported_by_solver", "converged_two_budget_stationary", "solution_zero_and_nonzero_rows", "row_strictly_under_threshold", "targets_2", "targets_3", "x_all_columns_centred", "ctor_params_default", "ctor_params_new", "ctor_preset_lasso_or_ridge", "intercept_left_at_documented_default", "y_layout_column_major", "y_layout_every_second_row_view", "y_layout_rows_reversed", "y_layout_columns_reversed", "y_layout_transposed_view", "x_layout_column_major", "x_layout_every_second_row_view", "x_layout_rows_reversed", "x_layout_columns_reversed", "x_layout_transposed_feature_major_view", "x_layout_row_major", "row_major_twin_compared"]),
            prop_sub("ols", 6000, 60000, |_t: Tier| ols_strategy(), check_ols).chunks(8).require(&["uncentred_x_with_intercept", "f32", "f64", "ctor_default_intercept_untouched", "ctor_new", "no_intercept_contiguous_non_standard_records", "y_layout_every_second_element_view", "y_layout_reversed", "x_layout_column_major", "x_layout_every_second_row_view", "x_layout_rows_reversed", "x_layout_columns_reversed", "x_layout_transposed_feature_major_view", "x_layout_row_major", "row_major_twin_compared"]),
            prop_sub("elasticnet_f32", 1500, 9000, |_t: Tier| enet_strategy(Flavor::F32, F32_ITER), check_enet).chunks(4).require(&["converged_reported_by_solver", "x_layout_column_major", "x_layout_every_second_row_view", "x_layout_rows_reversed", "x_layout_columns_reversed", "x_layout_transposed_feature_major_view", "x_layout_row_major", "row_major_twin_compared"]),
        ],
    }
}
