fn main() {
    vengine::main(c11::property())
}
