fn main() {
    vengine::main(c05::property())
}
