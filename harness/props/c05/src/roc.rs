//! (b) ROC curve / AUC and log-loss on probability vectors.

use crate::bound::{agrees, near, Ctx, B, U32};
use linfa::dataset::{DatasetBase, Pr};
use linfa::metrics::BinaryClassification;
use ndarray::{Array1, Array2};
use proptest::prelude::*;
use serde::{Deserialize, Serialize};
use vengine::gen::{idx, perm_from_keys};
use vengine::{Obs, Tier};

/// scores are `k / 2^20`, k in 0..=2^20: exactly representable in f32, distinct scores differ by >= 2^-20
pub const DEN: u32 = 1 << 20;
/// DESIGN §1.5: independent formula, f32 result => 64 eps (AUC is in [0,1])
pub const AUC_TOL: f64 = 64.0 * (f32::EPSILON as f64);
/// linfa merges scores closer than this into one threshold (reached by the raw-f32 sub-checks: known finding KNOWN_MERGE)
const MERGE: f32 = 1e-10;

pub const KNOWN_ORIGIN: &str = "roc:origin-missing-when-lowest-score-is-zero";
pub const KNOWN_MERGE: &str = "roc:distinct-scores-within-1e-10-merged";

#[derive(Debug, Clone, Serialize, Deserialize)]
pub struct RocCase {
    /// numerators over 2^20
    pub scores: Vec<u32>,
    pub labels: Vec<bool>,
    /// sort keys of the common permutation (empty => reversal)
    pub perm: Vec<u16>,
    /// bit i set and scores[i] == 0 => sample i is scored -0.0 (the second spelling of the boundary 0)
    #[serde(default)]
    pub neg_zero_mask: u64,
}

pub const NEG_ZERO_BITS: u32 = 0x8000_0000;

fn score(k: u32) -> f32 {
    k.min(DEN) as f32 / DEN as f32
}

fn trapezoid(curve: &[(f64, f64)]) -> f64 {
    let mut a = 0.0;
    for w in curve.windows(2) {
        a += (w[1].0 - w[0].0) * (w[0].1 + w[1].1) / 2.0;
    }
    a
}

struct Got {
    curve: Vec<(f32, f32)>,
    auc: f32,
}

fn observe_array(p: &Array1<Pr>, y: &[bool], obs: &mut Obs, what: &str) -> Option<Got> {
    match obs.call(what, || p.roc(y).map(|r| (r.get_curve(), r.area_under_curve()))) {
        Some(Ok((curve, auc))) => Some(Got { curve, auc }),
        Some(Err(e)) => {
            obs.fail("roc:error", format!("{what} returned {e}"));
            None
        }
        None => None,
    }
}

pub fn check(c: &RocCase, obs: &mut Obs) {
    let s: Vec<f32> = c
        .scores
        .iter()
        .enumerate()
        .map(|(i, &k)| if k == 0 && i < 64 && (c.neg_zero_mask >> i) & 1 == 1 { -0.0f32 } else { score(k) })
        .collect();
    check_scores(&s, &c.labels, &c.perm, obs)
}

/// Scores given as raw f32 bit patterns (clamped into [0,1]; 0x8000_0000 = -0.0 is kept): adjacent floats,
/// scores a few ulps apart, signed zeros.
#[derive(Debug, Clone, Serialize, Deserialize)]
pub struct NearCase {
    pub bits: Vec<u32>,
    pub labels: Vec<bool>,
    /// sort keys of the common permutation (empty => reversal)
    pub perm: Vec<u16>,
}

pub const ONE_BITS: u32 = 0x3f80_0000;

pub fn check_near(c: &NearCase, obs: &mut Obs) {
    let s: Vec<f32> = c.bits.iter().map(|&b| if b == NEG_ZERO_BITS { -0.0f32 } else { f32::from_bits(b.min(ONE_BITS)) }).collect();
    check_scores(&s, &c.labels, &c.perm, obs)
}

/// The curve linfa's grouping rule produces: scores ascending, a new point whenever the score is
/// further than `merge` (f32 arithmetic) from the first score of the current group.
fn grouped_curve(s: &[f32], y: &[bool], merge: f32) -> Vec<(f32, f32)> {
    let mut order: Vec<usize> = (0..s.len()).collect();
    order.sort_by(|&a, &b| s[a].partial_cmp(&s[b]).unwrap_or(std::cmp::Ordering::Equal));
    let npos = y.iter().filter(|b| **b).count() as f32;
    let nneg = y.len() as f32 - npos;
    let (mut tp, mut fp) = (0.0f32, 0.0f32);
    let mut s0 = f32::NEG_INFINITY;
    let mut out = vec![];
    for i in order {
        if (s[i] - s0).abs() > merge {
            out.push((tp / npos, fp / nneg));
            s0 = s[i];
        }
        if y[i] {
            tp += 1.0;
        } else {
            fp += 1.0;
        }
    }
    out.push((tp / npos, fp / nneg));
    out
}

fn check_scores(s: &[f32], labels: &[bool], perm_keys: &[u16], obs: &mut Obs) {
    let n = s.len();
    let npos = labels.iter().filter(|b| **b).count();
    if n < 2 || labels.len() != n || npos == 0 || npos == n || s.iter().any(|v| !(0.0..=1.0).contains(v)) {
        obs.skip("malformed_case");
        return;
    }
    let nneg = n - npos;
    let s: Vec<f32> = s.to_vec();
    let y: &Vec<bool> = &labels.to_vec();

    // ---- classes / non-trivial rule
    let mut distinct: Vec<f32> = s.clone();
    distinct.sort_by(|a, b| a.partial_cmp(b).unwrap_or(std::cmp::Ordering::Equal));
    distinct.dedup();
    let any_tie = distinct.len() < n;
    let cross_tie = (0..n).any(|i| (0..n).any(|j| y[i] && !y[j] && s[i] == s[j]));
    let has0 = s.iter().any(|v| *v == 0.0);
    let has1 = s.iter().any(|v| *v == 1.0);
    obs.class_if(any_tie, "tied_scores");
    obs.class_if(cross_tie, "tie_between_positive_and_negative");
    obs.class_if(has0, "score_zero");
    obs.class_if(has1, "score_one");
    obs.class_if(!any_tie, "all_scores_distinct");
    obs.class_if(distinct.len() == 1, "single_score_value");
    // distinct scores closer than linfa's absolute merge threshold / closer than a few ulps
    let near_pair = |lim: f32| distinct.windows(2).any(|w| w[1] - w[0] <= lim);
    let within_merge = near_pair(MERGE);
    // position on the non-negative float line (-0.0 and +0.0 are the same point)
    let ub = |v: f32| -> i64 { if v == 0.0 { 0 } else { v.to_bits() as i64 } };
    let adjacent = distinct.windows(2).any(|w| ub(w[1]) - ub(w[0]) <= 4);
    let cross_adjacent = (0..n).any(|i| (0..n).any(|j| y[i] != y[j] && s[i] != s[j] && (ub(s[i]) - ub(s[j])).abs() <= 4));
    let negz = |v: f32| v == 0.0 && v.is_sign_negative();
    let posz = |v: f32| v == 0.0 && v.is_sign_positive();
    let has_negz = s.iter().any(|v| negz(*v));
    let mixed_zeros = has_negz && s.iter().any(|v| posz(*v));
    let zeros_across_classes = (0..n).any(|i| (0..n).any(|j| y[i] != y[j] && negz(s[i]) && posz(s[j])));
    obs.class_if(has_negz, "score_negative_zero");
    obs.class_if(mixed_zeros, "negative_and_positive_zero");
    obs.class_if(zeros_across_classes, "negative_and_positive_zero_across_classes");
    obs.class_if(has_negz && s.iter().any(|v| *v > 0.0), "negative_zero_below_positive_score");
    obs.class_if(adjacent, "distinct_scores_within_4_ulps");
    obs.class_if(cross_adjacent, "positive_and_negative_within_4_ulps");
    obs.class_if(within_merge, "distinct_scores_within_1e-10");
    obs.class_if(adjacent && !within_merge, "within_4_ulps_but_further_than_1e-10");
    obs.nontrivial_if(any_tie || has0 || has1 || adjacent);

    // ---- reference
    // Mann-Whitney: (#{pos > neg} + 1/2 #{pos = neg}) / (P N)
    let mut wins = 0.0f64;
    for i in 0..n {
        for j in 0..n {
            if y[i] && !y[j] {
                if s[i] > s[j] {
                    wins += 1.0;
                } else if s[i] == s[j] {
                    wins += 0.5;
                }
            }
        }
    }
    let mw = wins / (npos as f64 * nneg as f64);
    obs.class_if(mw == 1.0 || mw == 0.0, "perfectly_separated");
    // curve: one point per distinct score (fractions of positives / negatives scoring strictly below it), then (1,1)
    let mut want_curve: Vec<(f32, f32)> = distinct
        .iter()
        .map(|t| {
            let p = (0..n).filter(|&i| y[i] && s[i] < *t).count();
            let q = (0..n).filter(|&i| !y[i] && s[i] < *t).count();
            (p as f32 / npos as f32, q as f32 / nneg as f32)
        })
        .collect();
    want_curve.push((npos as f32 / npos as f32, nneg as f32 / nneg as f32));
    let lowest_is_zero = distinct.first().map(|v| v.abs() <= MERGE).unwrap_or(false);

    // ---- linfa
    let pr: Vec<Pr> = s.iter().map(|v| Pr::new(*v)).collect();
    let pa = Array1::from(pr.clone());
    let Some(got) = observe_array(&pa, y, obs, "roc") else { return };

    let g64: Vec<(f64, f64)> = got.curve.iter().map(|p| (p.0 as f64, p.1 as f64)).collect();
    let monotone = g64.windows(2).all(|w| w[1].0 >= w[0].0 && w[1].1 >= w[0].1);
    obs.ensure(monotone, "roc:curve-not-monotone", || format!("curve {:?} decreases somewhere", got.curve));
    obs.ensure(g64.last() == Some(&(1.0, 1.0)), "roc:curve-end", || {
        format!("curve {:?} does not end in (1,1)", got.curve)
    });

    let defect_curve = lowest_is_zero && got.curve[..] == want_curve[1..];
    let mut known_hit = false;
    if g64.first() != Some(&(0.0, 0.0)) {
        if defect_curve {
            known_hit = true;
        } else {
            obs.fail("roc:curve-start", format!("curve {:?} does not start in (0,0)", got.curve));
        }
    }
    let auc = got.auc as f64;
    if !((auc - mw).abs() <= AUC_TOL) {
        let truncated: Vec<(f64, f64)> = want_curve.iter().skip(1).map(|p| (p.0 as f64, p.1 as f64)).collect();
        let merged = grouped_curve(&s, y, MERGE);
        let merged64: Vec<(f64, f64)> = merged.iter().map(|p| (p.0 as f64, p.1 as f64)).collect();
        if defect_curve && (auc - trapezoid(&truncated)).abs() <= AUC_TOL {
            known_hit = true;
        } else if within_merge && merged != want_curve && got.curve == merged && (auc - trapezoid(&merged64)).abs() <= AUC_TOL {
            // exactly the curve of the absolute 1e-10 grouping rule: distinct scores were tied
            obs.fail(
                KNOWN_MERGE,
                format!(
                    "distinct scores closer than 1e-10 are grouped into one tie: area_under_curve {auc}, Mann-Whitney statistic {mw}; scores {:?} labels {:?} curve {:?} (one point per distinct score: {:?})",
                    s, y, got.curve, want_curve
                ),
            );
        } else {
            obs.fail(
                "roc:auc",
                format!(
                    "area_under_curve {auc}, Mann-Whitney statistic (ties 1/2) {mw}; scores {:?} labels {:?} curve {:?}",
                    s, y, got.curve
                ),
            );
        }
    }
    if known_hit {
        obs.fail(
            KNOWN_ORIGIN,
            format!(
                "lowest score is 0: curve {:?} lacks the (0,0) start point (expected {:?}), area_under_curve {auc}, Mann-Whitney {mw}; scores {:?} labels {:?}",
                got.curve, want_curve, s, y
            ),
        );
    }

    // ---- other receivers give the same curve
    let slice: &[Pr] = &pr;
    if let Some(Ok(r)) = obs.call("roc(slice)", || slice.roc(&y[..])) {
        obs.ensure(r.get_curve() == got.curve, "roc:slice-vs-array", || {
            format!("slice receiver gives {:?}, array receiver {:?}", r.get_curve(), got.curve)
        });
    }
    let records = Array2::<f64>::zeros((n, 1));
    let dp = DatasetBase::new(records.clone(), pa.clone());
    let dt = DatasetBase::new(records, Array1::from(y.clone()));
    if let Some(Ok(r)) = obs.call("roc(dataset)", || dp.roc(&dt)) {
        obs.ensure(r.get_curve() == got.curve, "roc:dataset-vs-array", || {
            format!("dataset receiver gives {:?}, array receiver {:?}", r.get_curve(), got.curve)
        });
    }

    // ---- log-loss = mean of -ln(clamp(p, eps, 1-eps)) for positives, -ln(1 - clamp(p)) for negatives
    let ctx = Ctx { u: U32 };
    let lo = f32::EPSILON;
    let hi = 1.0f32 - f32::EPSILON;
    let terms: Vec<B> = (0..n)
        .map(|i| {
            let p = ctx.lit(s[i].max(lo).min(hi) as f64);
            let inside = if y[i] { p } else { ctx.sub(ctx.lit(1.0), p) };
            let l = ctx.ln(inside);
            B { v: -l.v, e: l.e }
        })
        .collect();
    let want_ll = ctx.mean(&terms);
    let ll = match obs.call("log_loss", || pa.log_loss(&y[..])) {
        Some(Ok(v)) => Some(v),
        Some(Err(e)) => {
            obs.fail("logloss:error", format!("log_loss returned {e}"));
            None
        }
        None => None,
    };
    if let Some(ll) = ll {
        obs.ensure(agrees(ll as f64, want_ll, ctx), "logloss:value", || {
            format!("log_loss {ll}, mean clipped negative log-likelihood {} (+-{:e}); scores {:?} labels {:?}", want_ll.v, want_ll.tol(ctx), s, y)
        });
        if let Some(Ok(v)) = obs.call("log_loss(slice)", || slice.log_loss(&y[..])) {
            obs.ensure(v.to_bits() == ll.to_bits(), "logloss:slice-vs-array", || format!("slice {v}, array {ll}"));
        }
        if let Some(Ok(v)) = obs.call("log_loss(dataset)", || dp.log_loss(&dt)) {
            obs.ensure(v.to_bits() == ll.to_bits(), "logloss:dataset-vs-array", || format!("dataset {v}, array {ll}"));
        }
    }

    // ---- one common permutation
    let perm: Vec<usize> = if perm_keys.is_empty() { (0..n).rev().collect() } else { perm_from_keys(perm_keys, n) };
    if perm.len() == n && perm.iter().all(|&i| i < n) {
        let pp = Array1::from(perm.iter().map(|&i| pr[i]).collect::<Vec<_>>());
        let yp: Vec<bool> = perm.iter().map(|&i| y[i]).collect();
        if let Some(g2) = observe_array(&pp, &yp, obs, "roc(permuted)") {
            obs.ensure(g2.curve == got.curve && g2.auc.to_bits() == got.auc.to_bits(), "perm:roc", || {
                format!("curve/AUC changed under a common permutation: {:?} ({}) vs {:?} ({})", g2.curve, g2.auc, got.curve, got.auc)
            });
        }
        if let (Some(ll), Some(Ok(v))) = (ll, obs.call("log_loss(permuted)", || pp.log_loss(&yp[..]))) {
            obs.ensure(near(v as f64, ll as f64, 2.0 * want_ll.tol(ctx)), "perm:logloss", || {
                format!("log_loss changed under a common permutation: {v} vs {ll}")
            });
        }
    }
}

// ------------------------------------------------------------------------------------------------
// generators

/// every (score, label) vector over scores {-0.0, +0.0, 1/2, 1} of length 2..=5 (6 thorough) with both
/// classes present; thorough adds the vectors of length 7 over {+0.0, 1/2, 1}
pub fn enum_cases(t: Tier) -> Vec<RocCase> {
    // (numerator, negative zero)
    let grid4 = [(0u32, true), (0u32, false), (DEN / 2, false), (DEN, false)];
    let grid3 = [(0u32, false), (DEN / 2, false), (DEN, false)];
    let mut out = vec![];
    let mut push_all = |grid: &[(u32, bool)], len: usize| {
        let base = grid.len() * 2;
        let total = base.pow(len as u32);
        for code in 0..total {
            let mut c = code;
            let mut scores = Vec::with_capacity(len);
            let mut labels = Vec::with_capacity(len);
            let mut mask = 0u64;
            for i in 0..len {
                let d = c % base;
                c /= base;
                let (k, neg) = grid[d / 2];
                scores.push(k);
                if neg {
                    mask |= 1 << i;
                }
                labels.push(d % 2 == 1);
            }
            let npos = labels.iter().filter(|b| **b).count();
            if npos == 0 || npos == len {
                continue;
            }
            out.push(RocCase { scores, labels, perm: vec![], neg_zero_mask: mask });
        }
    };
    for len in 2..=t.pick(5usize, 6usize) {
        push_all(&grid4, len);
    }
    if t == Tier::Thorough {
        push_all(&grid3, 7);
    }
    out
}

pub fn strategy(_t: Tier) -> impl Strategy<Value = RocCase> {
    let element = |mode: u8| -> BoxedStrategy<u32> {
        match mode {
            // grid j/8 including 0 and 1: heavy ties
            0 => (0u32..=8).prop_map(|j| j * (DEN / 8)).boxed(),
            // fine random scores, ties unlikely
            1 => (0u32..=DEN).boxed(),
            // mixture: boundary values, grid, fine scores, and a tiny pool (many ties off the grid)
            _ => prop_oneof![
                2 => prop_oneof![Just(0u32), Just(DEN)],
                3 => (0u32..=8).prop_map(|j| j * (DEN / 8)),
                3 => 0u32..=DEN,
                2 => (0u32..=3).prop_map(|j| 1 + j * 349_525),
                1 => (0u32..=2).prop_map(|j| DEN - j),
            ]
            .boxed(),
        }
    };
    (
        2usize..=40,
        prop_oneof![
            proptest::collection::vec(element(0), 40),
            proptest::collection::vec(element(1), 40),
            proptest::collection::vec(element(2), 40),
            proptest::collection::vec(element(2), 40),
        ],
        proptest::collection::vec(any::<bool>(), 40),
        any::<u16>(),
        any::<u16>(),
        proptest::collection::vec(any::<u16>(), 40),
        // every zero score is spelled -0.0 where its bit is set: mixtures of both zeros arise freely
        prop_oneof![Just(0u64), any::<u64>(), any::<u64>()],
    )
        .prop_map(|(n, scores, labels, a, b, perm, mask)| {
            let scores: Vec<u32> = scores.into_iter().take(n).collect();
            let labels: Vec<bool> = labels.into_iter().take(n).collect();
            let perm: Vec<u16> = perm.into_iter().take(n).collect();
            // keep only the bits that matter (canonical case, shrinks to 0)
            let mut m = 0u64;
            for (i, k) in scores.iter().enumerate() {
                if *k == 0 && (mask >> i) & 1 == 1 {
                    m |= 1 << i;
                }
            }
            (scores, labels, a, b, perm, m)
        })
        .prop_map(|(scores, mut labels, a, b, perm, neg_zero_mask)| {
            // both classes present (n >= 2): overwrite one position only when a class is missing
            let n = labels.len();
            if !labels.iter().any(|x| *x) {
                labels[idx(a, n)] = true;
            } else if labels.iter().all(|x| *x) {
                labels[idx(b, n)] = false;
            }
            RocCase { scores, labels, perm, neg_zero_mask }
        })
}

// ---- adjacent floats / near ties across magnitudes

/// bit pattern of (1 + mant/2^23) * 2^-(k+1), k in 0..=20 (magnitudes 0.5..1 down to 4.8e-7..9.5e-7);
/// k = 21 => 0.0, k >= 22 => 1.0
fn base_bits(k: u8, mant: u32) -> u32 {
    match k {
        0..=20 => ((126 - k as u32) << 23) | (mant & 0x7f_ffff),
        21 => 0,
        _ => ONE_BITS,
    }
}

fn offset_bits(base: u32, off: i32) -> u32 {
    (base as i64 + off as i64).clamp(0, ONE_BITS as i64) as u32
}

/// every vector of length 2..=max whose elements are (base + {0,1,2} ulps, label), for bases at
/// magnitudes from 1 down to 1e-6 plus 0 and 1, and over {-0.0, +0.0, smallest positive float}, both classes present
pub fn enum_near_cases(t: Tier) -> Vec<NearCase> {
    let max = t.pick(4usize, 5usize);
    let bases: Vec<u32> = vec![
        0.75f32.to_bits(),
        0.5f32.to_bits() - 1,
        0.3f32.to_bits(),
        0.1f32.to_bits(),
        1.0e-2f32.to_bits(),
        1.1e-3f32.to_bits(),
        5.0e-4f32.to_bits(),
        1.0e-5f32.to_bits(),
        1.0e-6f32.to_bits(),
        0,
        ONE_BITS - 2,
        // signed zeros: the three "offsets" are -0.0, +0.0 and the smallest positive float
        NEG_ZERO_BITS,
    ];
    let mut out = vec![];
    for base in bases {
        for len in 2..=max {
            let total = 6usize.pow(len as u32);
            for code in 0..total {
                let mut c = code;
                let mut bits = Vec::with_capacity(len);
                let mut labels = Vec::with_capacity(len);
                for _ in 0..len {
                    let d = c % 6;
                    c /= 6;
                    bits.push(if base == NEG_ZERO_BITS { [NEG_ZERO_BITS, 0, 1][d / 2] } else { offset_bits(base, (d / 2) as i32) });
                    labels.push(d % 2 == 1);
                }
                let npos = labels.iter().filter(|b| **b).count();
                if npos == 0 || npos == len {
                    continue;
                }
                out.push(NearCase { bits, labels, perm: vec![] });
            }
        }
    }
    out
}

pub fn near_strategy(_t: Tier) -> impl Strategy<Value = NearCase> {
    (
        2usize..=24,
        // up to three base scores: exponent selector and mantissa
        proptest::collection::vec((0u8..=23, 0u32..(1 << 23)), 3),
        1usize..=3,
        // per element: which base, offset in ulps (-4..=4), and a rare unrelated fine score
        proptest::collection::vec((any::<u16>(), -4i32..=4, 0u8..10, 0u32..=DEN, any::<bool>()), 24),
        proptest::collection::vec(any::<bool>(), 24),
        any::<u16>(),
        any::<u16>(),
        proptest::collection::vec(any::<u16>(), 24),
    )
        .prop_map(|(n, bases, nb, elems, labels, a, b, perm)| {
            let bits: Vec<u32> = elems
                .into_iter()
                .take(n)
                .map(|(which, off, other, fine, neg)| {
                    let b = if other == 0 {
                        score(fine).to_bits()
                    } else {
                        let (k, mant) = bases[idx(which, nb)];
                        offset_bits(base_bits(k, mant), off)
                    };
                    // a zero score is spelled -0.0 half of the time
                    if b == 0 && neg {
                        NEG_ZERO_BITS
                    } else {
                        b
                    }
                })
                .collect();
            let mut labels: Vec<bool> = labels.into_iter().take(n).collect();
            if !labels.iter().any(|x| *x) {
                labels[idx(a, n)] = true;
            } else if labels.iter().all(|x| *x) {
                labels[idx(b, n)] = false;
            }
            let perm: Vec<u16> = perm.into_iter().take(n).collect();
            NearCase { bits, labels, perm }
        })
}
