//! Value + a-priori forward error bound ("running error analysis").
//!
//! The oracles evaluate the textbook formula in `f64` on the *exact* inputs linfa received and, in
//! parallel, a first-order bound `e` on how far a straightforward evaluation of the same formula in
//! the element type (unit roundoff `u` = 2^-24 for `f32`, 2^-53 for `f64`) can drift from the real
//! value, whatever the summation order. The comparison tolerance is `SLACK * e + FLOOR * u * |v|`
//! (see [`B::tol`]); it therefore adapts to the conditioning of each generated case instead of being
//! one global number: tight for well-conditioned data, loose (but still sound) for data with a large
//! offset relative to its spread.

pub const SLACK: f64 = 4.0;
pub const FLOOR: f64 = 32.0;
/// inflation of every first-order bound to cover the neglected second-order terms
const INFL: f64 = 1.0 + 1e-6;

#[derive(Clone, Copy, Debug)]
pub struct B {
    pub v: f64,
    pub e: f64,
}

#[derive(Clone, Copy, Debug)]
pub struct Ctx {
    /// unit roundoff of the element type
    pub u: f64,
}

pub const U32: f64 = 5.960464477539063e-8; // 2^-24
pub const U64: f64 = 1.1102230246251565e-16; // 2^-53

impl B {
    pub fn tol(&self, c: Ctx) -> f64 {
        SLACK * self.e + FLOOR * c.u * self.v.abs() + f64::MIN_POSITIVE
    }
    pub fn judgeable(&self) -> bool {
        self.v.is_finite() && self.e.is_finite()
    }
}

impl Ctx {
    pub fn lit(&self, x: f64) -> B {
        B { v: x, e: 0.0 }
    }
    /// a constant that is rounded to the element type once (e.g. `F::cast(1e-10)`)
    pub fn rounded(&self, x: f64) -> B {
        B { v: x, e: self.u * x.abs() }
    }
    fn fin(&self, v: f64, e: f64) -> B {
        B { v, e: (e + self.u * v.abs()) * INFL }
    }
    pub fn add(&self, a: B, b: B) -> B {
        self.fin(a.v + b.v, a.e + b.e)
    }
    pub fn sub(&self, a: B, b: B) -> B {
        self.fin(a.v - b.v, a.e + b.e)
    }
    pub fn mul(&self, a: B, b: B) -> B {
        self.fin(a.v * b.v, a.v.abs() * b.e + b.v.abs() * a.e + a.e * b.e)
    }
    pub fn sq(&self, a: B) -> B {
        self.mul(a, a)
    }
    pub fn div(&self, a: B, b: B) -> B {
        let q = a.v / b.v;
        if !(b.v.abs() > b.e) {
            return B { v: q, e: f64::INFINITY };
        }
        self.fin(q, (a.e + q.abs() * b.e) / (b.v.abs() - b.e))
    }
    pub fn abs(&self, a: B) -> B {
        B { v: a.v.abs(), e: a.e }
    }
    pub fn sqrt(&self, a: B) -> B {
        let v = a.v.max(0.0).sqrt();
        let lo = (a.v - a.e).max(0.0).sqrt();
        let hi = (a.v.max(0.0) + a.e).sqrt();
        self.fin(v, (v - lo).max(hi - v))
    }
    pub fn ln(&self, a: B) -> B {
        if !(a.v - a.e > 0.0) {
            return B { v: a.v.ln(), e: f64::INFINITY };
        }
        let v = a.v.ln();
        // libm's logf/log are faithful (< 1 ulp); 2u relative + the propagated input error
        B { v, e: (a.e / (a.v - a.e) + 2.0 * self.u * v.abs() + self.u * f64::MIN_POSITIVE) * INFL }
    }
    /// Sum in any order: each of the n-1 additions rounds a partial sum bounded by sum |v_i|.
    pub fn sum(&self, xs: &[B]) -> B {
        let v: f64 = xs.iter().map(|x| x.v).sum();
        let e: f64 = xs.iter().map(|x| x.e).sum();
        let mag: f64 = xs.iter().map(|x| x.v.abs() + x.e).sum();
        let n = xs.len().max(1) as f64;
        B { v, e: (e + (n - 1.0) * self.u * mag) * INFL }
    }
    pub fn mean(&self, xs: &[B]) -> B {
        self.div(self.sum(xs), self.lit(xs.len() as f64))
    }
    pub fn min(&self, a: B, b: B) -> B {
        B { v: a.v.min(b.v), e: a.e.max(b.e) }
    }
    pub fn max(&self, a: B, b: B) -> B {
        B { v: a.v.max(b.v), e: a.e.max(b.e) }
    }
}

/// NaN-aware comparison of a reported value with a bounded reference.
pub fn agrees(got: f64, want: B, c: Ctx) -> bool {
    if got.is_nan() || want.v.is_nan() {
        return got.is_nan() && want.v.is_nan();
    }
    if got == want.v {
        return true;
    }
    (got - want.v).abs() <= want.tol(c)
}

/// NaN-aware closeness of two reported values (metamorphic relations)
pub fn near(a: f64, b: f64, tol: f64) -> bool {
    a == b || (a.is_nan() && b.is_nan()) || (a - b).abs() <= tol
}
