//! (e) Pearson correlation coefficients: cov / (sigma sigma), upper-triangle order.

use crate::bound::{agrees, near, Ctx, B, U32, U64};
use linfa::dataset::DatasetBase;
use linfa::Float;
use ndarray::Array2;
use proptest::prelude::*;
use serde::{Deserialize, Serialize};
use vengine::gen::{gauss_matrix, perm_from_keys};
use vengine::{Obs, Tier};

#[derive(Debug, Clone, Serialize, Deserialize)]
pub struct CorrCase {
    pub f32: bool,
    /// n observations x p features
    pub data: Vec<Vec<f64>>,
    /// sort keys of the row permutation (empty => reversal)
    pub perm: Vec<u16>,
}

fn f64_of<F: Float>(x: F) -> f64 {
    num_traits::ToPrimitive::to_f64(&x).unwrap_or(f64::NAN)
}

fn reference(cols: &[Vec<f64>], ctx: Ctx) -> Vec<B> {
    let n = cols[0].len();
    let nm1 = ctx.lit((n - 1) as f64);
    let centred: Vec<Vec<B>> = cols
        .iter()
        .map(|c| {
            let xs: Vec<B> = c.iter().map(|v| ctx.lit(*v)).collect();
            let m = ctx.mean(&xs);
            xs.iter().map(|v| ctx.sub(*v, m)).collect()
        })
        .collect();
    let sd: Vec<B> = centred
        .iter()
        .map(|c| ctx.sqrt(ctx.div(ctx.sum(&c.iter().map(|v| ctx.sq(*v)).collect::<Vec<_>>()), nm1)))
        .collect();
    let mut out = vec![];
    for i in 0..cols.len() {
        for j in (i + 1)..cols.len() {
            let cov = ctx.div(
                ctx.sum(&centred[i].iter().zip(&centred[j]).map(|(a, b)| ctx.mul(*a, *b)).collect::<Vec<_>>()),
                nm1,
            );
            out.push(ctx.div(ctx.div(cov, sd[i]), sd[j]));
        }
    }
    out
}

fn run<F: Float>(c: &CorrCase, ctx: Ctx, obs: &mut Obs) {
    let n = c.data.len();
    let p = c.data.first().map(|r| r.len()).unwrap_or(0);
    if n < 3 || p < 2 || c.data.iter().any(|r| r.len() != p) {
        obs.skip("malformed_case");
        return;
    }
    let rec = Array2::from_shape_fn((n, p), |(i, j)| F::cast(c.data[i][j]));
    if rec.iter().any(|v| !v.is_finite()) {
        obs.skip("malformed_case");
        return;
    }
    let cols: Vec<Vec<f64>> = (0..p).map(|j| rec.column(j).iter().map(|v| f64_of(*v)).collect()).collect();
    if cols.iter().any(|c| c.iter().all(|v| *v == c[0])) {
        obs.skip("constant_column");
        return;
    }
    obs.class_if(p == 2, "features_2");
    obs.class_if(p >= 3, "features_3plus");
    let want = reference(&cols, ctx);
    // a column whose spread is at rounding level relative to its offset cannot be judged in this element type
    if want.iter().any(|w| !w.judgeable() || w.tol(ctx) > 0.25) {
        obs.skip("ill_conditioned_column");
        return;
    }
    let strong = want.iter().any(|w| w.v.abs() > 0.9);
    let negative = want.iter().any(|w| w.v < -0.1);
    obs.class_if(strong, "strongly_correlated_pair");
    obs.class_if(negative, "negative_coefficient");
    obs.nontrivial_if(p >= 3 || negative);

    let ds = DatasetBase::from(rec.clone());
    let Some(got) = obs.call("pearson_correlation", || ds.pearson_correlation().get_coeffs().to_vec()) else { return };
    if !obs.ensure(got.len() == want.len(), "pearson:count", || {
        format!("{} coefficients for {p} features, upper triangle has {}", got.len(), want.len())
    }) {
        return;
    }
    let mut k = 0;
    for i in 0..p {
        for j in (i + 1)..p {
            let g = f64_of(got[k]);
            obs.ensure(agrees(g, want[k], ctx), "pearson:coefficient", || {
                format!("coefficient {k} (features {i},{j}) is {g}, cov/(sd sd) = {} (+-{:e})", want[k].v, want[k].tol(ctx))
            });
            k += 1;
        }
    }

    let perm: Vec<usize> = if c.perm.is_empty() { (0..n).rev().collect() } else { perm_from_keys(&c.perm, n) };
    if perm.len() == n && perm.iter().all(|&i| i < n) {
        let rp = Array2::from_shape_fn((n, p), |(i, j)| rec[(perm[i], j)]);
        let dsp = DatasetBase::from(rp);
        if let Some(g2) = obs.call("pearson_correlation(permuted)", || dsp.pearson_correlation().get_coeffs().to_vec()) {
            if g2.len() == got.len() {
                for k in 0..got.len() {
                    let (a, b) = (f64_of(g2[k]), f64_of(got[k]));
                    obs.ensure(near(a, b, 2.0 * want[k].tol(ctx)), "perm:pearson", || {
                        format!("coefficient {k} changed under a permutation of the observations: {a} vs {b}")
                    });
                }
            }
        }
    }
}

pub fn check(c: &CorrCase, obs: &mut Obs) {
    if c.f32 {
        obs.class("f32");
        run::<f32>(c, Ctx { u: U32 }, obs)
    } else {
        obs.class("f64");
        run::<f64>(c, Ctx { u: U64 }, obs)
    }
}

pub fn strategy(_t: Tier) -> impl Strategy<Value = CorrCase> {
    (
        (3usize..=30, 2usize..=5, any::<bool>(), 0u8..4),
        gauss_matrix(30, 5),
        proptest::collection::vec(proptest::collection::vec(-5i32..=5, 5), 30),
        proptest::collection::vec((-3i32..=3, -2i32..=3, 0u8..4), 5),
        proptest::collection::vec(any::<u16>(), 30),
    )
        .prop_map(|((n, p, f32_, kind), g, ints, colspec, perm)| {
            let g: Vec<Vec<f64>> = g.into_iter().take(n).map(|r| r.into_iter().take(p).collect()).collect();
            let ints: Vec<Vec<i32>> = ints.into_iter().take(n).map(|r| r.into_iter().take(p).collect()).collect();
            let perm: Vec<u16> = perm.into_iter().take(n).collect();
            ((f32_, kind), g, ints, colspec, perm)
        })
        .prop_map(|((f32_, kind), g, ints, colspec, perm)| {
            let n = g.len();
            let p = g[0].len();
            let mut data = vec![vec![0.0; p]; n];
            for j in 0..p {
                let (mix, s, off) = colspec[j];
                let scale = 10f64.powi(s);
                let offset = [0.0, 1.0, -10.0, 100.0][off as usize % 4] * scale;
                for i in 0..n {
                    data[i][j] = match kind {
                        // small integers
                        0 => ints[i][j] as f64,
                        // independent gaussians, per-column scale and offset
                        1 => g[i][j] * scale + offset,
                        // columns correlated with column 0 (coefficient sign and strength from `mix`)
                        2 => (g[i][0] * mix as f64 + g[i][j]) * scale + offset,
                        // nearly collinear
                        _ => (g[i][0] * (mix as f64 + 0.5) + 0.01 * g[i][j]) * scale,
                    };
                }
                // non-constant column, by construction
                if (0..n).all(|i| data[i][j] == data[0][j]) {
                    data[1][j] += if kind == 0 { 1.0 } else { scale };
                }
            }
            CorrCase { f32: f32_, data, perm }
        })
}
