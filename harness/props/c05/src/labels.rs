//! (a) confusion matrix and everything derived from its cells.
//!
//! The cells of a `ConfusionMatrix` are private; the only public channel that shows them is the
//! `Debug` rendering (member header + one row per member), which is parsed here. If that rendering
//! ever changes shape the cells are reported as unobservable (class `debug_unparseable`; the random
//! sub-check then ends INCONCLUSIVE through its required class `cells_observed`) — never as a violation.

use linfa::dataset::{DatasetBase, Label};
use linfa::metrics::{ConfusionMatrix, ToConfusionMatrix};
use ndarray::{Array1, Array2};
use proptest::prelude::*;
use serde::{Deserialize, Serialize};
use std::fmt::Display;
use vengine::gen::{idx, perm_from_keys};
use vengine::{Obs, Tier};

/// tolerance for the f32 ratios derived from integer cells (DESIGN §1.5: 64 eps of the element type)
pub const RATIO_TOL: f64 = 64.0 * (f32::EPSILON as f64);

pub const KNOWN_OVO: &str = "ovo:diagonal-pairs-included";
pub const KNOWN_ARR_DS: &str = "cm:array-vs-dataset:transposed";

#[derive(Debug, Clone, Copy, Serialize, Deserialize, PartialEq, Eq)]
pub enum LabelTy {
    Bool,
    Usize,
    Str,
}

#[derive(Debug, Clone, Serialize, Deserialize)]
pub struct LabelCase {
    pub ty: LabelTy,
    /// symbols 0..5; mapped to labels of type `ty` by a non-monotone table
    pub pred: Vec<u8>,
    pub truth: Vec<u8>,
    /// F-beta parameter in halves (1 => 0.5, 2 => 1, 4 => 2)
    pub beta_halves: u8,
    /// sort keys of the common permutation (empty => reversal)
    pub perm: Vec<u16>,
}

const USIZE_TABLE: [usize; 6] = [7, 3, 11, 0, 5, 19];
const STR_TABLE: [&str; 6] = ["b", "a", "ab", "B", "10", "zz-long-label"];

fn as_usize(s: u8) -> usize {
    USIZE_TABLE[(s as usize).min(5)]
}
fn as_string(s: u8) -> String {
    STR_TABLE[(s as usize).min(5)].to_string()
}

// ------------------------------------------------------------------------------------------------
// reference

pub struct Reference {
    pub members: Vec<String>,
    /// cells[i][j] = #{receiver label = class i, argument label = class j}
    pub cells: Vec<Vec<f64>>,
}

fn reference<L: Ord + Clone + Display>(pred: &[L], truth: &[L]) -> Reference {
    let mut classes: Vec<L> = pred.iter().chain(truth.iter()).cloned().collect();
    classes.sort();
    classes.dedup();
    if classes.len() == 2 {
        classes.reverse();
    }
    let k = classes.len();
    let mut cells = vec![vec![0.0; k]; k];
    for (p, t) in pred.iter().zip(truth.iter()) {
        let i = classes.iter().position(|c| c == p);
        let j = classes.iter().position(|c| c == t);
        if let (Some(i), Some(j)) = (i, j) {
            cells[i][j] += 1.0;
        }
    }
    Reference { members: classes.iter().map(|c| c.to_string()).collect(), cells }
}

fn total(c: &[Vec<f64>]) -> f64 {
    c.iter().map(|r| r.iter().sum::<f64>()).sum()
}
fn row_sum(c: &[Vec<f64>], i: usize) -> f64 {
    c[i].iter().sum()
}
fn col_sum(c: &[Vec<f64>], j: usize) -> f64 {
    c.iter().map(|r| r[j]).sum()
}
fn trace(c: &[Vec<f64>]) -> f64 {
    (0..c.len()).map(|i| c[i][i]).sum()
}

/// documented one-vs-all matrix of class i: [[tp, fp], [fn, tn]]
fn one_vs_all(c: &[Vec<f64>], i: usize) -> Vec<Vec<f64>> {
    let tp = c[i][i];
    let fp = row_sum(c, i) - tp;
    let fnn = col_sum(c, i) - tp;
    let tn = total(c) - tp - fp - fnn;
    vec![vec![tp, fp], vec![fnn, tn]]
}

/// documented: binary => c00 / (c00 + c10); otherwise macro average over the one-vs-all matrices
fn precision(c: &[Vec<f64>]) -> f64 {
    if c.len() == 2 {
        c[0][0] / (c[0][0] + c[1][0])
    } else {
        (0..c.len()).map(|i| precision(&one_vs_all(c, i))).sum::<f64>() / c.len() as f64
    }
}
/// documented: binary => c00 / (c00 + c01); otherwise macro average
fn recall(c: &[Vec<f64>]) -> f64 {
    if c.len() == 2 {
        c[0][0] / (c[0][0] + c[0][1])
    } else {
        (0..c.len()).map(|i| recall(&one_vs_all(c, i))).sum::<f64>() / c.len() as f64
    }
}
fn f_beta(c: &[Vec<f64>], beta: f64) -> f64 {
    let (p, r) = (precision(c), recall(c));
    (1.0 + beta * beta) * (p * r) / (beta * beta * p + r)
}
/// multi-class Matthews coefficient in closed form (Gorodkin's R_K):
/// (n tr(C) - sum_k row_k col_k) / sqrt((n^2 - sum row_k^2)(n^2 - sum col_k^2))
fn mcc(c: &[Vec<f64>]) -> f64 {
    let n = total(c);
    let k = c.len();
    let num = n * trace(c) - (0..k).map(|i| row_sum(c, i) * col_sum(c, i)).sum::<f64>();
    let dx = n * n - (0..k).map(|i| row_sum(c, i).powi(2)).sum::<f64>();
    let dy = n * n - (0..k).map(|i| col_sum(c, i).powi(2)).sum::<f64>();
    num / dx.sqrt() / dy.sqrt()
}
/// the classical binary form, used as a cross-check of the closed form above
fn mcc_binary(c: &[Vec<f64>]) -> f64 {
    let (tp, fp, fnn, tn) = (c[0][0], c[0][1], c[1][0], c[1][1]);
    (tp * tn - fp * fnn) / ((tp + fp) * (tp + fnn) * (tn + fp) * (tn + fnn)).sqrt()
}

fn ratio_eq(got: f32, want: f64) -> bool {
    let g = got as f64;
    if g.is_nan() || want.is_nan() {
        return g.is_nan() && want.is_nan();
    }
    if g == want {
        return true;
    }
    g.is_finite() && want.is_finite() && (g - want).abs() <= RATIO_TOL * want.abs().max(1.0)
}

// ------------------------------------------------------------------------------------------------
// observation through Debug

pub fn parse_cm(s: &str) -> Option<(Vec<String>, Vec<Vec<f64>>)> {
    let lines: Vec<&str> = s.lines().filter(|l| !l.trim().is_empty()).collect();
    let header: Vec<&str> = lines.first()?.split(" | ").collect();
    if header.first()?.trim() != "classes" {
        return None;
    }
    let members: Vec<String> = header[1..].iter().map(|m| m.trim().to_string()).collect();
    let k = members.len();
    if lines.len() != k + 1 {
        return None;
    }
    let mut cells = Vec::with_capacity(k);
    for (r, line) in lines[1..].iter().enumerate() {
        let parts: Vec<&str> = line.split(" | ").collect();
        if parts.len() != k + 1 || parts[0].trim() != members[r] {
            return None;
        }
        let mut row = Vec::with_capacity(k);
        for p in &parts[1..] {
            let v: f64 = p.trim().parse().ok()?;
            row.push(v);
        }
        cells.push(row);
    }
    Some((members, cells))
}

fn transpose(c: &[Vec<f64>]) -> Vec<Vec<f64>> {
    let k = c.len();
    (0..k).map(|i| (0..k).map(|j| c[j][i]).collect()).collect()
}

struct Scalars {
    accuracy: f32,
    precision: f32,
    recall: f32,
    f_beta: f32,
    f1: f32,
    mcc: f32,
}

fn scalars<L>(cm: &ConfusionMatrix<L>, beta: f32) -> Scalars {
    Scalars {
        accuracy: cm.accuracy(),
        precision: cm.precision(),
        recall: cm.recall(),
        f_beta: cm.f_score(beta),
        f1: cm.f1_score(),
        mcc: cm.mcc(),
    }
}

fn bits(s: &Scalars) -> [u32; 6] {
    [
        s.accuracy.to_bits(),
        s.precision.to_bits(),
        s.recall.to_bits(),
        s.f_beta.to_bits(),
        s.f1.to_bits(),
        s.mcc.to_bits(),
    ]
}

fn check_typed<L: Label + Display>(pred: Vec<L>, truth: Vec<L>, beta: f64, perm: &[usize], obs: &mut Obs) {
    let n = pred.len();
    let want = reference(&pred, &truth);
    let k = want.cells.len();
    let pred_only = pred.iter().any(|p| !truth.contains(p));
    let truth_only = truth.iter().any(|t| !pred.contains(t));
    obs.class_if(k == 1, "classes_1");
    obs.class_if(k == 2, "classes_2");
    obs.class_if(k >= 3, "classes_3plus");
    obs.class_if(pred_only, "label_only_in_prediction");
    obs.class_if(truth_only, "label_only_in_truth");
    obs.class_if(pred == truth, "all_correct");
    obs.nontrivial_if(k >= 3 || pred_only || truth_only);

    let pa = Array1::from(pred.clone());
    let ta = Array1::from(truth.clone());
    let cm = match obs.call("confusion_matrix", || pa.confusion_matrix(&ta)) {
        Some(Ok(cm)) => cm,
        Some(Err(e)) => {
            obs.fail("cm:error", format!("confusion_matrix on equal-length vectors returned {e}"));
            return;
        }
        None => return,
    };

    // ---- cells
    let shown = format!("{:?}", cm);
    let parsed = parse_cm(&shown);
    match &parsed {
        None => obs.class("debug_unparseable"),
        Some((members, cells)) => {
            obs.class("cells_observed");
            obs.ensure(*members == want.members, "cm:members", || {
                format!("members {:?}, sorted union (reversed when binary) is {:?}", members, want.members)
            });
            if *members == want.members {
                obs.ensure(*cells == want.cells, "cm:cells", || {
                    format!("cells {:?}, pair counts are {:?} (members {:?})", cells, want.cells, want.members)
                });
            }
            obs.ensure(total(cells) == n as f64, "cm:cell-sum", || {
                format!("cells sum to {}, number of samples is {n}", total(cells))
            });
        }
    }

    // ---- scalar scores = documented functions of the (reference) cells
    let c = &want.cells;
    let got = obs.call("scores", || scalars(&cm, beta as f32));
    if let Some(got) = &got {
        let equal = pred.iter().zip(truth.iter()).filter(|(a, b)| a == b).count() as f64;
        obs.ensure(ratio_eq(got.accuracy, equal / n as f64), "cm:accuracy", || {
            format!("accuracy {}, fraction of equal labels {}", got.accuracy, equal / n as f64)
        });
        obs.ensure(ratio_eq(got.precision, precision(c)), "cm:precision", || {
            format!("precision {}, documented function of the cells {} (cells {:?})", got.precision, precision(c), c)
        });
        obs.ensure(ratio_eq(got.recall, recall(c)), "cm:recall", || {
            format!("recall {}, documented function of the cells {} (cells {:?})", got.recall, recall(c), c)
        });
        obs.ensure(ratio_eq(got.f_beta, f_beta(c, beta)), "cm:f-beta", || {
            format!("f_score({beta}) {}, (1+b^2)pr/(b^2 p + r) = {} (cells {:?})", got.f_beta, f_beta(c, beta), c)
        });
        obs.ensure(ratio_eq(got.f1, f_beta(c, 1.0)), "cm:f1", || {
            format!("f1_score {}, F-beta with beta=1 is {} (cells {:?})", got.f1, f_beta(c, 1.0), c)
        });
        obs.ensure(ratio_eq(got.mcc, mcc(c)), "cm:mcc", || {
            format!("mcc {}, Matthews coefficient of the cells {} (cells {:?})", got.mcc, mcc(c), c)
        });
        if k == 2 {
            // oracle self-check: closed form == classical binary form
            let (a, b) = (mcc(c), mcc_binary(c));
            if !(a.is_nan() && b.is_nan()) && !vengine::num::close(a, b, 1e-12, 1e-12) {
                obs.fail("oracle:mcc-forms-disagree", format!("reference formulas disagree: {a} vs {b}"));
            }
        }
        obs.class_if(got.precision.is_nan() || got.recall.is_nan(), "nan_score");
    }

    // ---- one-vs-all
    if let Some(ova) = obs.call("split_one_vs_all", || cm.split_one_vs_all()) {
        obs.ensure(ova.len() == k, "ova:count", || format!("{} one-vs-all matrices for {k} classes", ova.len()));
        for (i, m) in ova.iter().enumerate().take(k) {
            if let Some((members, cells)) = parse_cm(&format!("{:?}", m)) {
                let w = one_vs_all(c, i);
                obs.ensure(members == ["true", "false"], "ova:members", || format!("members {:?}", members));
                obs.ensure(cells == w, "ova:cells", || {
                    format!("class {} ({}): {:?}, documented [[tp,fp],[fn,tn]] = {:?} (cells {:?})", i, want.members[i], cells, w, c)
                });
            }
        }
    }

    // ---- one-vs-one: documented N(N-1)/2 matrices [[c_ii,c_ij],[c_ji,c_jj]], i<j
    if let Some(ovo) = obs.call("split_one_vs_one", || cm.split_one_vs_one()) {
        let got: Option<Vec<Vec<Vec<f64>>>> =
            ovo.iter().map(|m| parse_cm(&format!("{:?}", m)).map(|x| x.1)).collect();
        let pair = |i: usize, j: usize| vec![vec![c[i][i], c[i][j]], vec![c[j][i], c[j][j]]];
        let mut strict = vec![];
        let mut with_diag = vec![];
        for i in 0..k {
            for j in i..k {
                if j > i {
                    strict.push(pair(i, j));
                }
                with_diag.push(pair(i, j));
            }
        }
        match got {
            None => {
                // cells unobservable: only the documented count can be judged
                if ovo.len() != strict.len() {
                    if ovo.len() == with_diag.len() {
                        obs.fail(KNOWN_OVO, format!("{} matrices for {k} classes, documented N(N-1)/2 = {}", ovo.len(), strict.len()));
                    } else {
                        obs.fail("ovo:count", format!("{} matrices for {k} classes, documented N(N-1)/2 = {}", ovo.len(), strict.len()));
                    }
                }
            }
            Some(g) => {
                if g == strict {
                } else if g == with_diag {
                    obs.fail(
                        KNOWN_OVO,
                        format!(
                            "split_one_vs_one returned {} matrices for {k} classes (pairs i<=j, the i==j ones being [[c_ii,c_ii],[c_ii,c_ii]]); documented N(N-1)/2 = {} (pairs i<j)",
                            g.len(),
                            strict.len()
                        ),
                    );
                } else if g.len() != strict.len() {
                    obs.fail("ovo:count", format!("{} matrices for {k} classes, documented N(N-1)/2 = {}; got {:?}", g.len(), strict.len(), g));
                } else {
                    obs.fail("ovo:cells", format!("one-vs-one matrices {:?}, documented {:?} (cells {:?})", g, strict, c));
                }
            }
        }
    }

    // ---- one common permutation changes nothing (integer counts: exact)
    let pp: Vec<L> = perm.iter().filter_map(|&i| pred.get(i).cloned()).collect();
    let tp: Vec<L> = perm.iter().filter_map(|&i| truth.get(i).cloned()).collect();
    if pp.len() == n {
        let (ppa, tpa) = (Array1::from(pp), Array1::from(tp));
        if let Some(Ok(cm2)) = obs.call("confusion_matrix(permuted)", || ppa.confusion_matrix(&tpa)) {
            obs.ensure(format!("{:?}", cm2) == shown, "perm:cm", || {
                format!("confusion matrix changed under a common permutation: {shown} vs {:?}", cm2)
            });
            if let (Some(a), Some(b)) = (&got, obs.call("scores(permuted)", || scalars(&cm2, beta as f32))) {
                obs.ensure(bits(a) == bits(&b), "perm:scores", || "a score changed under a common permutation".into());
            }
        }
    }

    // ---- argument passed by value, dataset receivers / arguments
    if let Some(Ok(cm3)) = obs.call("confusion_matrix(by value)", || pa.confusion_matrix(ta.clone())) {
        obs.ensure(format!("{:?}", cm3) == shown, "cm:by-value-form", || {
            format!("array argument by value gives {:?}, by reference {shown}", cm3)
        });
    }
    let records = Array2::<f64>::zeros((n, 1));
    let dp = DatasetBase::new(records.clone(), pa.clone());
    let dt = DatasetBase::new(records, ta.clone());
    if let Some(Ok(cm4)) = obs.call("confusion_matrix(dataset,dataset)", || dp.confusion_matrix(&dt)) {
        obs.ensure(format!("{:?}", cm4) == shown, "cm:dataset-vs-dataset", || {
            format!("prediction dataset vs truth dataset gives {:?}, the arrays give {shown}", cm4)
        });
    }
    if let Some(Ok(cm5)) = obs.call("confusion_matrix(array,dataset)", || pa.confusion_matrix(&dt)) {
        let s5 = format!("{:?}", cm5);
        if s5 != shown {
            let transposed = match (parse_cm(&s5), &parsed) {
                (Some((m5, c5)), Some((m, cc))) => m5 == *m && c5 == transpose(cc),
                _ => false,
            };
            if transposed {
                obs.fail(
                    KNOWN_ARR_DS,
                    format!(
                        "prediction.confusion_matrix(&truth_dataset) is the transpose of prediction.confusion_matrix(&truth_array): {s5} vs {shown} (the impl calls ground_truth.confusion_matrix(prediction))"
                    ),
                );
            } else {
                obs.fail("cm:array-vs-dataset", format!("prediction array vs truth dataset gives {s5}, the arrays give {shown}"));
            }
        }
    }
}

pub fn check(c: &LabelCase, obs: &mut Obs) {
    let n = c.pred.len();
    if n == 0 || c.truth.len() != n {
        obs.skip("malformed_case");
        return;
    }
    let beta = c.beta_halves.max(1) as f64 / 2.0;
    let perm: Vec<usize> = if c.perm.is_empty() {
        (0..n).rev().collect()
    } else {
        perm_from_keys(&c.perm, n)
    };
    match c.ty {
        LabelTy::Bool => {
            obs.class("type_bool");
            check_typed(
                c.pred.iter().map(|&s| s != 0).collect(),
                c.truth.iter().map(|&s| s != 0).collect(),
                beta,
                &perm,
                obs,
            )
        }
        LabelTy::Usize => {
            obs.class("type_usize");
            check_typed(
                c.pred.iter().map(|&s| as_usize(s)).collect(),
                c.truth.iter().map(|&s| as_usize(s)).collect(),
                beta,
                &perm,
                obs,
            )
        }
        LabelTy::Str => {
            obs.class("type_string");
            check_typed(
                c.pred.iter().map(|&s| as_string(s)).collect(),
                c.truth.iter().map(|&s| as_string(s)).collect(),
                beta,
                &perm,
                obs,
            )
        }
    }
}

// ------------------------------------------------------------------------------------------------
// generators

fn vectors(alpha: u8, len: usize) -> Vec<Vec<u8>> {
    let mut out = vec![vec![]];
    for _ in 0..len {
        let mut next = Vec::with_capacity(out.len() * alpha as usize);
        for v in &out {
            for s in 0..alpha {
                let mut w = v.clone();
                w.push(s);
                next.push(w);
            }
        }
        out = next;
    }
    out
}

/// Every pair of label vectors over an alphabet of 2 symbols up to length `max2` and of 3 symbols
/// up to length `max3`; the label type and beta rotate deterministically over the pairs.
pub fn all_pairs(max2: usize, max3: usize) -> Vec<LabelCase> {
    let mut out = vec![];
    let mut counter = 0usize;
    for (alpha, max) in [(2u8, max2), (3u8, max3)] {
        for len in 1..=max {
            let vs = vectors(alpha, len);
            for p in &vs {
                for t in &vs {
                    let ty = if alpha == 2 {
                        [LabelTy::Bool, LabelTy::Usize, LabelTy::Str][counter % 3]
                    } else {
                        [LabelTy::Usize, LabelTy::Str][counter % 2]
                    };
                    out.push(LabelCase {
                        ty,
                        pred: p.clone(),
                        truth: t.clone(),
                        beta_halves: [2u8, 1, 4][(counter / 3) % 3],
                        perm: vec![],
                    });
                    counter += 1;
                }
            }
        }
    }
    out
}

pub fn enum_cases(t: Tier) -> Vec<LabelCase> {
    // quick: 5 460 + 66 429 pairs; thorough adds the 531 441 pairs of length 6 over 3 symbols
    all_pairs(6, t.pick(5, 6))
}

pub fn strategy(t: Tier) -> impl Strategy<Value = LabelCase> {
    let max_len = t.pick(60usize, 60usize);
    (
        prop_oneof![Just(LabelTy::Bool), Just(LabelTy::Usize), Just(LabelTy::Str)],
        1usize..=max_len,
        (1u8..=5, 1u8..=5, 0u8..=4, 0u8..=100),
        proptest::collection::vec((any::<u16>(), any::<u16>(), 0u8..=100), max_len),
        prop_oneof![Just(1u8), Just(2u8), Just(4u8), Just(3u8)],
        proptest::collection::vec(any::<u16>(), max_len),
    )
        .prop_map(|(ty, n, (ka, kb, off, agree), raw, beta_halves, perm)| {
            // prediction symbols from off.., truth symbols from 0..kb: the two label sets overlap only partly
            let (ka, kb, off) = if ty == LabelTy::Bool { (ka.min(2), kb.min(2), off.min(1)) } else { (ka, kb, off) };
            let cap = if ty == LabelTy::Bool { 2u8 } else { 5u8 };
            let mut pred = vec![];
            let mut truth = vec![];
            for (a, b, coin) in raw.into_iter().take(n) {
                let t = idx(b, kb as usize) as u8;
                let p = if coin < agree { t } else { ((idx(a, ka as usize) as u8) + off).min(cap - 1) };
                pred.push(p);
                truth.push(t);
            }
            let perm: Vec<u16> = perm.into_iter().take(n).collect();
            LabelCase { ty, pred, truth, beta_halves, perm }
        })
}
