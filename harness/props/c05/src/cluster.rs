//! (d) silhouette score by its O(n^2) definition, clusters of at least two distinct points.

use crate::bound::{agrees, near, Ctx, B, U32, U64};
use linfa::dataset::{AsSingleTargets, CountedTargets, DatasetBase, Label, Labels};
use linfa::metrics::SilhouetteScore;
use linfa::Float;
use ndarray::{Array1, Array2, ArrayBase, Data, Ix2};
use proptest::prelude::*;
use serde::{Deserialize, Serialize};
use vengine::gen::{gauss_matrix, perm_from_keys};
use vengine::{Obs, Tier};

#[derive(Debug, Clone, Serialize, Deserialize)]
pub struct SilCase {
    pub f32: bool,
    /// n points x d coordinates
    pub points: Vec<Vec<f64>>,
    /// cluster id per point (0..k), mapped to usize labels by a non-monotone table
    pub cluster: Vec<u8>,
    /// sort keys of the row permutation used for the invariance relation (empty => reversal)
    pub perm: Vec<u16>,
    /// bit c set => cluster id c is kept by the `with_labels(subset)` history
    #[serde(default)]
    pub subset_mask: u8,
    /// split ratio of the `split_with_ratio` history, in sixteenths (clamped to 1..=15)
    #[serde(default)]
    pub ratio_16: u8,
}

const LABEL_TABLE: [usize; 4] = [5, 2, 9, 0];

fn f64_of<F: Float>(x: F) -> f64 {
    num_traits::ToPrimitive::to_f64(&x).unwrap_or(f64::NAN)
}

fn reference(pts: &[Vec<f64>], cl: &[usize], ctx: Ctx) -> B {
    let n = pts.len();
    let dist = |i: usize, j: usize| -> B {
        let sq: Vec<B> = pts[i].iter().zip(&pts[j]).map(|(a, b)| ctx.sq(ctx.sub(ctx.lit(*a), ctx.lit(*b)))).collect();
        ctx.sqrt(ctx.sum(&sq))
    };
    let ids: Vec<usize> = {
        let mut v = cl.to_vec();
        v.sort_unstable();
        v.dedup();
        v
    };
    let mut per_sample = Vec::with_capacity(n);
    for i in 0..n {
        let mut a = None;
        let mut b: Option<B> = None;
        for id in &ids {
            let members: Vec<usize> = (0..n).filter(|&j| cl[j] == *id && j != i).collect();
            if members.is_empty() {
                continue;
            }
            let m = ctx.mean(&members.iter().map(|&j| dist(i, j)).collect::<Vec<_>>());
            if *id == cl[i] {
                a = Some(m);
            } else {
                b = Some(match b {
                    None => m,
                    Some(v) => ctx.min(v, m),
                });
            }
        }
        let (Some(a), Some(b)) = (a, b) else {
            return B { v: f64::NAN, e: f64::INFINITY };
        };
        per_sample.push(ctx.div(ctx.sub(b, a), ctx.max(a, b)));
    }
    ctx.mean(&per_sample)
}


/// Quantifier of the property on concrete samples: two or more clusters, each with >= 2 distinct points.
fn within_quantifier(pts: &[Vec<f64>], cl: &[usize]) -> bool {
    let mut ids = cl.to_vec();
    ids.sort_unstable();
    ids.dedup();
    if ids.len() < 2 {
        return false;
    }
    ids.iter().all(|id| {
        let members: Vec<usize> = (0..pts.len()).filter(|&j| cl[j] == *id).collect();
        members.len() >= 2 && members.iter().any(|&j| pts[j] != pts[members[0]])
    })
}

/// A dataset reached through some construction history: its score must be the textbook value of the
/// samples it actually holds (records and targets are read back from the dataset itself).
fn judge_derived<F, L, D, T>(
    ds: &DatasetBase<ArrayBase<D, Ix2>, T>,
    key: impl Fn(&L) -> usize,
    ctx: Ctx,
    history: &'static str,
    obs: &mut Obs,
) where
    F: Float,
    L: Label,
    D: Data<Elem = F>,
    T: AsSingleTargets<Elem = L> + Labels<Elem = L>,
{
    let pts: Vec<Vec<f64>> = ds.records().rows().into_iter().map(|r| r.iter().map(|v| f64_of(*v)).collect()).collect();
    let cl: Vec<usize> = ds.as_single_targets().iter().map(|l| key(l)).collect();
    if pts.len() != cl.len() || !within_quantifier(&pts, &cl) {
        obs.class("derived_dataset_outside_quantifier");
        return;
    }
    let want = reference(&pts, &cl, ctx);
    if !want.judgeable() {
        return;
    }
    obs.class(history);
    match obs.call(history, || ds.silhouette_score()) {
        Some(Ok(v)) => {
            let v = f64_of(v);
            obs.ensure(agrees(v, want, ctx), "silhouette:derived-dataset", || {
                format!(
                    "{history}: silhouette_score {v}, textbook value of the {} samples the dataset holds is {} (+-{:e})",
                    pts.len(),
                    want.v,
                    want.tol(ctx)
                )
            });
        }
        Some(Err(e)) => obs.fail("silhouette:error", format!("{history}: silhouette_score returned {e}")),
        None => {}
    }
}

fn run<F: Float>(c: &SilCase, ctx: Ctx, obs: &mut Obs) {
    let n = c.points.len();
    let d = c.points.first().map(|r| r.len()).unwrap_or(0);
    if n < 4 || d == 0 || c.cluster.len() != n || c.points.iter().any(|r| r.len() != d) || c.cluster.iter().any(|&k| k > 3) {
        obs.skip("malformed_case");
        return;
    }
    let rec = Array2::from_shape_fn((n, d), |(i, j)| F::cast(c.points[i][j]));
    if rec.iter().any(|v| !v.is_finite()) {
        obs.skip("malformed_case");
        return;
    }
    // what linfa sees, as exact f64
    let pts: Vec<Vec<f64>> = rec.rows().into_iter().map(|r| r.iter().map(|v| f64_of(*v)).collect()).collect();
    let mut ids = c.cluster.clone();
    ids.sort_unstable();
    ids.dedup();
    // quantifier: two or more clusters, each with at least two distinct points
    let mut sizes = vec![];
    for id in &ids {
        let members: Vec<usize> = (0..n).filter(|&j| c.cluster[j] == *id).collect();
        let distinct = members.iter().any(|&j| pts[j] != pts[members[0]]);
        if members.len() < 2 || !distinct {
            obs.skip("cluster_without_two_distinct_points");
            return;
        }
        sizes.push(members.len());
    }
    if ids.len() < 2 {
        obs.skip("single_cluster");
        return;
    }
    let duplicates = (0..n).any(|i| (0..i).any(|j| pts[i] == pts[j]));
    let unequal = sizes.iter().any(|s| *s != sizes[0]);
    obs.class_if(ids.len() == 2, "clusters_2");
    obs.class_if(ids.len() >= 3, "clusters_3plus");
    obs.class_if(duplicates, "duplicate_points");
    obs.class_if(unequal, "unequal_cluster_sizes");
    obs.class_if(d == 1, "dim_1");
    obs.class_if(d >= 2, "dim_2plus");
    obs.nontrivial_if(ids.len() >= 3 || unequal || duplicates);

    let cl_ids: Vec<usize> = c.cluster.iter().map(|&k| k as usize).collect();
    let want = reference(&pts, &cl_ids, ctx);
    if !want.judgeable() {
        obs.skip("reference_not_judgeable");
        return;
    }
    obs.class_if(want.v < 0.0, "negative_score");
    let labels: Array1<usize> = c.cluster.iter().map(|&k| LABEL_TABLE[k as usize]).collect();
    let ds = DatasetBase::new(rec.clone(), labels.clone());
    let got = match obs.call("silhouette_score", || ds.silhouette_score()) {
        Some(Ok(v)) => f64_of(v),
        Some(Err(e)) => {
            obs.fail("silhouette:error", format!("silhouette_score returned {e}"));
            return;
        }
        None => return,
    };
    obs.ensure(agrees(got, want, ctx), "silhouette:value", || {
        format!("silhouette_score {got}, mean of (b-a)/max(a,b) over the samples is {} (+-{:e})", want.v, want.tol(ctx))
    });


    // ---- construction histories: the score belongs to the samples, not to how the dataset was built
    let ident = |l: &usize| *l;
    judge_derived(&ds.view(), ident, ctx, "history_view", obs);
    let all_labels: Vec<usize> = ids.iter().map(|&k| LABEL_TABLE[k as usize]).collect();
    if let Some(wl) = obs.call("with_labels(all)", || ds.with_labels(&all_labels)) {
        judge_derived(&wl, ident, ctx, "history_with_labels_all", obs);
        judge_derived(&wl.view(), ident, ctx, "history_with_labels_all_then_view", obs);
    }
    let subset: Vec<usize> = ids.iter().filter(|&&k| c.subset_mask & (1 << k) != 0).map(|&k| LABEL_TABLE[k as usize]).collect();
    if subset.len() >= 2 && subset.len() < ids.len() {
        if let Some(wl) = obs.call("with_labels(subset)", || ds.with_labels(&subset)) {
            judge_derived(&wl, ident, ctx, "history_with_labels_subset", obs);
        }
        if let Some(wl) = obs.call("view().with_labels(subset)", || ds.view().with_labels(&subset)) {
            judge_derived(&wl, ident, ctx, "history_view_then_with_labels_subset", obs);
        }
    }
    let counted = DatasetBase::new(rec.clone(), CountedTargets::new(labels.clone()));
    judge_derived(&counted, ident, ctx, "history_counted_targets_new", obs);
    let ratio = c.ratio_16.clamp(1, 15) as f32 / 16.0;
    if let Some((first, second)) = obs.call("split_with_ratio(owned)", || ds.clone().split_with_ratio(ratio)) {
        judge_derived(&first, ident, ctx, "history_split_first_part", obs);
        judge_derived(&second, ident, ctx, "history_split_second_part", obs);
    }
    let dv = ds.view();
    if let Some((first, second)) = obs.call("split_with_ratio(view)", || dv.split_with_ratio(ratio)) {
        judge_derived(&first, ident, ctx, "history_view_split_first_part", obs);
        judge_derived(&second, ident, ctx, "history_view_split_second_part", obs);
    }
    if let Some(Ok(parts)) = obs.call("one_vs_all", || ds.one_vs_all()) {
        for (_, part) in parts.iter() {
            judge_derived(part, |b: &bool| *b as usize, ctx, "history_one_vs_all", obs);
        }
    }

    let perm: Vec<usize> = if c.perm.is_empty() { (0..n).rev().collect() } else { perm_from_keys(&c.perm, n) };
    if perm.len() == n && perm.iter().all(|&i| i < n) {
        let rp = Array2::from_shape_fn((n, d), |(i, j)| rec[(perm[i], j)]);
        let lp: Array1<usize> = perm.iter().map(|&i| labels[i]).collect();
        let dsp = DatasetBase::new(rp, lp);
        if let Some(Ok(v)) = obs.call("silhouette_score(permuted)", || dsp.silhouette_score()) {
            let v = f64_of(v);
            obs.ensure(near(v, got, 2.0 * want.tol(ctx)), "perm:silhouette", || {
                format!("silhouette_score changed under a permutation of the samples: {v} vs {got}")
            });
        }
    }
}

pub fn check(c: &SilCase, obs: &mut Obs) {
    if c.f32 {
        obs.class("f32");
        run::<f32>(c, Ctx { u: U32 }, obs)
    } else {
        obs.class("f64");
        run::<f64>(c, Ctx { u: U64 }, obs)
    }
}

pub fn strategy(_t: Tier) -> impl Strategy<Value = SilCase> {
    // k clusters with sizes >= 2, n = sum <= 30; full-size raw material, truncated (shrinks well)
    (
        (2usize..=4, 1usize..=3, any::<bool>(), 0u8..3, 0u8..16, 1u8..=15),
        proptest::collection::vec(0usize..=13, 4),
        proptest::collection::vec(proptest::collection::vec(-4i32..=4, 3), 4),
        gauss_matrix(30, 3),
        proptest::collection::vec(proptest::collection::vec(-2i32..=2, 3), 30),
        proptest::collection::vec(any::<u16>(), 30),
        proptest::collection::vec(any::<u16>(), 30),
    )
        .prop_map(|((k, d, f32_, kind, mask, ratio), extra, centres, g, li, order, perm)| {
            let max_extra = 30 / k - 2;
            let extra: Vec<usize> = extra.into_iter().take(k).map(|e| e.min(max_extra)).collect();
            let n: usize = extra.iter().map(|e| e + 2).sum();
            let order: Vec<u16> = order.into_iter().take(n).collect();
            let perm: Vec<u16> = perm.into_iter().take(n).collect();
            ((d, f32_, kind, mask, ratio, extra, centres), g, li, order, perm)
        })
        .prop_map(|((d, f32_, kind, mask, ratio, extra, centres), g, li, order, perm)| {
            let mut points = vec![];
            let mut cluster = vec![];
            let mut row = 0usize;
            for (k, e) in extra.iter().enumerate() {
                let first = points.len();
                for _ in 0..(e + 2) {
                    let p: Vec<f64> = (0..d)
                        .map(|j| match kind {
                            // lattice: duplicates and exact ties
                            0 => (centres[k][j] + li[row][j]) as f64,
                            // separated blobs
                            1 => centres[k][j] as f64 * 3.0 + g[row][j],
                            // overlapping clouds
                            _ => g[row][j] * 2.0 + centres[k][j] as f64 * 0.25,
                        })
                        .collect();
                    points.push(p);
                    cluster.push(k as u8);
                    row += 1;
                }
                // at least two distinct points per cluster, by construction
                if (first..points.len()).all(|i| points[i] == points[first]) {
                    points[first + 1][0] += 1.0;
                }
            }
            // interleave the clusters
            let ord = perm_from_keys(&order, points.len());
            let points = ord.iter().map(|&i| points[i].clone()).collect();
            let cluster = ord.iter().map(|&i| cluster[i]).collect();
            SilCase { f32: f32_, points, cluster, perm, subset_mask: mask, ratio_16: ratio }
        })
}
