//! C05 — stub (to be written; see /verif/harness/AUTHORING.md and DESIGN.md §3 C05)
use vengine::Property;

pub fn property() -> Property {
    Property { id: "C05", rule: "", assumptions: vec![], subs: vec![] }
}
