//! C05 — every evaluation metric equals its definition recomputed from first principles.
//!
//! Sub-checks (heaviest first):
//!   labels_exhaustive   every pair of label vectors over 2 symbols (length <= 6) and 3 symbols (length <= 5 / 6)
//!   labels_random       random label vectors, length <= 60, alphabets <= 5, label sets differing between the sides
//!   regression          max/mean/median absolute error, MSE, MSLE, MAPE, R2, explained variance; f32/f64; 1-D, 2-D, datasets
//!   roc_random          ROC curve, AUC (= Mann-Whitney), log-loss on grid / boundary / fine scores
//!   roc_exhaustive      every (score, label) vector over scores {-0.0, +0.0, 1/2, 1}, length <= 5 / 6 (7 without -0.0)
//!   roc_near_ties       raw f32 scores a few ulps apart at magnitudes 1e-6 .. 1 (and next to 0 and 1)
//!   roc_adjacent_exhaustive  every vector over {base, base+1ulp, base+2ulp} x label for eleven bases
//!   silhouette          O(n^2) definition, clusters of >= 2 distinct points, plain and derived datasets
//!   pearson             cov/(sd sd), upper-triangle order
//! Every sub-check also applies one common permutation and demands unchanged scores.

pub mod bound;
pub mod cluster;
pub mod corr;
pub mod labels;
pub mod regress;
pub mod roc;

use vengine::{enum_sub, prop_sub, Property, Tier};

pub fn property() -> Property {
    Property {
        id: "C05",
        rule: "label vectors: exhaustive over alphabets of 2 symbols (length 1..=6) and 3 symbols (length 1..=5 quick / 6 thorough), both vectors, \
               label type (bool/usize/String) and beta rotating; random vectors of length <= 60 over <= 5 symbols whose label sets overlap only partly. \
               Probability vectors: every (score,label) vector over scores {-0.0,+0.0,1/2,1} up to length 5 (6 thorough; length 7 over {+0.0,1/2,1}) plus random vectors (length 2..=40) over the grid j/8, \
               the boundaries 0 (spelled +0.0 or -0.0, mixed within a vector) and 1, a small tie pool and fine scores k/2^20, plus raw-f32 scores 0..=4 ulps around up to three base values at magnitudes 2^-21..1 (and around 0 and 1) \
               (random, length 2..=24, and exhaustive over {base, base+1ulp, base+2ulp} x label up to length 4 / 5 for eleven bases); both classes present. Real vectors/matrices (length 2..=40, 1..=3 columns, f32 and f64): \
               small integers, halves, N(0,1)*10^s (s in -2..=3), positive data, common offsets up to 1000 spreads, truth non-constant by construction. \
               Clusterings: 2..=4 clusters of >= 2 distinct points, 4..=30 points in 1..=3 dims (lattice / separated / overlapping), each scored as plain Dataset and through the construction histories \
               view, with_labels(all / proper subset, also after view), CountedTargets::new, split_with_ratio (owned and view), one_vs_all. Pearson: n 3..=30, p 2..=5. \
               Non-trivial = (labels) >= 3 classes or a label present on one side only; (roc) tied scores, a score equal to 0 or 1, or distinct scores within 4 ulps; \
               (regression) non-zero mean error, or even length with distinct middle errors, or >= 2 target columns; \
               (silhouette) >= 3 clusters, unequal cluster sizes or duplicate points; (pearson) >= 3 features or a negative coefficient. \
               Distinct = distinct canonical JSON of the case.",
        assumptions: vec![
            "confusion-matrix cells are private; they are read from the Debug rendering of ConfusionMatrix (header + one row per member). If that rendering changes shape the run is INCONCLUSIVE, not a violation".into(),
            "cell (i,j) counts receiver label = class i, argument label = class j over the sorted union of labels, reversed when there are exactly two classes (the layout the code comment and test_confusion_matrix pin)".into(),
            "precision/recall/F-beta are the *documented* functions of the cells: binary c00/(c00+c10) and c00/(c00+c01), otherwise the macro average over the one-vs-all matrices [[tp,fp],[fn,tn]]; 0/0 must be NaN on both sides".into(),
            format!("scores derived from integer cells are f32; tolerance {:e} * max(1,|value|) (64 eps_f32)", labels::RATIO_TOL),
            "empty label vectors are not generated (every score is 0/0 there)".into(),
            format!("ROC scores are arbitrary f32 in [0,1] (grid multiples of 2^-20 in roc_random / roc_exhaustive, raw bit patterns incl. subnormals in roc_near_ties / roc_adjacent_exhaustive); a tie is an *equal* score (-0.0 == +0.0: both are the lowest score and tie with each other); AUC tolerance {:e} (64 eps_f32); both classes present", roc::AUC_TOL),
            "linfa's absolute 1e-10 grouping of distinct scores is recognised by its own signature (known finding roc:distinct-scores-within-1e-10-merged) only when the returned curve is exactly the curve of that rule; any other AUC deviation fails as roc:auc".into(),
            "ROC thresholds (get_thresholds) are not part of the statement and are not judged".into(),
            "log-loss clips to [f32::EPSILON, 1 - f32::EPSILON]; the reference is evaluated in f64 with the error bound below".into(),
            format!(
                "mean-type scores: reference = textbook formula in f64 on the exact inputs; tolerance = {} * (first-order forward error bound of evaluating that formula in the element type, any summation order) + {} * u * |value|, u = 2^-24 (f32) / 2^-53 (f64). A score whose bound is infinite (MSLE with 1+x <= 0, division by a quantity that is zero within its own bound) is not judged",
                bound::SLACK,
                bound::FLOOR
            ),
            "max and median absolute error are compared exactly (order statistics of the element-type differences)".into(),
            "MAPE is relative to the receiver (as the statement says); it is not judged when the receiver contains an exact zero".into(),
            "R2 and explained variance carry the documented +1e-10 guard in the denominator; truth columns are non-constant".into(),
            "explained variance textbook value = 1 - sum (d - mean d)^2 / (SST + 1e-10); linfa's pinned value 1 - (SSE - mean d)/(SST + 1e-10) is recognised by its own signature (known finding), any other deviation fails".into(),
            "silhouette: Euclidean distances, clusters with fewer than two distinct points are outside the quantifier and are not generated".into(),
            "silhouette on a derived dataset (view / with_labels / CountedTargets::new / split_with_ratio / one_vs_all): the reference is the textbook value of the records and targets read back from that dataset; a derived dataset that leaves the quantifier (one cluster, a cluster without two distinct points) is counted and not judged".into(),
            "Pearson p-values use an entropy-seeded RNG and are outside the statement; cases whose error bound exceeds 0.25 (spread at rounding level of the offset) are not judged".into(),
            "permutation invariance: exact for confusion matrices, ROC curves/AUC, max/median errors; within 2 tolerances for sums".into(),
        ],
        subs: vec![
            enum_sub("labels_exhaustive", |t: Tier| labels::enum_cases(t), labels::check).chunks(16),
            prop_sub("labels_random", 40000, 800000, |t: Tier| labels::strategy(t), labels::check).chunks(16).require(&["cells_observed"]),
            prop_sub("regression", 30000, 600000, |t: Tier| regress::strategy(t), regress::check).chunks(16),
            prop_sub("roc_random", 40000, 800000, |t: Tier| roc::strategy(t), roc::check).chunks(16),
            enum_sub("roc_exhaustive", |t: Tier| roc::enum_cases(t), roc::check),
            prop_sub("roc_near_ties", 20000, 400000, |t: Tier| roc::near_strategy(t), roc::check_near)
                .require(&["within_4_ulps_but_further_than_1e-10", "positive_and_negative_within_4_ulps"]),
            enum_sub("roc_adjacent_exhaustive", |t: Tier| roc::enum_near_cases(t), roc::check_near),
            prop_sub("silhouette", 10000, 200000, |t: Tier| cluster::strategy(t), cluster::check),
            prop_sub("pearson", 10000, 200000, |t: Tier| corr::strategy(t), corr::check),
        ],
    }
}
