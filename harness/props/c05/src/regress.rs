//! (c) regression scores per target column, f32 and f64.
//!
//! max / median absolute error are compared exactly (they are order statistics of the element-type
//! differences `|x - y|`, which the oracle forms with the same single subtraction); the mean-type
//! scores are compared against the textbook formula evaluated in f64 with the a-priori error bound of
//! `bound.rs`.

use crate::bound::{agrees, near, Ctx, B, U32, U64};
use linfa::dataset::{AsMultiTargets, AsSingleTargets, DatasetBase};
use linfa::metrics::{MultiTargetRegression, SingleTargetRegression};
use linfa::Float;
use ndarray::{Array1, Array2};
use proptest::prelude::*;
use serde::{Deserialize, Serialize};
use vengine::gen::{gauss_matrix, perm_from_keys};
use vengine::{Obs, Tier};

pub const KNOWN_EV: &str = "explained_variance:formula=sse-minus-mean-error";

#[derive(Debug, Clone, Serialize, Deserialize)]
pub struct RegCase {
    pub f32: bool,
    /// n rows x c columns
    pub pred: Vec<Vec<f64>>,
    pub truth: Vec<Vec<f64>>,
    /// constant added to every prediction for the explained-variance shift relation
    pub shift: f64,
    /// sort keys of the common row permutation (empty => reversal)
    pub perm: Vec<u16>,
}

const NAMES: [&str; 8] = [
    "max_error",
    "mean_absolute_error",
    "mean_squared_error",
    "mean_squared_log_error",
    "median_absolute_error",
    "mean_absolute_percentage_error",
    "r2",
    "explained_variance",
];
const MAX: usize = 0;
const MAE: usize = 1;
const MSE: usize = 2;
const MSLE: usize = 3;
const MEDAE: usize = 4;
const MAPE: usize = 5;
const R2: usize = 6;
const EV: usize = 7;

fn f64_of<F: Float>(x: F) -> f64 {
    num_traits::ToPrimitive::to_f64(&x).unwrap_or(f64::NAN)
}

fn unwrap_all<F: Float>(rs: [linfa::error::Result<F>; 8], obs: &mut Obs, what: &str) -> Option<[f64; 8]> {
    let mut out = [f64::NAN; 8];
    for (i, r) in rs.into_iter().enumerate() {
        match r {
            Ok(v) => out[i] = f64_of(v),
            Err(e) => {
                obs.fail("reg:error", format!("{what}: {} returned {e}", NAMES[i]));
                return None;
            }
        }
    }
    Some(out)
}

fn single<F: Float, A, T>(a: &A, t: &T, obs: &mut Obs, what: &str) -> Option<[f64; 8]>
where
    T: AsSingleTargets<Elem = F>,
    A: SingleTargetRegression<F, T>,
{
    let r = obs.call(what, || {
        [
            SingleTargetRegression::max_error(a, t),
            SingleTargetRegression::mean_absolute_error(a, t),
            SingleTargetRegression::mean_squared_error(a, t),
            SingleTargetRegression::mean_squared_log_error(a, t),
            SingleTargetRegression::median_absolute_error(a, t),
            SingleTargetRegression::mean_absolute_percentage_error(a, t),
            SingleTargetRegression::r2(a, t),
            SingleTargetRegression::explained_variance(a, t),
        ]
    })?;
    unwrap_all(r, obs, what)
}

/// result[col][metric]
fn multi<F: Float, A, T>(a: &A, t: &T, cols: usize, obs: &mut Obs, what: &str) -> Option<Vec<[f64; 8]>>
where
    T: AsMultiTargets<Elem = F>,
    A: MultiTargetRegression<F, T>,
{
    let r = obs.call(what, || {
        [
            MultiTargetRegression::max_error(a, t),
            MultiTargetRegression::mean_absolute_error(a, t),
            MultiTargetRegression::mean_squared_error(a, t),
            MultiTargetRegression::mean_squared_log_error(a, t),
            MultiTargetRegression::median_absolute_error(a, t),
            MultiTargetRegression::mean_absolute_percentage_error(a, t),
            MultiTargetRegression::r2(a, t),
            MultiTargetRegression::explained_variance(a, t),
        ]
    })?;
    let mut out = vec![[f64::NAN; 8]; cols];
    for (i, m) in r.into_iter().enumerate() {
        match m {
            Ok(v) => {
                if v.len() != cols {
                    obs.fail("reg:multi-shape", format!("{what}: {} has {} entries for {cols} target columns", NAMES[i], v.len()));
                    return None;
                }
                for c in 0..cols {
                    out[c][i] = f64_of(v[c]);
                }
            }
            Err(e) => {
                obs.fail("reg:error", format!("{what}: {} returned {e}", NAMES[i]));
                return None;
            }
        }
    }
    Some(out)
}

/// Reference values of one (prediction column, truth column) pair.
struct Oracle {
    max: f64,
    medae: f64,
    mae: B,
    mse: B,
    msle: B,
    mape: Option<B>,
    r2: B,
    ev: B,
    /// linfa's pinned non-textbook value 1 - (SSE - mean_err) / (SST + 1e-10)
    ev_pinned: B,
    mean_err: f64,
    middle_differs: bool,
}

fn oracle<F: Float>(x: &[F], y: &[F], ctx: Ctx) -> Oracle {
    let n = x.len();
    // exact part, in the element type
    let mut d: Vec<F> = x.iter().zip(y).map(|(a, b)| (*a - *b).abs()).collect();
    let max = d.iter().fold(f64::NEG_INFINITY, |m, v| m.max(f64_of(*v)));
    d.sort_by(|a, b| a.partial_cmp(b).unwrap_or(std::cmp::Ordering::Equal));
    let (medae, middle_differs) = if n % 2 == 1 {
        (f64_of(d[n / 2]), false)
    } else {
        (f64_of((d[n / 2 - 1] + d[n / 2]) / F::cast(2.0)), d[n / 2 - 1] != d[n / 2])
    };
    // bounded part
    let xs: Vec<B> = x.iter().map(|v| ctx.lit(f64_of(*v))).collect();
    let ys: Vec<B> = y.iter().map(|v| ctx.lit(f64_of(*v))).collect();
    let diff: Vec<B> = xs.iter().zip(&ys).map(|(a, b)| ctx.sub(*a, *b)).collect();
    let mae = ctx.mean(&diff.iter().map(|v| ctx.abs(*v)).collect::<Vec<_>>());
    let sq: Vec<B> = diff.iter().map(|v| ctx.sq(*v)).collect();
    let sse = ctx.sum(&sq);
    let mse = ctx.div(sse, ctx.lit(n as f64));
    let one = ctx.lit(1.0);
    let lx: Vec<B> = xs.iter().map(|v| ctx.ln(ctx.add(one, *v))).collect();
    let ly: Vec<B> = ys.iter().map(|v| ctx.ln(ctx.add(one, *v))).collect();
    let msle = ctx.mean(&lx.iter().zip(&ly).map(|(a, b)| ctx.sq(ctx.sub(*a, *b))).collect::<Vec<_>>());
    let mape = if x.iter().any(|v| *v == F::zero()) {
        None
    } else {
        Some(ctx.mean(&diff.iter().zip(&xs).map(|(dv, xv)| ctx.abs(ctx.div(*dv, *xv))).collect::<Vec<_>>()))
    };
    let ymean = ctx.mean(&ys);
    let sst = ctx.sum(&ys.iter().map(|v| ctx.sq(ctx.sub(*v, ymean))).collect::<Vec<_>>());
    let guard = ctx.rounded(f64_of(F::cast(1e-10)));
    let den = ctx.add(sst, guard);
    let r2 = ctx.sub(one, ctx.div(sse, den));
    let me = ctx.mean(&diff);
    // textbook explained variance: 1 - Var(d)/Var(y) = 1 - sum (d - mean d)^2 / SST  (= 1 - (SSE - n me^2)/SST)
    let centred = ctx.sum(&diff.iter().map(|v| ctx.sq(ctx.sub(*v, me))).collect::<Vec<_>>());
    let ev_a = ctx.sub(one, ctx.div(centred, den));
    let expanded = ctx.sub(sse, ctx.mul(ctx.lit(n as f64), ctx.sq(me)));
    let ev_b = ctx.sub(one, ctx.div(expanded, den));
    let ev = B { v: ev_a.v, e: ev_a.e.max(ev_b.e) };
    let ev_pinned = ctx.sub(one, ctx.div(ctx.sub(sse, me), den));
    Oracle { max, medae, mae, mse, msle, mape, r2, ev, ev_pinned, mean_err: me.v, middle_differs }
}

/// `true` when explained_variance matched the textbook value
fn judge(got: &[f64; 8], o: &Oracle, ctx: Ctx, form: &str, obs: &mut Obs) -> bool {
    obs.ensure(got[MAX] == o.max, "reg:max_error", || {
        format!("{form}: max_error {}, largest |x-y| is {}", got[MAX], o.max)
    });
    obs.ensure(got[MEDAE] == o.medae, "reg:median_absolute_error", || {
        format!("{form}: median_absolute_error {}, median of |x-y| (mean of the two middle ones for even n) is {}", got[MEDAE], o.medae)
    });
    let bounded = |i: usize, want: B, obs: &mut Obs| {
        if !want.judgeable() {
            return;
        }
        obs.ensure(agrees(got[i], want, ctx), &format!("reg:{}", NAMES[i]), || {
            format!("{form}: {} {}, textbook value {} (+-{:e})", NAMES[i], got[i], want.v, want.tol(ctx))
        });
    };
    bounded(MAE, o.mae, obs);
    bounded(MSE, o.mse, obs);
    if o.msle.judgeable() {
        obs.class("msle_defined");
        bounded(MSLE, o.msle, obs);
    } else {
        obs.class("msle_undefined");
    }
    match o.mape {
        Some(m) => {
            obs.class("mape_defined");
            bounded(MAPE, m, obs)
        }
        None => obs.class("mape_zero_receiver"),
    }
    bounded(R2, o.r2, obs);
    let mut ev_ok = false;
    if o.ev.judgeable() {
        if agrees(got[EV], o.ev, ctx) {
            ev_ok = true;
        } else if o.ev_pinned.judgeable() && agrees(got[EV], o.ev_pinned, ctx) {
            obs.fail(
                KNOWN_EV,
                format!(
                    "{form}: explained_variance {} = 1 - (SSE - mean_err)/(SST+1e-10) (mean_err {}); textbook 1 - Var(err)/Var(truth) = {}",
                    got[EV], o.mean_err, o.ev.v
                ),
            );
        } else {
            obs.fail(
                "reg:explained_variance",
                format!(
                    "{form}: explained_variance {}, textbook {} (+-{:e}); (pinned non-textbook value would be {})",
                    got[EV],
                    o.ev.v,
                    o.ev.tol(ctx),
                    o.ev_pinned.v
                ),
            );
        }
    }
    ev_ok
}

fn run<F: Float>(c: &RegCase, ctx: Ctx, obs: &mut Obs) {
    let n = c.pred.len();
    let cols = c.pred.first().map(|r| r.len()).unwrap_or(0);
    if n < 2 || cols == 0 || c.truth.len() != n || c.pred.iter().chain(c.truth.iter()).any(|r| r.len() != cols) {
        obs.skip("malformed_case");
        return;
    }
    let p2 = Array2::from_shape_fn((n, cols), |(i, j)| F::cast(c.pred[i][j]));
    let t2 = Array2::from_shape_fn((n, cols), |(i, j)| F::cast(c.truth[i][j]));
    if p2.iter().chain(t2.iter()).any(|v| !v.is_finite()) {
        obs.skip("malformed_case");
        return;
    }
    for j in 0..cols {
        let col = t2.column(j);
        if col.iter().all(|v| *v == col[0]) {
            obs.skip("constant_truth_column");
            return;
        }
    }
    obs.class_if(cols == 1, "one_column");
    obs.class_if(cols >= 2, "multi_column");
    obs.class_if(n % 2 == 0, "even_length");
    obs.class_if(n % 2 == 1, "odd_length");

    let oracles: Vec<Oracle> = (0..cols)
        .map(|j| oracle(&p2.column(j).to_vec(), &t2.column(j).to_vec(), ctx))
        .collect();
    let nonzero_mean_error = oracles.iter().any(|o| o.mean_err != 0.0);
    let middle = oracles.iter().any(|o| o.middle_differs);
    obs.class_if(nonzero_mean_error, "nonzero_mean_error");
    obs.class_if(middle, "even_length_distinct_middle_errors");
    obs.nontrivial_if(nonzero_mean_error || middle || cols >= 2);

    let perm: Vec<usize> = if c.perm.is_empty() { (0..n).rev().collect() } else { perm_from_keys(&c.perm, n) };
    let perm_ok = perm.len() == n && perm.iter().all(|&i| i < n);

    // ---- per column: array/array, dataset forms, permutation, shift
    for j in 0..cols {
        let o = &oracles[j];
        let x: Array1<F> = p2.column(j).to_owned();
        let y: Array1<F> = t2.column(j).to_owned();
        let Some(got) = single::<F, _, _>(&x, &y, obs, "array.metric(&array)") else { continue };
        let ev_ok = judge(&got, o, ctx, "array vs array", obs);

        if j == 0 {
            let records = Array2::<F>::zeros((n, 1));
            let dx = DatasetBase::new(records.clone(), x.clone());
            let dy = DatasetBase::new(records, y.clone());
            if let Some(g) = single::<F, _, _>(&dx, &y, obs, "dataset.metric(&array)") {
                judge(&g, o, ctx, "dataset vs array", obs);
            }
            if let Some(g) = single::<F, _, _>(&x, &dy, obs, "array.metric(&dataset)") {
                judge(&g, o, ctx, "array vs dataset", obs);
            }
            if let Some(g) = single::<F, _, _>(&dx, &dy, obs, "dataset.metric(&dataset)") {
                judge(&g, o, ctx, "dataset vs dataset", obs);
            }
        }

        if perm_ok {
            let xp = Array1::from(perm.iter().map(|&i| x[i]).collect::<Vec<F>>());
            let yp = Array1::from(perm.iter().map(|&i| y[i]).collect::<Vec<F>>());
            if let Some(g) = single::<F, _, _>(&xp, &yp, obs, "array.metric(&array) permuted") {
                obs.ensure(g[MAX] == got[MAX] && g[MEDAE] == got[MEDAE], "perm:reg-order-statistics", || {
                    format!("max/median changed under a common permutation: {:?} vs {:?}", (g[MAX], g[MEDAE]), (got[MAX], got[MEDAE]))
                });
                let wants = [o.mae, o.mse, o.msle, o.mape.unwrap_or(B { v: f64::NAN, e: f64::INFINITY }), o.r2];
                for (i, w) in [MAE, MSE, MSLE, MAPE, R2].into_iter().zip(wants) {
                    if w.judgeable() {
                        obs.ensure(near(g[i], got[i], 2.0 * w.tol(ctx)), "perm:reg-sums", || {
                            format!("{} changed under a common permutation: {} vs {}", NAMES[i], g[i], got[i])
                        });
                    }
                }
                // explained variance: same verdict logic on the permuted data (the reference is permutation-free)
                let tol = o.ev.tol(ctx).max(o.ev_pinned.tol(ctx));
                if tol.is_finite() {
                    obs.ensure(near(g[EV], got[EV], 2.0 * tol), "perm:reg-sums", || {
                        format!("explained_variance changed under a common permutation: {} vs {}", g[EV], got[EV])
                    });
                }
            }
        }

        // explained variance is invariant under adding a constant to the predictions
        if c.shift != 0.0 {
            let xs: Array1<F> = x.mapv(|v| F::cast(f64_of(v) + c.shift));
            if xs.iter().all(|v| v.is_finite()) {
                let exact = x.iter().zip(xs.iter()).all(|(a, b)| f64_of(*b) - c.shift == f64_of(*a));
                obs.class_if(exact, "shift_exact");
                let os = oracle(&xs.to_vec(), &y.to_vec(), ctx);
                let r = obs.call("explained_variance(shifted)", || xs.explained_variance(&y));
                if let Some(Ok(v)) = r {
                    let v = f64_of(v);
                    if os.ev.judgeable() {
                        if agrees(v, os.ev, ctx) {
                            if ev_ok && exact && o.ev.judgeable() {
                                obs.ensure(near(v, got[EV], o.ev.tol(ctx) + os.ev.tol(ctx)), "ev:shift-variant", || {
                                    format!("explained_variance {} became {} after adding {} to the predictions", got[EV], v, c.shift)
                                });
                            }
                        } else if os.ev_pinned.judgeable() && agrees(v, os.ev_pinned, ctx) {
                            obs.fail(
                                KNOWN_EV,
                                format!(
                                    "explained_variance {} before and {} after adding {} to every prediction (= 1 - (SSE - mean_err)/(SST+1e-10)); textbook value {} is shift-invariant",
                                    got[EV], v, c.shift, os.ev.v
                                ),
                            );
                        } else {
                            obs.fail(
                                "reg:explained_variance",
                                format!("shifted predictions: explained_variance {v}, textbook {} (+-{:e})", os.ev.v, os.ev.tol(ctx)),
                            );
                        }
                    }
                }
            }
        }
    }

    // ---- multi-target forms: per target column
    if let Some(g) = multi::<F, _, _>(&p2, &t2, cols, obs, "array2.metric(&array2)") {
        for j in 0..cols {
            judge(&g[j], &oracles[j], ctx, "2-D array vs 2-D array (per column)", obs);
        }
    }
    let records = Array2::<F>::zeros((n, 1));
    let d2 = DatasetBase::new(records, p2.clone());
    if let Some(g) = multi::<F, _, _>(&d2, &t2, cols, obs, "dataset2.metric(&array2)") {
        for j in 0..cols {
            judge(&g[j], &oracles[j], ctx, "multi-target dataset vs 2-D array (per column)", obs);
        }
    }
}

pub fn check(c: &RegCase, obs: &mut Obs) {
    if c.f32 {
        obs.class("f32");
        run::<f32>(c, Ctx { u: U32 }, obs)
    } else {
        obs.class("f64");
        run::<f64>(c, Ctx { u: U64 }, obs)
    }
}

// ------------------------------------------------------------------------------------------------
// generator

pub fn strategy(_t: Tier) -> impl Strategy<Value = RegCase> {
    // full-size raw material is generated once and truncated to (n, cols): shrinking n / cols then
    // keeps the remaining values instead of regenerating them
    (
        (2usize..=40, 1usize..=3, any::<bool>(), 0u8..5, -2i32..=3, 0u8..6, 0u8..5, 0u8..3),
        gauss_matrix(40, 3),
        gauss_matrix(40, 3),
        proptest::collection::vec(proptest::collection::vec(-6i32..=6, 3), 40),
        proptest::collection::vec(proptest::collection::vec(-2i32..=2, 3), 40),
        proptest::collection::vec(any::<u16>(), 40),
    )
        .prop_map(|((n, cols, f32_, kind, s, off_sel, shift_sel, rel), g1, g2, i1, i2, perm)| {
            let cut = |m: Vec<Vec<f64>>| -> Vec<Vec<f64>> { m.into_iter().take(n).map(|r| r.into_iter().take(cols).collect()).collect() };
            let cut_i = |m: Vec<Vec<i32>>| -> Vec<Vec<i32>> { m.into_iter().take(n).map(|r| r.into_iter().take(cols).collect()).collect() };
            let (g1, g2, i1, i2) = (cut(g1), cut(g2), cut_i(i1), cut_i(i2));
            let perm: Vec<u16> = perm.into_iter().take(n).collect();
            ((f32_, kind, s, off_sel, shift_sel, rel), g1, g2, i1, i2, perm)
        })
        .prop_map(|((f32_, kind, s, off_sel, shift_sel, rel), g1, g2, i1, i2, perm)| {
            let n = g1.len();
            let cols = g1[0].len();
            let scale = 10f64.powi(s);
            let mut truth = vec![vec![0.0; cols]; n];
            let mut pred = vec![vec![0.0; cols]; n];
            let unit;
            match kind {
                // small integers (many ties, zeros)
                0 => {
                    unit = 1.0;
                    for i in 0..n {
                        for j in 0..cols {
                            truth[i][j] = i1[i][j] as f64;
                            pred[i][j] = match rel {
                                2 => (g2[i][j] * 3.0).round().clamp(-6.0, 6.0),
                                _ => (i1[i][j] + i2[i][j]) as f64,
                            };
                        }
                    }
                }
                // halves: ties among the absolute errors
                4 => {
                    unit = 0.5;
                    for i in 0..n {
                        for j in 0..cols {
                            truth[i][j] = i1[i][j] as f64 / 2.0;
                            pred[i][j] = truth[i][j] + i2[i][j] as f64 / 2.0;
                        }
                    }
                }
                _ => {
                    unit = scale;
                    let noise = match rel {
                        0 => 0.1,
                        _ => 1.0,
                    };
                    let offset = if kind == 3 { [1.0, -1.0, 10.0, -10.0, 100.0, 1000.0][off_sel as usize % 6] * scale } else { 0.0 };
                    for i in 0..n {
                        for j in 0..cols {
                            let mut t = g1[i][j] * scale;
                            let mut p = if rel == 2 { g2[i][j] * scale } else { t + noise * g2[i][j] * scale };
                            if kind == 2 {
                                // positive data: MSLE and MAPE defined
                                t = t.abs() + 0.5 * scale;
                                p = p.abs() + 0.25 * scale;
                            }
                            truth[i][j] = t + offset;
                            pred[i][j] = p + offset;
                        }
                    }
                }
            }
            // truth non-constant per column, by construction
            for j in 0..cols {
                if (0..n).all(|i| truth[i][j] == truth[0][j]) {
                    truth[1][j] += unit;
                }
            }
            let shift = [0.0, 1.0, -3.0, 10.0, 1000.0][shift_sel as usize % 5] * unit;
            RegCase { f32: f32_, pred, truth, shift, perm }
        })
}
