//! Reference model of C02: a dataset is a `Vec<Row>` (identity tag + label codes) plus the column
//! identities; every linfa result is reduced to a [`Snap`] through public accessors only and judged
//! against the model by [`judge`].
//!
//! Identity scheme: `records[i, j] = 8 * tag_i + feature_id_j` (feature ids < 8), `weight_i = tag_i + 0.5`,
//! feature names `f<feature_id>`, target names `t<target_id>`. A record row therefore tells which sample it
//! came from and which original feature every column is; targets are label codes known per tag.

use serde::{Deserialize, Serialize};
use std::collections::{BTreeMap, BTreeSet};
use std::sync::Mutex;
use vengine::Obs;

#[derive(Clone, Copy, Debug, PartialEq, Eq, Serialize, Deserialize)]
pub enum LType {
    Usize,
    Bool,
    Str,
}

/// Label codes are 0..=3 (0..=1 for `bool`).
pub fn reduce(lt: LType, c: u8) -> u8 {
    match lt {
        LType::Bool => c % 2,
        _ => c % 4,
    }
}

#[derive(Clone, Copy, Debug, PartialEq, Eq, Serialize, Deserialize)]
pub enum MapFn {
    Id,
    Inc,
    Half,
    Zero,
}

impl MapFn {
    pub fn apply(self, c: u8) -> u8 {
        match self {
            MapFn::Id => c,
            MapFn::Inc => (c + 1) % 4,
            MapFn::Half => c / 2,
            MapFn::Zero => 0,
        }
    }
}

#[derive(Clone, Debug, PartialEq)]
pub struct Row {
    pub tag: usize,
    pub lab: Vec<u8>,
}

#[derive(Clone, Debug)]
pub struct Model {
    pub rows: Vec<Row>,
    /// original feature id of every column
    pub cols: Vec<usize>,
    /// original target id of every target column (one entry for 1-D targets)
    pub tcols: Vec<usize>,
    pub ix2: bool,
    pub has_w: bool,
    pub has_fn: bool,
    pub has_tn: bool,
    pub lt: LType,
}

impl Model {
    pub fn n(&self) -> usize {
        self.rows.len()
    }
    pub fn tags(&self) -> Vec<usize> {
        self.rows.iter().map(|r| r.tag).collect()
    }
}

pub fn rec_value(tag: usize, feature: usize) -> f64 {
    (8 * tag + feature) as f64
}
pub fn weight_value(tag: usize) -> f32 {
    tag as f32 + 0.5
}
pub fn fname(feature: usize) -> String {
    format!("f{feature}")
}
pub fn tname(target: usize) -> String {
    format!("t{target}")
}

/// What public accessors show of one returned dataset.
#[derive(Clone, Debug)]
pub struct Snap {
    pub n: usize,
    pub p: usize,
    /// row-major n*p
    pub recs: Vec<f64>,
    pub tshape: Vec<usize>,
    /// row-major label codes (255 = not a label of the alphabet)
    pub labs: Vec<u8>,
    pub weights: Option<Vec<f32>>,
    pub fnames: Vec<String>,
    pub tnames: Vec<String>,
    /// `label_count()` of the result (None where the result is not a dataset, i.e. `sample_iter`)
    pub counts: Option<Vec<BTreeMap<u8, usize>>>,
}

/// Per-case context: observer + bookkeeping of the executed history.
pub struct Cx<'o> {
    pub obs: &'o mut Obs,
    pub executed: Vec<&'static str>,
    pub inapplicable: usize,
    pub bad: bool,
    /// number of samples of the dataset the current step operates on
    pub cur_n: usize,
}

impl<'o> Cx<'o> {
    pub fn new(obs: &'o mut Obs) -> Self {
        Cx { obs, executed: vec![], inapplicable: 0, bad: false, cur_n: 0 }
    }
    pub fn fail(&mut self, op: &str, what: &str, msg: String) {
        self.bad = true;
        self.obs.fail(format!("{op}:{what}"), format!("step {} ({op}) after {:?}: {msg}", self.executed.len() + 1, self.executed));
    }
    /// Call into linfa; a panic is a failure `panic:<what>` and ends the history.
    ///
    /// One panic is *not* linfa's: ndarray 0.15's `to_owned` / `map` / `select` rebuild an array with
    /// `from_shape_vec_unchecked(dim.strides(old strides))`, whose debug assertion (`can_index_slice`, active because
    /// the harness builds with debug assertions) rejects an array with a zero-length axis that still carries the
    /// strides of the array it was sliced from (e.g. the empty half of `split_at`). It can only fire on a dataset
    /// without samples, where the property is vacuous; such a history ends there, counted, not judged further.
    pub fn call<T>(&mut self, what: &str, f: impl FnOnce() -> T) -> Option<T> {
        match vengine::guard(f) {
            Ok(v) => Some(v),
            Err(m) => {
                self.panicked(what, &m);
                None
            }
        }
    }
    /// Record a panic of the call `what` (see [`Cx::call`]).
    pub fn panicked(&mut self, what: &str, m: &str) {
        self.bad = true;
        if self.cur_n == 0 && m.contains("can_index_slice") && m.contains("ndarray") {
            self.obs.class("ndarray_debug_assertion_on_empty_sliced_array");
        } else {
            self.obs.fail(format!("panic:{what}"), format!("after {:?}: panicked: {m}", self.executed));
        }
    }
    pub fn done(&mut self, op: &'static str) {
        self.executed.push(op);
    }
}

/// Interns class labels built at run time (`Obs::class` wants `&'static str`); at most a few hundred distinct strings.
pub fn intern(s: String) -> &'static str {
    static TABLE: Mutex<BTreeMap<String, &'static str>> = Mutex::new(BTreeMap::new());
    let mut t = match TABLE.lock() {
        Ok(t) => t,
        Err(p) => p.into_inner(),
    };
    if let Some(v) = t.get(&s) {
        return v;
    }
    let leaked: &'static str = Box::leak(s.clone().into_boxed_str());
    t.insert(s, leaked);
    leaked
}

pub enum ColsExp {
    Known(Vec<usize>),
    /// any selection (with repetition) of existing features, this many columns
    Derive(usize),
}

pub enum Sel {
    /// exactly these tags in this order
    Exact(Vec<usize>),
    /// a permutation of all rows of the previous state
    Permutation,
    /// this many rows, each an existing one
    Subset(usize),
}

pub struct Expect<'a> {
    pub op: &'static str,
    pub pre: &'a Model,
    pub cols: ColsExp,
    pub tcols: Vec<usize>,
    pub ix2: bool,
    pub lt: LType,
    /// expected label codes of a row as a function of its previous label codes
    pub lab_of: &'a dyn Fn(&[u8]) -> Vec<u8>,
    pub sel: Sel,
    pub keep_w: bool,
    pub keep_fn: bool,
    pub keep_tn: bool,
}

/// Judge one returned dataset against the expectation; returns the model of that dataset when every
/// obligation held (the history continues only then).
pub fn judge(e: &Expect, s: &Snap, cx: &mut Cx) -> Option<Model> {
    let op = e.op;
    let was_bad = cx.bad;
    cx.bad = false;
    let r = judge_inner(e, s, cx);
    let failed = cx.bad;
    cx.bad = was_bad || failed;
    if failed {
        None
    } else {
        let _ = op;
        r
    }
}

fn judge_inner(e: &Expect, s: &Snap, cx: &mut Cx) -> Option<Model> {
    let op = e.op;
    let pre = e.pre;
    let tc = e.tcols.len();
    // ---- shapes
    let exp_p = match &e.cols {
        ColsExp::Known(c) => c.len(),
        ColsExp::Derive(b) => *b,
    };
    let exp_tshape: Vec<usize> = if e.ix2 { vec![s.n, tc] } else { vec![s.n] };
    if s.tshape != exp_tshape || s.p != exp_p || s.recs.len() != s.n * s.p || s.labs.len() != s.n * tc {
        cx.fail(
            op,
            "shape",
            format!(
                "records {}x{}, targets shape {:?}; expected {} feature column(s) and targets shape {:?}",
                s.n, s.p, s.tshape, exp_p, exp_tshape
            ),
        );
        return None;
    }
    // ---- decode record rows
    let by_tag: BTreeMap<usize, &Row> = pre.rows.iter().map(|r| (r.tag, r)).collect();
    let existing_features: BTreeSet<usize> = pre.cols.iter().copied().collect();
    let cols: Vec<usize> = match &e.cols {
        ColsExp::Known(c) => c.clone(),
        ColsExp::Derive(b) => {
            if s.n == 0 {
                vec![pre.cols.first().copied().unwrap_or(0); *b]
            } else {
                let mut v = vec![];
                for j in 0..*b {
                    let x = s.recs.get(j).copied().unwrap_or(-1.0);
                    if !(x.is_finite() && x >= 0.0 && x.fract() == 0.0 && x < 1e9) {
                        cx.fail(op, "record-row", format!("row 0 column {j} holds {x}, not a value of the original records"));
                        return None;
                    }
                    let f = (x as u64 % 8) as usize;
                    if !existing_features.contains(&f) {
                        cx.fail(op, "invented-feature", format!("column {j} is feature {f}, which the source does not have (features {:?})", pre.cols));
                        return None;
                    }
                    v.push(f);
                }
                v
            }
        }
    };
    let mut tags = Vec::with_capacity(s.n);
    for r in 0..s.n {
        let x0 = s.recs.get(r * s.p).copied().unwrap_or(-1.0);
        if !(x0.is_finite() && x0 >= 0.0 && x0.fract() == 0.0 && x0 < 1e9) {
            cx.fail(op, "record-row", format!("row {r} starts with {x0}, not a value of the original records"));
            return None;
        }
        let tag = (x0 as u64 / 8) as usize;
        for j in 0..s.p {
            let x = s.recs.get(r * s.p + j).copied().unwrap_or(-1.0);
            let want = rec_value(tag, cols.get(j).copied().unwrap_or(99));
            if x != want {
                cx.fail(
                    op,
                    "record-row",
                    format!("row {r} column {j} holds {x}; sample {tag} / feature {:?} would be {want} (the row mixes samples or columns)", cols.get(j)),
                );
                return None;
            }
        }
        if !by_tag.contains_key(&tag) {
            cx.fail(op, "invented-row", format!("row {r} is sample {tag}, which the source does not contain (samples {:?})", pre.tags()));
            return None;
        }
        tags.push(tag);
    }
    // ---- attachment of targets
    let mut rows = Vec::with_capacity(s.n);
    for (r, &tag) in tags.iter().enumerate() {
        let Some(src) = by_tag.get(&tag) else { return None };
        let want = (e.lab_of)(&src.lab);
        let got = s.labs.get(r * tc..(r + 1) * tc).unwrap_or(&[]);
        if got != want.as_slice() {
            cx.fail(
                op,
                "attachment",
                format!("row {r} holds the record of sample {tag} but target codes {:?}; that sample's target(s) are {:?}", got, want),
            );
        }
        rows.push(Row { tag, lab: want });
    }
    // ---- weights
    match &s.weights {
        Some(w) => {
            if !pre.has_w {
                cx.fail(op, "weights", format!("result carries weights {:?} although the source had none", w));
            } else if w.len() != s.n {
                cx.fail(op, "weights", format!("result has {} rows but {} weights", s.n, w.len()));
            } else {
                for (r, &tag) in tags.iter().enumerate() {
                    if w[r] != weight_value(tag) {
                        cx.fail(
                            op,
                            "weights",
                            format!("row {r} is sample {tag} (weight {}) but carries weight {}", weight_value(tag), w[r]),
                        );
                        break;
                    }
                }
            }
        }
        None => {
            if e.keep_w && pre.has_w && s.n > 0 {
                cx.fail(op, "weights-dropped", "the source carries sample weights, the result has none".into());
            }
        }
    }
    // ---- names
    if !s.fnames.is_empty() {
        let want: Vec<String> = cols.iter().map(|c| fname(*c)).collect();
        let observable = !(matches!(e.cols, ColsExp::Derive(_)) && s.n == 0);
        if !pre.has_fn {
            cx.fail(op, "feature-names", format!("result carries feature names {:?} although the source had none", s.fnames));
        } else if observable && s.fnames != want {
            cx.fail(op, "feature-names", format!("feature names {:?} but the columns are {:?}", s.fnames, want));
        }
    } else if e.keep_fn && pre.has_fn {
        cx.fail(op, "feature-names-dropped", "the source carries feature names, the result has none".into());
    }
    if !s.tnames.is_empty() {
        let want: Vec<String> = e.tcols.iter().map(|c| tname(*c)).collect();
        if !pre.has_tn {
            cx.fail(op, "target-names", format!("result carries target names {:?} although the source had none", s.tnames));
        } else if s.tnames != want {
            cx.fail(op, "target-names", format!("target names {:?} but the target columns are {:?}", s.tnames, want));
        }
    } else if e.keep_tn && pre.has_tn {
        cx.fail(op, "target-names-dropped", "the source carries target names, the result has none".into());
    }
    // ---- selection
    match &e.sel {
        Sel::Exact(want) => {
            if &tags != want {
                cx.fail(op, "selection", format!("result holds samples {:?}, documented selection is {:?}", tags, want));
            }
        }
        Sel::Permutation => {
            let mut a = tags.clone();
            let mut b = pre.tags();
            a.sort_unstable();
            b.sort_unstable();
            if a != b {
                cx.fail(op, "selection", format!("result holds samples {:?}, not a permutation of {:?}", tags, pre.tags()));
            }
        }
        Sel::Subset(k) => {
            if tags.len() != *k {
                cx.fail(op, "selection", format!("result holds {} samples, {} were requested", tags.len(), k));
            }
        }
    }
    // ---- cached label counts
    if let Some(counts) = &s.counts {
        let mut want: Vec<BTreeMap<u8, usize>> = vec![BTreeMap::new(); tc];
        for r in 0..s.n {
            for c in 0..tc {
                if let Some(l) = s.labs.get(r * tc + c) {
                    *want[c].entry(*l).or_insert(0) += 1;
                }
            }
        }
        let strip = |v: &Vec<BTreeMap<u8, usize>>| -> Vec<BTreeMap<u8, usize>> {
            v.iter().map(|m| m.iter().filter(|(_, n)| **n > 0).map(|(k, n)| (*k, *n)).collect()).collect()
        };
        if strip(counts) != strip(&want) {
            cx.fail(op, "label-count", format!("label_count() reports {:?}; recounting the returned targets gives {:?}", counts, want));
        }
    }
    Some(Model {
        rows,
        cols,
        tcols: e.tcols.clone(),
        ix2: e.ix2,
        has_w: s.weights.is_some(),
        has_fn: !s.fnames.is_empty(),
        has_tn: !s.tnames.is_empty(),
        lt: e.lt,
    })
}

/// Number of rows of the first part of a ratio split: `ceil(n as f32 * ratio)`, product in single precision
/// (fixed by the property statement).
pub fn split_point(n: usize, ratio: f32) -> usize {
    let x = (n as f32 * ratio).ceil();
    if x.is_finite() && x >= 0.0 {
        (x as usize).min(n)
    } else {
        0
    }
}
