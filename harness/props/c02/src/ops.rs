//! Operations of a history (plain data, serialisable) and their decoding from small integers.

use crate::model::{LType, MapFn};
use serde::{Deserialize, Serialize};

#[derive(Clone, Copy, Debug, PartialEq, Serialize, Deserialize)]
pub enum Ratio {
    Zero,
    One,
    OneOverN,
    Half,
    ThreeTenths,
    NMinusOneOverN,
    /// k/n with k mapped monotonically into 0..=n (the exact boundaries of the ceiling)
    KOverN(u16),
    /// x / 2^24 in [0, 1)
    Uniform(u32),
}

impl Ratio {
    /// The f32 handed to linfa; always inside [0, 1] (outside is a documented underflow / panic).
    pub fn value(self, n: usize) -> f32 {
        let nn = n.max(1) as f32;
        let r = match self {
            Ratio::Zero => 0.0,
            Ratio::One => 1.0,
            Ratio::OneOverN => 1.0 / nn,
            Ratio::Half => 0.5,
            Ratio::ThreeTenths => 0.3,
            Ratio::NMinusOneOverN => (nn - 1.0) / nn,
            Ratio::KOverN(k) => vengine::gen::idx(k, n + 1) as f32 / nn,
            Ratio::Uniform(x) => (x & 0xff_ffff) as f32 / 16_777_216.0,
        };
        r.clamp(0.0, 1.0)
    }
}

#[derive(Clone, Debug, PartialEq, Serialize, Deserialize)]
pub enum Op {
    Split { ratio: Ratio, second: bool, via_view: bool },
    Shuffle { seed: u64 },
    Bootstrap { rows: u8, cols: u8, seed: u64, nth: u8 },
    BootstrapSamples { rows: u8, seed: u64, nth: u8 },
    BootstrapFeatures { cols: u8, seed: u64, nth: u8 },
    /// bit c of `mask` lists label code c; `dup` lists every label twice
    WithLabels { mask: u8, dup: bool },
    OneVsAll { pick: u16 },
    Chunks { size: u16, pick: u16 },
    SampleIter,
    TargetIter { pick: u16 },
    FeatureIter { pick: u16 },
    MapTargets { to: LType, f: MapFn },
    View,
    ToOwned,
    IntoSingle,
    /// not a linfa operation: shrink the owned arrays of the current dataset IN PLACE through its public fields
    /// (`slice_axis_inplace` on records, targets, weights), dropping `head` leading and `tail` trailing samples, so that
    /// every later operation sees owned arrays that are not fresh allocations (non-zero offset, spare capacity)
    Shrink { head: u8, tail: u8 },
}

pub const N_KINDS: u8 = 16;

impl Op {
    /// Total decoding from small integers (shared by the proptest strategy and `case_from_bytes`).
    pub fn from_parts(kind: u8, a: u8, b: u8, x: u16, seed: u64) -> Op {
        match kind % N_KINDS {
            0 => {
                let ratio = match a % 8 {
                    0 => Ratio::Zero,
                    1 => Ratio::One,
                    2 => Ratio::OneOverN,
                    3 => Ratio::Half,
                    4 => Ratio::ThreeTenths,
                    5 => Ratio::NMinusOneOverN,
                    6 => Ratio::KOverN(x),
                    _ => Ratio::Uniform(((x as u32) << 8) | (seed as u32 & 0xff)),
                };
                Op::Split { ratio, second: b & 1 == 1, via_view: b & 2 == 2 }
            }
            1 => Op::Shuffle { seed },
            2 => Op::Bootstrap { rows: a, cols: b, seed, nth: (x % 3) as u8 },
            3 => Op::BootstrapSamples { rows: a, seed, nth: (x % 3) as u8 },
            4 => Op::BootstrapFeatures { cols: b, seed, nth: (x % 3) as u8 },
            5 => Op::WithLabels { mask: a % 16, dup: b & 1 == 1 },
            6 => Op::OneVsAll { pick: x },
            7 => Op::Chunks { size: ((a as u16) << 8) | b as u16, pick: x },
            8 => Op::SampleIter,
            9 => Op::TargetIter { pick: x },
            10 => Op::FeatureIter { pick: x },
            11 => Op::MapTargets {
                to: match a % 3 {
                    0 => LType::Usize,
                    1 => LType::Bool,
                    _ => LType::Str,
                },
                f: match b % 4 {
                    0 => MapFn::Id,
                    1 => MapFn::Inc,
                    2 => MapFn::Half,
                    _ => MapFn::Zero,
                },
            },
            12 => Op::View,
            13 => Op::ToOwned,
            14 => Op::IntoSingle,
            _ => Op::Shrink { head: a, tail: b },
        }
    }

    pub fn name(&self) -> &'static str {
        match self {
            Op::Split { .. } => "split",
            Op::Shuffle { .. } => "shuffle",
            Op::Bootstrap { .. } => "bootstrap",
            Op::BootstrapSamples { .. } => "bootstrap_samples",
            Op::BootstrapFeatures { .. } => "bootstrap_features",
            Op::WithLabels { .. } => "with_labels",
            Op::OneVsAll { .. } => "one_vs_all",
            Op::Chunks { .. } => "sample_chunks",
            Op::SampleIter => "sample_iter",
            Op::TargetIter { .. } => "target_iter",
            Op::FeatureIter { .. } => "feature_iter",
            Op::MapTargets { .. } => "map_targets",
            Op::View => "view",
            Op::ToOwned => "to_owned",
            Op::IntoSingle => "into_single_target",
            Op::Shrink { .. } => "shrink_in_place",
        }
    }
}

/// bootstrap sample count 0..=16 and feature count 1..=6 from a generated byte (monotone)
pub fn boot_rows(a: u8) -> usize {
    (a as usize * 17) >> 8
}
pub fn boot_cols(b: u8) -> usize {
    1 + ((b as usize * 6) >> 8)
}

/// leading / trailing samples an in-place shrink drops from a dataset of n samples (small, never more than n in total)
pub fn shrink_amounts(head: u8, tail: u8, n: usize) -> (usize, usize) {
    let h = (head as usize % 3).min(n);
    let t = (tail as usize % 3).min(n - h);
    (h, t)
}
