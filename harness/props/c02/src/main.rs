fn main() {
    vengine::main(c02::property())
}
