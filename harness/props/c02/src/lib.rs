//! C02 — dataset operations keep record, target(s), weight and names of a sample together.
//!
//! Stateful / model-based: a generated dataset (every row carries an identity tag) is pushed through a
//! history of 1..=6 operations by a typed interpreter (`interp`), each step judged against a reference
//! model (`model`): a `Vec<Row>` on which every operation is the obvious few lines.

pub mod interp;
pub mod model;
pub mod ops;

use interp::{Codec, Node};
use linfa::dataset::DatasetBase;
use model::{fname, intern, rec_value, reduce, tname, weight_value, Cx, LType, Model, Row};
use ndarray::{s, Array1, Array2, Axis, ShapeBuilder};
pub use ops::{Op, Ratio};
use proptest::prelude::*;
use serde::{Deserialize, Serialize};
use vengine::{enum_sub, prop_sub, Obs, Property, Tier};

#[derive(Clone, Copy, Debug, PartialEq, Eq, Serialize, Deserialize)]
pub enum Container {
    /// owned, row-major
    Owned,
    /// owned, column-major records (and 2-D targets)
    OwnedF,
    /// plain views of owned arrays
    View,
    /// views that take every second row of arrays twice as long
    Strided,
    /// owned, row-major, but NOT a fresh allocation: records, targets and weights were cut out of larger owned
    /// arrays with `slice_move` (2 leading and 1 trailing filler rows stay in the buffer: non-zero pointer offset,
    /// capacity larger than the array)
    OwnedSliced,
    /// owned, row-major, one filler row removed with `remove_index` (the removed elements stay at the end of the buffer)
    OwnedRemoved,
}

#[derive(Clone, Debug, Serialize, Deserialize)]
pub struct Case {
    /// samples (0..=64)
    pub n: usize,
    /// features (1..=4)
    pub p: usize,
    /// 0 = one-dimensional targets, otherwise the number of columns of a two-dimensional target array (1..=3)
    pub t: usize,
    pub lt: LType,
    /// label codes, row-major n * max(t, 1); missing entries count as 0
    pub labels: Vec<u8>,
    pub weights: bool,
    pub fnames: bool,
    pub tnames: bool,
    pub container: Container,
    /// for `OwnedSliced` / `OwnedRemoved`: which arrays are not fresh allocations (bit 0 records, bit 1 targets,
    /// bit 2 weights; 0 = all three)
    #[serde(default)]
    pub origin: u8,
    pub ops: Vec<Op>,
}

const MAX_N: usize = 64;

struct Norm {
    n: usize,
    p: usize,
    tc: usize,
    ix2: bool,
}

fn norm(c: &Case) -> Norm {
    Norm { n: c.n.min(MAX_N), p: c.p.clamp(1, 4), tc: c.t.clamp(1, 3), ix2: c.t >= 1 }
}

fn code(c: &Case, nm: &Norm, i: usize, col: usize) -> u8 {
    reduce(c.lt, c.labels.get(i * nm.tc + col).copied().unwrap_or(0))
}

fn initial_model(c: &Case) -> Model {
    let nm = norm(c);
    Model {
        rows: (0..nm.n).map(|i| Row { tag: i, lab: (0..nm.tc).map(|col| code(c, &nm, i, col)).collect() }).collect(),
        cols: (0..nm.p).collect(),
        tcols: (0..nm.tc).collect(),
        ix2: nm.ix2,
        has_w: c.weights && nm.n > 0,
        has_fn: c.fnames,
        has_tn: c.tnames,
        lt: c.lt,
    }
}

/// physical row -> logical sample (None = filler row of a strided backing array)
fn logical(container: Container, r: usize, n: usize) -> Option<usize> {
    match container {
        Container::Strided => {
            if r % 2 == 0 {
                Some(r / 2)
            } else {
                None
            }
        }
        Container::OwnedSliced => {
            if r >= SLICED_HEAD && r < SLICED_HEAD + n {
                Some(r - SLICED_HEAD)
            } else {
                None
            }
        }
        Container::OwnedRemoved => {
            let f = removed_at(n);
            if r < f {
                Some(r)
            } else if r == f {
                None
            } else {
                Some(r - 1)
            }
        }
        _ => Some(r),
    }
}

const SLICED_HEAD: usize = 2;
const SLICED_TAIL: usize = 1;
/// physical position of the filler row that `OwnedRemoved` removes
fn removed_at(n: usize) -> usize {
    n.min(1)
}

fn run_typed<L: Codec>(c: &Case, m: &Model, cx: &mut Cx)
where
    DatasetBase<Array2<f64>, Array1<L>>: Node,
    DatasetBase<Array2<f64>, Array2<L>>: Node,
    for<'x> DatasetBase<ndarray::ArrayView2<'x, f64>, ndarray::ArrayView1<'x, L>>: Node,
    for<'x> DatasetBase<ndarray::ArrayView2<'x, f64>, ndarray::ArrayView2<'x, L>>: Node,
{
    let nm = norm(c);
    let cont = c.container;
    let n = nm.n;
    let in_place = matches!(cont, Container::OwnedSliced | Container::OwnedRemoved);
    let origin = if c.origin % 8 == 0 { 7 } else { c.origin % 8 };
    // the container an individual array is built as (an array whose origin bit is off is a fresh allocation)
    let kind = |bit: u8| if in_place && origin & bit == 0 { Container::Owned } else { cont };
    let phys = |k: Container| match k {
        Container::Strided => 2 * n,
        Container::OwnedSliced => n + SLICED_HEAD + SLICED_TAIL,
        Container::OwnedRemoved => n + 1,
        _ => n,
    };
    let (kr, kt, kw) = (kind(1), kind(2), kind(4));
    cx.obs.class_if(in_place && origin & 1 != 0, "records_not_a_fresh_allocation");
    cx.obs.class_if(in_place && origin & 2 != 0, "targets_not_a_fresh_allocation");
    cx.obs.class_if(in_place && origin & 4 != 0 && c.weights, "weights_not_a_fresh_allocation");
    let rec_at = |(r, j): (usize, usize)| match logical(kr, r, n) {
        Some(i) => rec_value(i, j),
        None => -1.0 - j as f64,
    };
    let lab_at = |r: usize, col: usize| match logical(kt, r, n) {
        Some(i) => L::enc(code(c, &nm, i, col)),
        None => L::enc(3),
    };
    let records = if cont == Container::OwnedF {
        Array2::from_shape_fn((phys(kr), nm.p).f(), rec_at)
    } else {
        Array2::from_shape_fn((phys(kr), nm.p), rec_at)
    };
    let records = match kr {
        Container::OwnedSliced => records.slice_move(s![SLICED_HEAD..SLICED_HEAD + n, ..]),
        Container::OwnedRemoved => {
            let mut r = records;
            r.remove_index(Axis(0), removed_at(n));
            r
        }
        _ => records,
    };
    let weights: Array1<f32> = if !c.weights {
        Array1::zeros(0)
    } else {
        let full: Array1<f32> = (0..phys(kw)).map(|r| logical(kw, r, n).map(weight_value).unwrap_or(99.5)).collect();
        match kw {
            Container::OwnedSliced => full.slice_move(s![SLICED_HEAD..SLICED_HEAD + n]),
            Container::OwnedRemoved => {
                let mut w = full;
                w.remove_index(Axis(0), removed_at(n));
                w
            }
            // weights are always an owned vector of n entries, whatever the records / targets are
            _ => (0..n).map(weight_value).collect(),
        }
    };
    let fnames: Vec<String> = if c.fnames { (0..nm.p).map(fname).collect() } else { vec![] };
    let tnames: Vec<String> = if c.tnames { (0..nm.tc).map(tname).collect() } else { vec![] };
    macro_rules! dress {
        ($ds:expr) => {
            $ds.with_weights(weights.clone()).with_feature_names(fnames.clone()).with_target_names(tnames.clone())
        };
    }
    if nm.ix2 {
        let targets = if cont == Container::OwnedF {
            Array2::from_shape_fn((phys(kt), nm.tc).f(), |(r, col)| lab_at(r, col))
        } else {
            Array2::from_shape_fn((phys(kt), nm.tc), |(r, col)| lab_at(r, col))
        };
        let targets = match kt {
            Container::OwnedSliced => targets.slice_move(s![SLICED_HEAD..SLICED_HEAD + n, ..]),
            Container::OwnedRemoved => {
                let mut t = targets;
                t.remove_index(Axis(0), removed_at(n));
                t
            }
            _ => targets,
        };
        match cont {
            Container::Owned | Container::OwnedF | Container::OwnedSliced | Container::OwnedRemoved => {
                dress!(DatasetBase::new(records, targets)).go(m, &c.ops, cx)
            }
            Container::View => dress!(DatasetBase::new(records.view(), targets.view())).go(m, &c.ops, cx),
            Container::Strided => {
                dress!(DatasetBase::new(records.slice(s![..;2, ..]), targets.slice(s![..;2, ..]))).go(m, &c.ops, cx)
            }
        }
    } else {
        let targets = Array1::from_shape_fn(phys(kt), |r| lab_at(r, 0));
        let targets = match kt {
            Container::OwnedSliced => targets.slice_move(s![SLICED_HEAD..SLICED_HEAD + n]),
            Container::OwnedRemoved => {
                let mut t = targets;
                t.remove_index(Axis(0), removed_at(n));
                t
            }
            _ => targets,
        };
        match cont {
            Container::Owned | Container::OwnedF | Container::OwnedSliced | Container::OwnedRemoved => {
                dress!(DatasetBase::new(records, targets)).go(m, &c.ops, cx)
            }
            Container::View => dress!(DatasetBase::new(records.view(), targets.view())).go(m, &c.ops, cx),
            Container::Strided => dress!(DatasetBase::new(records.slice(s![..;2, ..]), targets.slice(s![..;2]))).go(m, &c.ops, cx),
        }
    }
}

fn is_reorder(op: &str) -> bool {
    matches!(op, "shuffle" | "bootstrap" | "bootstrap_samples" | "bootstrap_features")
}
fn is_select(op: &str) -> bool {
    matches!(
        op,
        "split_owned" | "split_view" | "with_labels" | "one_vs_all" | "sample_chunks" | "sample_iter" | "target_iter" | "feature_iter"
    )
}

/// The oracle: interpret the history of `c` against linfa and the reference model.
pub fn check(c: &Case, obs: &mut Obs) {
    let m = initial_model(c);
    let nm = norm(c);
    obs.class(match c.container {
        Container::Owned => "start_owned",
        Container::OwnedF => "start_owned_colmajor",
        Container::View => "start_view",
        Container::Strided => "start_strided_view",
        Container::OwnedSliced => "start_owned_sliced_in_place",
        Container::OwnedRemoved => "start_owned_row_removed",
    });
    obs.class(match c.lt {
        LType::Usize => "labels_usize",
        LType::Bool => "labels_bool",
        LType::Str => "labels_str",
    });
    obs.class(if !nm.ix2 {
        "targets_1d"
    } else if nm.tc == 1 {
        "targets_2d_1col"
    } else {
        "targets_2d_multi"
    });
    obs.class_if(nm.n == 0, "n_0");
    obs.class_if(nm.n == 1, "n_1");
    obs.class_if(c.weights, "with_weights");
    obs.class_if(c.fnames && c.tnames, "with_names");
    let distinct: std::collections::BTreeSet<&Vec<u8>> = m.rows.iter().map(|r| &r.lab).collect();
    obs.class_if(distinct.len() == 1, "single_label_value");
    for op in &c.ops {
        if let Op::Split { ratio, .. } = op {
            // classes of the ratio relative to the *initial* n (informative only)
            let r = ratio.value(nm.n);
            let single = (nm.n as f32 * r).ceil();
            let double = (nm.n as f64 * r as f64).ceil();
            obs.class_if(single as f64 != double, "split_ratio_f32_product_differs_from_f64");
            obs.class_if(r == 0.0, "split_ratio_0");
            obs.class_if(r == 1.0, "split_ratio_1");
        }
    }
    let executed;
    let inapplicable;
    {
        let mut cx = Cx::new(obs);
        match c.lt {
            LType::Usize => run_typed::<usize>(c, &m, &mut cx),
            LType::Bool => run_typed::<bool>(c, &m, &mut cx),
            LType::Str => run_typed::<&'static str>(c, &m, &mut cx),
        }
        executed = cx.executed.clone();
        inapplicable = cx.inapplicable;
    }
    for op in &executed {
        obs.class(intern(format!("op:{op}")));
    }
    for w in executed.windows(2) {
        obs.class(intern(format!("pair:{}>{}", w[0], w[1])));
    }
    obs.class_if(inapplicable > 0, "some_op_inapplicable_skipped");
    obs.class(match executed.len() {
        0 => "executed_0",
        1 => "executed_1",
        2 => "executed_2",
        3 => "executed_3",
        _ => "executed_4plus",
    });
    let reorder_then_select =
        executed.iter().position(|o| is_reorder(o)).map(|i| executed[i + 1..].iter().any(|o| is_select(o))).unwrap_or(false);
    obs.class_if(reorder_then_select, "reorder_then_select");
    let dressed = c.weights && c.fnames && c.tnames && nm.n > 0;
    obs.nontrivial_if(!executed.is_empty() && ((executed.len() >= 2 && reorder_then_select) || dressed));
}

// ------------------------------------------------------------------------------------------------
// generators

fn op_strategy() -> impl Strategy<Value = Op> {
    // kinds weighted: splits, with_labels and reorderings more often than the plain conversions
    const TABLE: [u8; 29] = [0, 0, 0, 0, 1, 1, 1, 2, 2, 3, 4, 4, 5, 5, 5, 6, 6, 7, 7, 8, 9, 10, 11, 12, 13, 14, 14, 15, 15];
    (0usize..TABLE.len(), any::<u8>(), any::<u8>(), any::<u16>(), any::<u64>())
        .prop_map(|(k, a, b, x, seed)| Op::from_parts(TABLE[k], a, b, x, seed))
}

fn case_strategy(max_n: usize) -> impl Strategy<Value = Case> {
    let head = (
        prop_oneof![1 => Just(0usize), 1 => Just(1usize), 10 => 2usize..=max_n],
        1usize..=4,
        0usize..=3,
        prop_oneof![Just(LType::Usize), Just(LType::Bool), Just(LType::Str)],
        1u8..=4,
    );
    let flags = (
        prop_oneof![3 => Just(true), 1 => Just(false)],
        prop_oneof![3 => Just(true), 1 => Just(false)],
        prop_oneof![3 => Just(true), 1 => Just(false)],
        prop_oneof![
            Just(Container::Owned),
            Just(Container::OwnedF),
            Just(Container::View),
            Just(Container::Strided),
            Just(Container::OwnedSliced),
            Just(Container::OwnedRemoved)
        ],
        0u8..8,
    );
    (head, flags, proptest::collection::vec(op_strategy(), 1..=6)).prop_flat_map(|((n, p, t, lt, k), (w, f, tn, cont, origin), ops)| {
        proptest::collection::vec(0u8..k, n * t.max(1)).prop_map(move |labels| Case {
            n,
            p,
            t,
            lt,
            labels,
            weights: w,
            fnames: f,
            tnames: tn,
            container: cont,
            origin,
            ops: ops.clone(),
        })
    })
}

/// Total decoding of a byte string into a case (for a libFuzzer target driving the same oracle).
pub fn case_from_bytes(data: &[u8]) -> Option<Case> {
    if data.len() < 6 {
        return None;
    }
    let mut pos = 0usize;
    let mut next = |pos: &mut usize| -> u8 {
        let b = data.get(*pos).copied().unwrap_or(0);
        *pos += 1;
        b
    };
    let b0 = next(&mut pos);
    let n = (b0 % 13) as usize;
    let origin = (b0 / 13) % 8;
    let p = 1 + (next(&mut pos) % 4) as usize;
    let t = (next(&mut pos) % 4) as usize;
    let lt = match next(&mut pos) % 3 {
        0 => LType::Usize,
        1 => LType::Bool,
        _ => LType::Str,
    };
    let flags = next(&mut pos);
    let container = match (flags >> 3) % 6 {
        0 => Container::Owned,
        1 => Container::OwnedF,
        2 => Container::View,
        3 => Container::Strided,
        4 => Container::OwnedSliced,
        _ => Container::OwnedRemoved,
    };
    let nops = 1 + (next(&mut pos) % 6) as usize;
    let mut labels = Vec::with_capacity(n * t.max(1));
    for _ in 0..n * t.max(1) {
        labels.push(next(&mut pos) % 4);
    }
    let mut ops = Vec::with_capacity(nops);
    for _ in 0..nops {
        let kind = next(&mut pos);
        let a = next(&mut pos);
        let b = next(&mut pos);
        let x = u16::from_le_bytes([next(&mut pos), next(&mut pos)]);
        let mut sb = [0u8; 8];
        for s in sb.iter_mut() {
            *s = next(&mut pos);
        }
        ops.push(Op::from_parts(kind, a, b, x, u64::from_le_bytes(sb)));
    }
    Some(Case {
        n,
        p,
        t,
        lt,
        labels,
        weights: flags & 1 == 1,
        fnames: flags & 2 == 2,
        tnames: flags & 4 == 4,
        container,
        origin,
        ops,
    })
}

// ------------------------------------------------------------------------------------------------
// enumerated strata

/// smallest u16 that `vengine::gen::idx(_, len)` maps to k
fn inv_idx(k: usize, len: usize) -> u16 {
    let len = len.max(1) as u64;
    ((((k as u64) << 16) + len - 1) / len).min(65535) as u16
}

fn representative_ops(n: usize) -> Vec<Op> {
    let mut v = vec![];
    for k in 0..=n {
        // exact boundaries k/n of the ceiling, both halves, owned and through a view
        let x = inv_idx(k, n + 1);
        v.push(Op::Split { ratio: Ratio::KOverN(x), second: k % 2 == 0, via_view: false });
        v.push(Op::Split { ratio: Ratio::KOverN(x), second: k % 2 == 1, via_view: true });
    }
    v.push(Op::Split { ratio: Ratio::ThreeTenths, second: true, via_view: false });
    v.push(Op::Split { ratio: Ratio::Half, second: false, via_view: true });
    for mask in 0..16u8 {
        v.push(Op::WithLabels { mask, dup: mask % 5 == 0 });
    }
    for c in 0..=n {
        let size = inv_idx(c, n + 1);
        v.push(Op::Chunks { size, pick: (c as u16).wrapping_mul(9001) });
    }
    v.extend(fixed_ops());
    v
}

fn fixed_ops() -> Vec<Op> {
    vec![
        Op::Shuffle { seed: 7 },
        Op::Bootstrap { rows: 120, cols: 200, seed: 11, nth: 1 },
        Op::BootstrapSamples { rows: 90, seed: 12, nth: 0 },
        Op::BootstrapFeatures { cols: 130, seed: 13, nth: 2 },
        Op::OneVsAll { pick: 40000 },
        Op::SampleIter,
        Op::TargetIter { pick: 50000 },
        Op::FeatureIter { pick: 30000 },
        Op::MapTargets { to: LType::Usize, f: model::MapFn::Inc },
        Op::MapTargets { to: LType::Bool, f: model::MapFn::Id },
        Op::MapTargets { to: LType::Str, f: model::MapFn::Half },
        Op::View,
        Op::ToOwned,
        Op::IntoSingle,
        Op::Shrink { head: 1, tail: 1 },
    ]
}

fn grid_labels(n: usize, tc: usize, variant: usize) -> Vec<u8> {
    (0..n * tc).map(|i| ((i * (variant + 1) + i / 3 + variant) % 4) as u8).collect()
}

fn bases(ns: &[usize]) -> Vec<Case> {
    let mut v = vec![];
    for &n in ns {
        for (ci, cont) in
            [Container::Owned, Container::OwnedF, Container::View, Container::Strided, Container::OwnedSliced, Container::OwnedRemoved]
                .into_iter()
                .enumerate()
        {
            for t in 0..=2usize {
                for (li, lt) in [LType::Usize, LType::Bool, LType::Str].into_iter().enumerate() {
                    v.push(Case {
                        n,
                        p: 1 + (n + ci + t) % 3,
                        t,
                        lt,
                        labels: grid_labels(n, t.max(1), li + t),
                        weights: true,
                        fnames: true,
                        tnames: true,
                        container: cont,
                        origin: [7u8, 4, 3, 1, 2][(n + t + li) % 5],
                        ops: vec![],
                    });
                }
            }
        }
    }
    v
}

fn single_op_grid(max_n: usize) -> Vec<Case> {
    let ns: Vec<usize> = (0..=max_n).collect();
    let mut v = vec![];
    for b in bases(&ns) {
        for op in representative_ops(b.n) {
            let mut c = b.clone();
            c.ops = vec![op];
            v.push(c);
        }
    }
    v
}

fn pair_grid(ns: &[usize]) -> Vec<Case> {
    let mut second = fixed_ops();
    second.push(Op::Split { ratio: Ratio::ThreeTenths, second: false, via_view: false });
    second.push(Op::Split { ratio: Ratio::Half, second: true, via_view: true });
    second.push(Op::WithLabels { mask: 0b0110, dup: false });
    second.push(Op::Chunks { size: 20000, pick: 40000 });
    let first = second.clone();
    let mut v = vec![];
    for b in bases(ns) {
        for o1 in &first {
            for o2 in &second {
                let mut c = b.clone();
                c.ops = vec![o1.clone(), o2.clone()];
                v.push(c);
            }
        }
    }
    v
}

/// Deterministic pseudo-random byte strings pushed through `case_from_bytes` (the decoder a libFuzzer target
/// will use): shows the decoder is total and that decoded cases run through the same oracle.
fn byte_cases(count: usize) -> Vec<Case> {
    let mut rng = vengine::gen::SplitMix(0xC02);
    let mut v = vec![];
    for i in 0..count {
        let len = 6 + (i % 97);
        let bytes: Vec<u8> = (0..len).map(|_| (rng.next_u64() >> 32) as u8).collect();
        if let Some(c) = case_from_bytes(&bytes) {
            v.push(c);
        }
    }
    v
}

pub fn property() -> Property {
    Property {
        id: "C02",
        rule: "case = generated dataset (n 0..=16 quick / 0..=40 thorough samples, 1..=4 features, 1-D or 2-D label targets with 1..=3 columns over an \
               alphabet of 1..=4 labels of type usize|bool|&str, with/without weights, feature and target names; owned row-major, owned column-major, \
               plain view, strided view, owned-but-not-a-fresh-allocation: records/targets/weights (any non-empty subset) cut out of larger owned arrays by slice_move \
               or remove_index, so pointer offset != 0 / capacity > length) + history of 1..=6 operations interpreted step by step on the values linfa returns (typed interpreter over every \
               reachable dataset shape), judged after every step against a Vec<Row> reference model; every row carries an identity tag \
               (records[i,j] = 8*tag+feature, weight = tag+0.5, names f<j>/t<c>). Plus enumerated strata: every single operation on a grid of shapes \
               (all split boundaries k/n, all label subsets, all chunk sizes) and all pairs of 18 representative operations. Non-trivial = at least one \
               operation executed and (a reordering op (shuffle/bootstrap*) is later followed by a selecting op (split/with_labels/one_vs_all/chunks/iterators) \
               or the dataset carries weights and both kinds of names); distinct = distinct canonical JSON of the case",
        assumptions: vec![
            "split ratios are generated inside [0,1] only (outside: documented underflow/panic); the expected split point is ceil(n as f32 * ratio) with the product in single precision, as the statement fixes".into(),
            "all comparisons are exact (values are copied, never recomputed); weights are f32 values tag+0.5, exactly representable".into(),
            "a result that carries weights / feature names / target names must carry the right ones (statement); in addition the operations documented or implemented as pure selections/views \
             (split_with_ratio owned+view, with_labels, one_vs_all, view, map_targets, target_iter, feature_iter; names also for shuffle) must not lose them ('beyond the documented selection nothing changes'); \
             shuffle (weights), bootstrap*, sample_chunks, to_owned, into_single_target build fresh datasets without them, which the statement allows; feature_iter may drop feature names when there are >= 2 features".into(),
            "shuffle / bootstrap results are not predicted (they depend on the RNG stream): shuffle must be a permutation of all rows, bootstrap rows/columns must be existing rows/features in the requested shape, one column selection for all rows".into(),
            "sample_chunks: chunk i must be rows [i*c, min(n,(i+1)*c)) in order; both dropping and yielding a trailing partial chunk are accepted (not specified); chunk size 0 is not generated (division by zero, as in ndarray)".into(),
            "target_iter only on 2-D targets (the code documents that branch as 2-D only); into_single_target only with exactly one target column (documented panic otherwise); bootstrap only on non-empty datasets and with >= 1 feature column requested (empty range / untagged rows)".into(),
            "owned split_with_ratio on column-major records / 2-D targets is a documented panic: the call is made anyway; a panic is accepted (class owned_split_col_major_documented_panic, the history continues through view().split_with_ratio), a returned answer is judged by the normal split oracle".into(),
            "one_vs_all order of labels is unspecified (HashSet); compared as a set. label_count() of every returned dataset is compared with a recount of the targets it returns".into(),
            "a panic of ndarray 0.15's own debug assertion (`can_index_slice` inside to_owned/map/select, active only because the harness builds with debug assertions) on a dataset with ZERO samples that was sliced out of a larger array (empty half of a split, empty chunk) is not attributed to linfa: the history ends there, counted in class ndarray_debug_assertion_on_empty_sliced_array; any other panic is a failure".into(),
            "view implementation of split_with_ratio is always exercised as view().split_with_ratio(r) (view judged as its own step): linfa's signature (&'a self on DatasetBase<ArrayView2<'a,_>,_>) admits the call only in the frame that created the view".into(),
            "dataset origin: besides fresh allocations, owned arrays shrunk in place are generated at the start (slice_move: 2 leading + 1 trailing filler rows stay in the buffer; remove_index: removed row stays at the end;              per array: records, targets, weights) and mid-history by the harness-side step shrink_in_place (slice_axis_inplace through the public fields records/targets/weights on an owned dataset, dropping 0..=2 leading and trailing samples);              every operation then runs on such arrays; they are row-major and contiguous, so no documented precondition is violated".into(),
            "into_single_target with != 1 target columns is a documented panic: the call is made anyway, a panic is accepted, an answer must be n single targets (first column) next to the unchanged records".into(),
            "trusted base: ndarray, DatasetBase::new/with_weights/with_feature_names/with_target_names used to build the initial dataset".into(),
        ],
        subs: vec![
            prop_sub("histories", 240000, 2000000, |t: Tier| case_strategy(t.pick(16, 40)), check)
                .chunks(16)
                .require(&["reorder_then_select", "op:into_single_target", "owned_arrays_shrunk_in_place", "records_not_a_fresh_allocation", "op:split_owned", "op:split_view", "op:with_labels", "op:one_vs_all", "op:shuffle"]),
            enum_sub("single_op_grid", |t: Tier| single_op_grid(t.pick(9, 24)), check),
            enum_sub("from_bytes", |t: Tier| byte_cases(t.pick(4000, 40000)), check),
            enum_sub("pair_grid", |t: Tier| pair_grid(if t == Tier::Quick { &[1, 5] } else { &[1, 2, 5, 8, 13] }), check),
        ],
    }
}
