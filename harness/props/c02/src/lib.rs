//! C02 — stub (to be written; see /verif/harness/AUTHORING.md and DESIGN.md §3 C02)
use vengine::Property;

pub fn property() -> Property {
    Property { id: "C02", rule: "", assumptions: vec![], subs: vec![] }
}
