//! Case type of C13 and its generators.
//!
//! A case is plain data: the training matrix, the task (labels / targets / nothing), the kernel,
//! the solver settings and a few fresh points. Strategies draw *ingredients* (gaussian noise,
//! selectors, indices) and `build` turns them into a case, so proptest shrinks the ingredients and
//! the stored replay file still shows the concrete data linfa saw.

use proptest::prelude::*;
use serde::{Deserialize, Serialize};
use vengine::gen::{gauss, idx, SplitMix};

#[derive(Debug, Clone, Serialize, Deserialize, PartialEq)]
pub enum Kern {
    Linear,
    /// exp(-|x-y|^2 / eps)
    Gaussian(f64),
    /// (<x,y> + c)^d
    Poly(f64, f64),
}

#[derive(Debug, Clone, Serialize, Deserialize)]
pub enum Task {
    CSvc { cpos: f64, cneg: f64, labels: Vec<bool>, platt: bool },
    NuSvc { nu: f64, labels: Vec<bool>, platt: bool },
    EpsSvr { c: f64, loss_eps: f64, targets: Vec<f64> },
    NuSvr { nu: f64, c: f64, targets: Vec<f64> },
    OneClass { nu: f64 },
}

#[derive(Debug, Clone, Copy, Serialize, Deserialize, PartialEq)]
pub enum Layout {
    Separable,
    Overlap,
    Imbalanced,
    Duplicates,
}

#[derive(Debug, Clone, Serialize, Deserialize)]
pub struct Case {
    pub layout: Layout,
    pub kernel: Kern,
    pub task: Task,
    /// stopping tolerance of the SMO solver
    pub eps: f64,
    pub shrinking: bool,
    /// run linfa with f32 (all numbers of the case are then exactly representable in f32)
    pub single: bool,
    pub x: Vec<Vec<f64>>,
    pub fresh: Vec<Vec<f64>>,
    /// common offset per feature that was added to `x` and `fresh` (un-centred data); documentation of
    /// the case only, the oracle works on the stored values. Empty = centred data.
    #[serde(default)]
    pub offset: Vec<f64>,
    /// memory layout of the training records handed to `fit`, see `mem::mem_name` (0 = owned, row-major)
    #[serde(default)]
    pub mem: u8,
    /// memory layout of the query batch handed to `predict`
    #[serde(default)]
    pub qmem: u8,
}

impl Case {
    pub fn n(&self) -> usize {
        self.x.len()
    }
    /// number of variables of the dual problem the solver works on
    pub fn nvars(&self) -> usize {
        match self.task {
            Task::EpsSvr { .. } | Task::NuSvr { .. } => 2 * self.x.len(),
            _ => self.x.len(),
        }
    }
}

// ------------------------------------------------------------------------------------------------
// ingredients

/// (noise for up to three features, label/outlier selector, duplicate selector, target noise)
pub type RowIng = (f64, f64, f64, u16, u16, f64);

#[derive(Debug, Clone)]
pub enum TaskIng {
    CSvc { c_exp: i32, ratio: u8, platt: bool },
    NuSvc { nu: u8, platt: bool },
    EpsSvr { c_exp: i32, le: u8 },
    NuSvr { nu: u8, c_exp: i32 },
    OneClass { nu: u8 },
}

pub const NUS: [f64; 4] = [0.1, 0.3, 0.5, 0.8];
pub const ONE_CLASS_NUS: [f64; 5] = [0.1, 0.3, 0.5, 0.8, 1.0];
pub const LOSS_EPS: [f64; 4] = [0.001, 0.01, 0.1, 0.5];
pub const RATIOS: [f64; 5] = [1.0, 0.2, 5.0, 0.5, 3.0];
pub const GAUSS_EPS: [f64; 4] = [0.05, 0.5, 5.0, 50.0];

fn c_of(c_exp: i32) -> f64 {
    // 10^(c_exp/100), rounded to 4 significant digits so that replay files stay readable
    let v = 10f64.powf(c_exp as f64 / 100.0);
    let mag = 10f64.powf(v.log10().floor() - 3.0);
    ((v / mag).round() * mag).clamp(0.01, 1000.0)
}

fn r32(v: f64, single: bool) -> f64 {
    if single {
        (v as f32) as f64
    } else {
        v
    }
}

pub struct Cfg {
    pub layout: Layout,
    pub p: usize,
    pub kernel: Kern,
    pub task: TaskIng,
    pub eps: f64,
    pub shrinking: bool,
    pub single: bool,
    /// selector of the feature offset (0..8), used with the Gaussian kernel only
    pub offset: u8,
    /// memory layouts of training records / query batch
    pub mem: u8,
    pub qmem: u8,
}

/// Smallest base <x,y> + c of a polynomial kernel with a fractional degree (by construction of c).
pub const FRACTIONAL_BASE_MIN: f64 = 0.5;
pub const POLY_DEGREES: [f64; 7] = [1.0, 2.0, 3.0, 1.5, 2.5, 0.5, 3.3];

/// Offset magnitudes by selector. f32: offset^2 * eps_mach reaches ~0.1 at 1e3; f64: at ~3e7.
pub const OFFSETS_F64: [f64; 8] = [0.0, 0.0, 0.0, 10.0, 100.0, 1000.0, 1e7, 1e8];
pub const OFFSETS_F32: [f64; 8] = [0.0, 0.0, 0.0, 10.0, 100.0, 300.0, 1000.0, 1000.0];
/// per-feature multipliers of the magnitude
pub const OFFSET_PATTERN: [f64; 3] = [1.0, -0.75, 0.5];

/// Turn ingredients into a concrete case.
pub fn build(cfg: Cfg, rows: &[RowIng], fresh: &[RowIng]) -> Case {
    let n = rows.len();
    let p = cfg.p.clamp(1, 3);
    let single = cfg.single;
    let classification = matches!(cfg.task, TaskIng::CSvc { .. } | TaskIng::NuSvc { .. });
    let one_class = matches!(cfg.task, TaskIng::OneClass { .. });
    // polynomial kernel with a fractional degree: the features are halved, which keeps the constant the
    // kernel needs (below) and with it the kernel values (<= ~6^3.3) in the range of the integer degrees
    let fractional = matches!(cfg.kernel, Kern::Poly(_, d) if d.fract() != 0.0);
    let fscale = if fractional { 0.5 } else { 1.0 };

    // labels (always at least one sample of either class: rows 0 and 1 are pinned)
    let thr: u32 = if cfg.layout == Layout::Imbalanced { 10923 } else { 32768 };
    let labels: Vec<bool> = rows
        .iter()
        .enumerate()
        .map(|(i, r)| match i {
            0 => true,
            1 => false,
            _ => (r.3 as u32) < thr,
        })
        .collect();

    let (sep, sigma) = match cfg.layout {
        Layout::Separable => (2.4, 0.25),
        Layout::Overlap => (0.8, 0.6),
        Layout::Imbalanced => (1.2, 0.5),
        Layout::Duplicates => (0.8, 0.6),
    };
    let dir = 1.0 / (p as f64).sqrt();
    let mut x: Vec<Vec<f64>> = Vec::with_capacity(n);
    for (i, r) in rows.iter().enumerate() {
        let g = [r.0.clamp(-2.5, 2.5), r.1.clamp(-2.5, 2.5), r.2.clamp(-2.5, 2.5)];
        let mut row = vec![0.0; p];
        for j in 0..p {
            row[j] = if classification {
                let s = if labels[i] { 0.5 } else { -0.5 };
                s * sep * dir + sigma * g[j]
            } else if one_class {
                // a compact cluster with a few far points
                let far = if r.3 < 5000 { 4.0 } else { 1.0 };
                0.5 * far * g[j]
            } else {
                0.8 * g[j]
            };
        }
        for v in row.iter_mut() {
            *v *= fscale;
        }
        if cfg.layout == Layout::Duplicates && i >= 2 && r.4 < 16384 {
            // copy the features of an earlier row; the label / target of this row stays
            let src = idx(r.4.saturating_mul(4), i);
            row = x[src].clone();
        }
        for v in row.iter_mut() {
            // 2^-16 grid keeps replay files short and products exact-ish
            *v = r32((*v * 65536.0).round() / 65536.0, single);
        }
        x.push(row);
    }
    let targets: Vec<f64> = rows
        .iter()
        .zip(&x)
        .map(|(r, xr)| {
            let x0 = xr[0];
            let mut y = 0.8 * x0 + 0.5 * (2.0 * x0).sin() + 0.1 * r.5;
            if r.3 < 3000 || (cfg.layout == Layout::Imbalanced && r.3 < 9000) {
                y += if r.5 >= 0.0 { 2.0 } else { -2.0 };
            }
            r32((y * 65536.0).round() / 65536.0, single)
        })
        .collect();

    // un-centred data: a common offset per feature, large against the spread (the targets above were
    // computed from the centred features). Only with the Gaussian kernel: it depends on differences only, so
    // the true kernel values stay the same and every tolerance of the oracle keeps its meaning; linear and
    // polynomial kernel values would grow like offset^2 (the KKT slack, which is relative to sum |a_j K_ij|,
    // would become vacuous and SMO would run into its iteration cap).
    let mag = if matches!(cfg.kernel, Kern::Gaussian(_)) {
        (if single { OFFSETS_F32 } else { OFFSETS_F64 })[(cfg.offset as usize).min(7)]
    } else {
        0.0
    };
    let offset: Vec<f64> = if mag == 0.0 { vec![] } else { (0..p).map(|j| mag * OFFSET_PATTERN[j]).collect() };
    let shift = |row: &mut Vec<f64>| {
        for (v, o) in row.iter_mut().zip(&offset) {
            *v = r32(((*v + *o) * 65536.0).round() / 65536.0, single);
        }
    };
    for row in x.iter_mut() {
        shift(row);
    }

    let npos = labels.iter().filter(|b| **b).count();
    let nmin = npos.min(n - npos);
    let pick_nu = |sel: u8| -> f64 {
        // nu-SVC is only defined when nu*n/2 <= min(n+, n-); stay strictly inside
        // in the overlapping layouts a small nu makes the reduced hulls intersect (margin r -> 0,
        // nothing to judge), so the smallest value is not used there
        let lo = if matches!(cfg.layout, Layout::Overlap | Layout::Duplicates) { 1 } else { 0 };
        let want = NUS[(sel as usize).clamp(lo, 3)];
        let feasible = |nu: f64| nu * (n as f64) / 2.0 <= nmin as f64 - 0.5;
        if feasible(want) {
            return want;
        }
        for nu in NUS.iter().rev() {
            if *nu < want && feasible(*nu) {
                return *nu;
            }
        }
        // half of the largest feasible value
        ((nmin as f64 / n as f64) * 1024.0).floor() / 1024.0
    };

    // SVR: the number of SMO iterations explodes with C * (kernel scale) (10^6..10^7 iterations, linfa's
    // cap is 10^7), so the exponent of C is compressed monotonically into a range that depends on the kernel
    let svr_c = |c_exp: i32| -> f64 {
        let hi = match cfg.kernel {
            Kern::Poly(_, d) if d >= 3.0 => 0,
            Kern::Poly(_, d) if d >= 2.0 => 50,
            _ => 150,
        };
        let e = -200 + ((c_exp + 200).clamp(0, 500) as i64 * (hi + 200) as i64 / 500) as i32;
        c_of(e)
    };
    let task = match cfg.task {
        TaskIng::CSvc { c_exp, ratio, platt } => {
            let cpos = c_of(c_exp);
            let cneg = (cpos * RATIOS[(ratio as usize).min(4)]).clamp(0.01, 1000.0);
            Task::CSvc { cpos: r32(cpos, single), cneg: r32(cneg, single), labels, platt }
        }
        TaskIng::NuSvc { nu, platt } => Task::NuSvc { nu: r32(pick_nu(nu), single), labels, platt },
        TaskIng::EpsSvr { c_exp, le } => Task::EpsSvr {
            c: r32(svr_c(c_exp), single),
            loss_eps: r32(LOSS_EPS[(le as usize).min(3)], single),
            targets,
        },
        TaskIng::NuSvr { nu, c_exp } => Task::NuSvr {
            nu: r32(NUS[(nu as usize).min(3)], single),
            c: r32(svr_c(c_exp), single),
            targets,
        },
        TaskIng::OneClass { nu } => Task::OneClass { nu: r32(ONE_CLASS_NUS[(nu as usize).min(4)], single) },
    };
    let fresh: Vec<Vec<f64>> = fresh
        .iter()
        .map(|r| {
            // with a fractional degree the fresh points stay in the box of the training noise, which bounds
            // the constant the kernel needs (below)
            let lim = if fractional { 2.5 } else { f64::INFINITY };
            let g = [r.0.clamp(-lim, lim), r.1.clamp(-lim, lim), r.2.clamp(-lim, lim)];
            let mut row: Vec<f64> = (0..p).map(|j| r32((1.2 * fscale * g[j] * 65536.0).round() / 65536.0, single)).collect();
            shift(&mut row);
            row
        })
        .collect();
    let kernel = match cfg.kernel {
        Kern::Linear => Kern::Linear,
        Kern::Gaussian(e) => Kern::Gaussian(r32(e, single)),
        Kern::Poly(c, d) if !fractional => Kern::Poly(r32(c, single), d),
        Kern::Poly(c, d) => {
            // (<x,y> + c)^d with a fractional d needs a positive base: the constant is *constructed* from the
            // smallest inner product between a training row and any training / fresh row so that the base
            // is >= FRACTIONAL_BASE_MIN for every kernel evaluation of fit and predict (1/16 grid: exact in f32)
            let mut max_abs_ip = 0.0f64;
            for xi in &x {
                for y in x.iter().chain(fresh.iter()) {
                    let ip: f64 = xi.iter().zip(y).map(|(a, b)| a * b).sum();
                    max_abs_ip = max_abs_ip.max(ip.abs());
                }
            }
            // c >= max |<x,y>| + 1/2: the base lies in [1/2, 2c] and |<x,y>|/c < 1, so the binomial series of
            // c^d (1 + <x,y>/c)^d converges and its leading (positive semi-definite) terms dominate
            let c0 = ((max_abs_ip + FRACTIONAL_BASE_MIN) * 16.0).ceil() / 16.0;
            Kern::Poly(r32(c0 + c, single), r32(d, single))
        }
    };
    Case {
        layout: cfg.layout,
        kernel,
        task,
        // a fractional-degree kernel is not positive semi-definite; SMO then needs millions of iterations for
        // eps = 1e-5 (cost), so these cases use the coarser stopping tolerance
        eps: r32(if fractional { 1e-3 } else { cfg.eps }, single),
        shrinking: cfg.shrinking,
        single,
        x,
        fresh,
        offset,
        mem: cfg.mem % crate::mem::MEMS,
        qmem: cfg.qmem % crate::mem::MEMS,
    }
}

// ------------------------------------------------------------------------------------------------
// strategies

fn row_ing() -> impl Strategy<Value = RowIng> {
    (gauss(), gauss(), gauss(), any::<u16>(), any::<u16>(), gauss())
}

fn layout() -> impl Strategy<Value = Layout> {
    prop_oneof![
        Just(Layout::Separable),
        Just(Layout::Overlap),
        Just(Layout::Imbalanced),
        Just(Layout::Duplicates),
    ]
}

pub fn kernel() -> impl Strategy<Value = Kern> {
    prop_oneof![
        3 => Just(Kern::Linear),
        4 => (0usize..4).prop_map(|i| Kern::Gaussian(GAUSS_EPS[i])),
        // for the fractional degrees the constant is raised in `build` until every base is positive
        4 => (0usize..4, 0usize..7).prop_map(|(c, d)| Kern::Poly([0.0, 0.5, 1.0, 2.0][c], POLY_DEGREES[d])),
    ]
}

/// `c_hi`: upper end of the exponent range of C (300 = 1e3).
pub fn task(c_lo: i32, c_hi: i32) -> impl Strategy<Value = TaskIng> {
    prop_oneof![
        4 => (c_lo..=c_hi, 0u8..5, proptest::bool::weighted(0.3))
            .prop_map(|(c_exp, ratio, platt)| TaskIng::CSvc { c_exp, ratio, platt }),
        3 => (0u8..4, proptest::bool::weighted(0.3)).prop_map(|(nu, platt)| TaskIng::NuSvc { nu, platt }),
        3 => (c_lo..=c_hi, 0u8..4).prop_map(|(c_exp, le)| TaskIng::EpsSvr { c_exp, le }),
        1 => (0u8..4, c_lo..=c_hi).prop_map(|(nu, c_exp)| TaskIng::NuSvr { nu, c_exp }),
        2 => (0u8..5).prop_map(|nu| TaskIng::OneClass { nu }),
    ]
}

#[derive(Clone, Copy)]
pub struct Flavor {
    pub n_lo: usize,
    pub n_hi: usize,
    pub shrinking: bool,
    pub single: bool,
    pub c_lo: i32,
    pub c_hi: i32,
}

pub fn case_strategy(fl: Flavor) -> impl Strategy<Value = Case> {
    (
        proptest::collection::vec(row_ing(), fl.n_lo..=fl.n_hi),
        proptest::collection::vec(row_ing(), 4),
        layout(),
        1usize..=3,
        kernel(),
        task(fl.c_lo, fl.c_hi),
        any::<bool>(),
        0u8..8,
        (0u8..crate::mem::MEMS, 0u8..crate::mem::MEMS),
    )
        .prop_map(move |(rows, fresh, layout, p, kernel, task, fine, offset, (mem, qmem))| {
            let eps = if fl.single || !fine { 1e-3 } else { 1e-5 };
            build(
                Cfg { layout, p, kernel, task, eps, shrinking: fl.shrinking, single: fl.single, offset, mem, qmem },
                &rows,
                &fresh,
            )
        })
}

/// Large stratum: the bulk data is derived from one generated seed (a case with 2000 explicit
/// ingredient rows would make proptest's shrinking useless and slow).
pub fn large_strategy(n_lo: usize, n_hi: usize) -> impl Strategy<Value = Case> {
    (any::<u64>(), n_lo..=n_hi, layout(), 1usize..=3, kernel(), task(-200, 100), any::<bool>(), any::<bool>(), 0u8..8, (0u8..crate::mem::MEMS, 0u8..crate::mem::MEMS)).prop_map(
        |(seed, n, layout, p, kernel, task, fine, shrinking, offset, (mem, qmem))| {
            let mut rng = SplitMix(seed);
            let mut mk = |k: usize| -> Vec<RowIng> {
                (0..k)
                    .map(|_| {
                        (
                            rng.gauss(),
                            rng.gauss(),
                            rng.gauss(),
                            (rng.next_u64() >> 48) as u16,
                            (rng.next_u64() >> 48) as u16,
                            rng.gauss(),
                        )
                    })
                    .collect()
            };
            let rows = mk(n);
            let fresh = mk(4);
            let eps = if fine { 1e-5 } else { 1e-3 };
            build(Cfg { layout, p, kernel, task, eps, shrinking, single: false, offset, mem, qmem }, &rows, &fresh)
        },
    )
}
