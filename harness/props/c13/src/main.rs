fn main() {
    vengine::main(c13::property())
}
