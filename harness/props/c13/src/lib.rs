//! C13 — stub (to be written; see /verif/harness/AUTHORING.md and DESIGN.md §3 C13)
use vengine::Property;

pub fn property() -> Property {
    Property { id: "C13", rule: "", assumptions: vec![], subs: vec![] }
}
