//! C13 — SVM solutions satisfy the dual feasibility and KKT conditions they publish.
//!
//! Every case is a complete training problem (data, task, kernel, solver settings). linfa-svm fits
//! it; the oracle (`oracle.rs`) recomputes, in f64 and with its own kernel code, the decision
//! function `sum_i a_i K(x_i, x) - rho` from the *published* `alpha`/`rho`, and checks
//!   (1) `weighted_sum`, `predict` (labels / values / Platt probabilities) and `nsupport` against it,
//!   (2) dual feasibility (box per class weight, equality constraint),
//!   (3) the KKT conditions within the solver's stopping tolerance when the model says it stopped on
//!       the threshold,
//!   (4) termination (a run that hits the iteration cap is counted, not judged).
//!
//! Why `KKT_EPS_FACTOR * eps` is a sound slack: the solver stops when m(a) - M(a) < eps with
//! m = max_{I_up} -y_i G_i, M = min_{I_low} -y_i G_i, and rho is the mean of y_i G_i over the free
//! variables (or the midpoint of the two bounds). Free variables belong to I_up and I_low, so all
//! free values lie in an interval shorter than eps that contains rho; every other variable is on
//! the correct side of that interval up to eps. Each KKT inequality therefore holds within 1*eps in
//! exact arithmetic; the factor 2 and the drift term cover the incrementally updated gradient.

pub mod case;
pub mod mem;
pub mod oracle;
pub mod run;

use case::{case_strategy, large_strategy, Flavor};
use vengine::{prop_sub, Property, Tier};

pub fn property() -> Property {
    Property {
        id: "C13",
        rule: "case = (memory layout of training records and of the query batch: owned row-/column-major, views row-/column-major/strided with gaps/reversed rows; layout separable|overlap|imbalanced 1:5|duplicated points, n, 1..3 features, feature offset 0|1e1..1e3|1e7|1e8 (Gaussian kernel), kernel linear|Gaussian|polynomial, \
               task C-SVC with (c+,c-)|nu-SVC|eps-SVR|nu-SVR|one-class, solver eps 1e-3|1e-5, shrinking, f32|f64, 4 fresh points), built from \
               proptest-drawn gaussian noise and selectors. Non-trivial = the solver reports exit on the threshold and the published solution \
               has at least one free and at least one bounded support vector; with shrinking additionally iterations > min(#variables, 1000) \
               so that do_shrinking ran. distinct = distinct canonical JSON of the case",
        assumptions: vec![
            "reference decision function sum_i alpha_i K(x_i,x) - rho is computed in f64 with the harness' own kernel code from the published alpha/rho".into(),
            format!("KKT slack per sample: {} * solver eps (divided by r for nu-SVC) + drift * (sum_j |a_j K_ij| + |rho| + |target|), drift = {:e} (f64) / {:e} (f32)",
                oracle::KKT_EPS_FACTOR, oracle::DRIFT_F64, oracle::DRIFT_F32),
            format!("weighted_sum / predict vs own sum: relative {:e} (f64) / {:e} (f32) of sum_j |a_j K(x_j,x)|, plus twice the contribution of coefficients <= 100 eps_mach (weighted_sum may drop them)",
                oracle::DEC_REL_F64, oracle::DEC_REL_F32),
            format!("equality constraint: |sum a_i - c| <= {:e} (f64) / {:e} (f32) * (sum |a_i| + largest bound); box: relative {:e} / {:e}",
                oracle::EQ_REL_F64, oracle::EQ_REL_F32, oracle::BOX_REL_F64, oracle::BOX_REL_F32),
            "status of a sample (zero / free / bounded) is read off the published coefficient exactly as the solver does (== 0, >= bound); for nu-SVC the bound 1/r is reconstructed as sum|a_i| / (nu n) and coefficients within 1e-9 of it only have to satisfy the weaker 'bounded' condition".into(),
            format!("nu-SVC runs whose margin r = nu n / sum|a_i| is below {} * solver eps (reduced hulls touch, the published quantities are divided by ~0) are counted, not judged", oracle::NU_MIN_R_OVER_EPS),
            "nu-SVC is generated only with nu n / 2 <= min(n+, n-) - 1/2 (otherwise the nu-SVC dual has no feasible point); both classes are always present".into(),
            "nu-SVR: only feasibility, decision-function consistency and 'all free vectors share one |residual|' are asserted".into(),
            "one-class with nu = 1 (all coefficients at the bound, rho = +inf, as in LIBSVM) is accepted".into(),
            "polynomial kernels (<x,y> + c)^d: degrees 1, 2, 3 with c in {0, 0.5, 1, 2}, and the fractional degrees 0.5, 1.5, 2.5, 3.3, for which the features are halved, the solver eps is 1e-3 and c is constructed per case as ceil_16(max |<x_i,y>| + 0.5) + {0, 0.5, 1, 2} over all training x training and training x fresh pairs, so every base the fit and the predictions evaluate lies in [0.5, 2c] and powf is defined (negative constants / bases are not generated). Reference = f64 powf on the f64 inner product; against linfa's own evaluation this differs by <= d * eps_mach * (c + |<x,y>|) / base relative (f64 ~1e-14, f32 <= 3.3 * 6e-8 * 2c / 0.5 < 4e-5 for c <= 40), inside the stated decision tolerances (1e-10 / 2e-4); a fractional-degree kernel need not be positive semi-definite: the KKT conditions and the eps argument do not use definiteness, and a nu-SVC run whose margin came out negative (all coefficients sign-flipped) is counted, not judged; Gaussian width in {0.05,0.5,5,50}; dense kernels only".into(),
            "KKT conditions are judged only when Display says the solver exited on the threshold; runs at the iteration cap are counted as not judged".into(),
            "nsupport = number of coefficients with |a_i| > 100 eps_mach (the definition in the code); the corner of a coefficient within a factor r of that threshold is not targeted".into(),
            "Platt calibration errors (line search / iteration limit of the calibration) are counted, not judged; probabilities must be monotone within 1e-6 in the model's own decision value".into(),
            "f32 cases: C <= 10, eps = 1e-3, all numbers of the case exactly representable in f32".into(),
            "un-centred data (class offset_data): with the Gaussian kernel 5 of 8 cases get a common offset per feature (magnitude x (1, -0.75, 0.5)): 10, 100, 1e3, 1e7, 1e8 in f64 and 10, 100, 300, 1e3 in f32, spread and kernel width unchanged. The reference kernel is sum_k (a_k - b_k)^2 in f64 on the exactly stored values; differences of stored floats within a factor 2 are exact in either float type, so no tolerance changes. Linear and polynomial kernels are generated on centred data only: their values grow like offset^2, which would make the KKT slack (relative to sum |a_j K_ij|) vacuous and drive SMO into its iteration cap".into(),
            "C in 10^[-2,3] for classification; for SVR the exponent range is compressed to C <= 31.6 (linear, Gaussian, degree 1), <= 3.2 (degree 2), <= 1 (degree 3): beyond that SMO needs 10^6..10^7 iterations per fit (linfa's cap is 10^7), a cost limit of the harness, not a domain limit of the property; the large-n stratum uses C <= 10".into(),
            "loss epsilon of eps-SVR in {0.001, 0.01, 0.1, 0.5}: c_svr(c, Some(0.0)) is rejected by linfa's parameter check (InvalidC), so 0 is not generated".into(),
        ],
        subs: vec![
            // heaviest first
            prop_sub("large_n", 36, 160, |t: Tier| large_strategy(t.pick(250, 600), t.pick(600, 2000)), oracle::check).chunks(12),
            prop_sub(
                "shrink",
                1600,
                20000,
                |t: Tier| {
                    case_strategy(Flavor { n_lo: 10, n_hi: t.pick(90, 120), shrinking: true, single: false, c_lo: -100, c_hi: 300 })
                },
                oracle::check,
            )
            .chunks(16),
            prop_sub(
                "noshrink",
                8000,
                96000,
                |_t: Tier| case_strategy(Flavor { n_lo: 10, n_hi: 120, shrinking: false, single: false, c_lo: -200, c_hi: 300 }),
                oracle::check,
            )
            .chunks(16)
            .require(&["task_c_svc", "task_nu_svc", "task_eps_svr", "task_one_class", "has_free_sv", "has_bounded_sv", "offset_data", "offset_ge_1e7_f64", "poly_fractional_degree", "mem_owned_column_major", "mem_view_column_major", "mem_view_strided_with_gaps", "linear_kernel_non_standard_layout"]),
            prop_sub(
                "f32",
                2400,
                20000,
                |_t: Tier| case_strategy(Flavor { n_lo: 10, n_hi: 60, shrinking: false, single: true, c_lo: -200, c_hi: 100 }),
                oracle::check,
            )
            .chunks(8)
            .require(&["offset_data", "offset_1e3_f32", "poly_fractional_degree"]),
        ],
    }
}
