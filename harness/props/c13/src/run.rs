//! Calls into linfa-svm (f64 and f32 instantiations) and extraction of everything the model
//! publishes into plain f64 data for the oracle.

use crate::case::{Case, Kern, Task};
use crate::mem;
use linfa::dataset::{DatasetBase, Pr};
use linfa::traits::{Fit, Predict};
use linfa_svm::Svm;
use ndarray::{Array1, Array2};

#[derive(Debug, Clone)]
pub enum Outs {
    Bool(Vec<bool>),
    Real(Vec<f64>),
}

/// What a fitted model publishes (train rows first, then the fresh rows).
#[derive(Debug, Clone)]
pub struct Extract {
    pub alpha: Vec<f64>,
    pub rho: f64,
    pub nsupport: usize,
    pub display: String,
    /// `weighted_sum(x)` per point
    pub ws: Vec<f64>,
    /// `predict` on the whole matrix
    pub outs: Outs,
    /// `predict` on single rows (first and last point), same type as `outs`
    pub outs_single: Vec<(usize, f64)>,
    /// labels `weighted_sum(x) - rho >= 0` evaluated in the model's own float type
    pub own_sign: Vec<bool>,
    /// machine epsilon of the float type linfa ran with
    pub eps_mach: f64,
}

#[derive(Debug, Clone)]
pub struct PlattExtract {
    pub alpha: Vec<f64>,
    pub rho: f64,
    pub probs: Vec<f64>,
    pub probs_single: Vec<(usize, f64)>,
}

pub enum FitOutcome<T> {
    Model(T),
    /// `fit` returned `Err` (text)
    Error(String),
    /// `fit` panicked (message @ location)
    Panic(String),
}

macro_rules! impl_run {
    ($fit:ident, $fit_platt:ident, $f:ty) => {
        pub fn $fit(case: &Case) -> FitOutcome<Extract> {
            let n = case.x.len();
            let p = case.x.first().map(|r| r.len()).unwrap_or(0);
            let x: Array2<$f> = Array2::from_shape_fn((n, p), |(i, j)| case.x[i][j] as $f);
            let m = case.fresh.len();
            let all: Array2<$f> = Array2::from_shape_fn((n + m, p), |(i, j)| {
                if i < n {
                    case.x[i][j] as $f
                } else {
                    case.fresh[i - n][j] as $f
                }
            });
            // the same logical matrices in the memory layout of the case (gaps of strided views hold junk)
            let xo = mem::owned(&x, case.mem);
            let xb = mem::backing(&x, case.mem, 1.0e30 as $f);
            let xv = mem::view_of(&xb, case.mem, n, p);
            let qb = mem::backing(&all, case.qmem, 1.0e30 as $f);
            let allq = mem::view_of(&qb, case.qmem, n + m, p);
            macro_rules! with_common {
                ($params:expr) => {{
                    let prm = $params.eps(case.eps as $f).shrinking(case.shrinking);
                    match case.kernel {
                        Kern::Linear => prm.linear_kernel(),
                        Kern::Gaussian(e) => prm.gaussian_kernel(e as $f),
                        Kern::Poly(c, d) => prm.polynomial_kernel(c as $f, d as $f),
                    }
                }};
            }
            macro_rules! extract_bool {
                ($model:expr) => {{
                    let model = $model;
                    let ws: Vec<f64> = all.outer_iter().map(|r| model.weighted_sum(&r) as f64).collect();
                    let own_sign: Vec<bool> =
                        all.outer_iter().map(|r| model.weighted_sum(&r) - model.rho >= 0.0).collect();
                    let outs = Outs::Bool(model.predict(&allq).to_vec());
                    let mut outs_single = vec![];
                    for i in [0usize, n + m - 1] {
                        let b: bool = model.predict(all.row(i));
                        outs_single.push((i, if b { 1.0 } else { 0.0 }));
                    }
                    Extract {
                        alpha: model.alpha.iter().map(|a| *a as f64).collect(),
                        rho: model.rho as f64,
                        nsupport: model.nsupport(),
                        display: format!("{}", model),
                        ws,
                        outs,
                        outs_single,
                        own_sign,
                        eps_mach: <$f>::EPSILON as f64,
                    }
                }};
            }
            let res: Result<Result<Extract, String>, String> = vengine::guard(|| match &case.task {
                Task::CSvc { cpos, cneg, labels, .. } => {
                    let y = Array1::from(labels.clone());
                    let prm = with_common!(Svm::<$f, bool>::params()).pos_neg_weights(*cpos as $f, *cneg as $f);
                    if mem::is_view(case.mem) {
                        let ds = DatasetBase::new(xv.clone(), y.view());
                        prm.fit(&ds).map(|m| extract_bool!(m)).map_err(|e| e.to_string())
                    } else {
                        let ds = DatasetBase::new(xo.clone(), y);
                        prm.fit(&ds).map(|m| extract_bool!(m)).map_err(|e| e.to_string())
                    }
                }
                Task::NuSvc { nu, labels, .. } => {
                    let y = Array1::from(labels.clone());
                    let prm = with_common!(Svm::<$f, bool>::params()).nu_weight(*nu as $f);
                    if mem::is_view(case.mem) {
                        let ds = DatasetBase::new(xv.clone(), y.view());
                        prm.fit(&ds).map(|m| extract_bool!(m)).map_err(|e| e.to_string())
                    } else {
                        let ds = DatasetBase::new(xo.clone(), y);
                        prm.fit(&ds).map(|m| extract_bool!(m)).map_err(|e| e.to_string())
                    }
                }
                Task::OneClass { nu } => {
                    let prm = with_common!(Svm::<$f, Pr>::params()).nu_weight(*nu as $f);
                    if mem::is_view(case.mem) {
                        let y = Array1::<()>::from_elem(n, ());
                        let ds = DatasetBase::new(xv.clone(), y.view());
                        prm.fit(&ds).map(|m| extract_bool!(m)).map_err(|e| e.to_string())
                    } else {
                        let ds = DatasetBase::from(xo.clone());
                        prm.fit(&ds).map(|m| extract_bool!(m)).map_err(|e| e.to_string())
                    }
                }
                Task::EpsSvr { .. } | Task::NuSvr { .. } => {
                    let (targets, prm) = match &case.task {
                        Task::EpsSvr { c, loss_eps, targets } => (
                            targets,
                            with_common!(Svm::<$f, $f>::params()).c_svr(*c as $f, Some(*loss_eps as $f)),
                        ),
                        Task::NuSvr { nu, c, targets } => (
                            targets,
                            with_common!(Svm::<$f, $f>::params()).nu_svr(*nu as $f, Some(*c as $f)),
                        ),
                        _ => unreachable!(),
                    };
                    let y: Array1<$f> = targets.iter().map(|v| *v as $f).collect();
                    let fitted = if mem::is_view(case.mem) {
                        prm.fit(&DatasetBase::new(xv.clone(), y.view()))
                    } else {
                        prm.fit(&DatasetBase::new(xo.clone(), y.clone()))
                    };
                    fitted
                        .map(|model| {
                            let ws: Vec<f64> = all.outer_iter().map(|r| model.weighted_sum(&r) as f64).collect();
                            let own_sign: Vec<bool> =
                                all.outer_iter().map(|r| model.weighted_sum(&r) - model.rho >= 0.0).collect();
                            let pred: Array1<$f> = model.predict(&allq);
                            let outs = Outs::Real(pred.iter().map(|v| *v as f64).collect());
                            let mut outs_single = vec![];
                            for i in [0usize, n + m - 1] {
                                let v: $f = model.predict(all.row(i));
                                outs_single.push((i, v as f64));
                            }
                            Extract {
                                alpha: model.alpha.iter().map(|a| *a as f64).collect(),
                                rho: model.rho as f64,
                                nsupport: model.nsupport(),
                                display: format!("{}", model),
                                ws,
                                outs,
                                outs_single,
                                own_sign,
                                eps_mach: <$f>::EPSILON as f64,
                            }
                        })
                        .map_err(|e| e.to_string())
                }
            });
            match res {
                Ok(Ok(e)) => FitOutcome::Model(e),
                Ok(Err(e)) => FitOutcome::Error(e),
                Err(p) => FitOutcome::Panic(p),
            }
        }

        /// Same problem fitted as `Svm<_, Pr>` (Platt calibration on top of the same dual solution).
        pub fn $fit_platt(case: &Case) -> Option<FitOutcome<PlattExtract>> {
            let n = case.x.len();
            let p = case.x.first().map(|r| r.len()).unwrap_or(0);
            let x: Array2<$f> = Array2::from_shape_fn((n, p), |(i, j)| case.x[i][j] as $f);
            let m = case.fresh.len();
            let all: Array2<$f> = Array2::from_shape_fn((n + m, p), |(i, j)| {
                if i < n {
                    case.x[i][j] as $f
                } else {
                    case.fresh[i - n][j] as $f
                }
            });
            // the same logical matrices in the memory layout of the case (gaps of strided views hold junk)
            let xo = mem::owned(&x, case.mem);
            let xb = mem::backing(&x, case.mem, 1.0e30 as $f);
            let xv = mem::view_of(&xb, case.mem, n, p);
            let qb = mem::backing(&all, case.qmem, 1.0e30 as $f);
            let allq = mem::view_of(&qb, case.qmem, n + m, p);
            let (labels, prm) = match &case.task {
                Task::CSvc { cpos, cneg, labels, platt: true } => {
                    (labels, Svm::<$f, Pr>::params().pos_neg_weights(*cpos as $f, *cneg as $f))
                }
                Task::NuSvc { nu, labels, platt: true } => (labels, Svm::<$f, Pr>::params().nu_weight(*nu as $f)),
                _ => return None,
            };
            let prm = prm.eps(case.eps as $f).shrinking(case.shrinking);
            let prm = match case.kernel {
                Kern::Linear => prm.linear_kernel(),
                Kern::Gaussian(e) => prm.gaussian_kernel(e as $f),
                Kern::Poly(c, d) => prm.polynomial_kernel(c as $f, d as $f),
            };
            let y = Array1::from(labels.clone());
            let res = vengine::guard(|| {
                let fitted = if mem::is_view(case.mem) {
                    prm.fit(&DatasetBase::new(xv.clone(), y.view()))
                } else {
                    prm.fit(&DatasetBase::new(xo.clone(), y.clone()))
                };
                fitted
                    .map(|model| {
                        let probs: Vec<f64> = model.predict(&allq).iter().map(|p| **p as f64).collect();
                        let mut probs_single = vec![];
                        for i in [0usize, n + m - 1] {
                            let pr: Pr = model.predict(all.row(i));
                            probs_single.push((i, *pr as f64));
                        }
                        PlattExtract {
                            alpha: model.alpha.iter().map(|a| *a as f64).collect(),
                            rho: model.rho as f64,
                            probs,
                            probs_single,
                        }
                    })
                    .map_err(|e| e.to_string())
            });
            Some(match res {
                Ok(Ok(e)) => FitOutcome::Model(e),
                Ok(Err(e)) => FitOutcome::Error(e),
                Err(p) => FitOutcome::Panic(p),
            })
        }
    };
}

impl_run!(fit_f64, fit_platt_f64, f64);
impl_run!(fit_f32, fit_platt_f32, f32);

pub fn fit(case: &Case) -> FitOutcome<Extract> {
    if case.single {
        fit_f32(case)
    } else {
        fit_f64(case)
    }
}

pub fn fit_platt(case: &Case) -> Option<FitOutcome<PlattExtract>> {
    if case.single {
        fit_platt_f32(case)
    } else {
        fit_platt_f64(case)
    }
}
