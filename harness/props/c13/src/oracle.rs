//! Independent f64 oracle for C13: the harness' own kernel, decision function, dual feasibility and
//! KKT conditions, evaluated on the coefficients the model publishes (`alpha`, `rho`).

use crate::case::{Case, Kern, Layout, Task};
use crate::run::{self, Extract, FitOutcome, Outs};
use vengine::Obs;

// ---- tolerances (all written into the evidence `assumptions`, see lib.rs) -----------------------

/// KKT slack in units of the solver's stopping tolerance `eps` (derivation in lib.rs: every KKT
/// inequality holds within 1*eps in exact arithmetic once the maximal violating pair is below eps).
pub const KKT_EPS_FACTOR: f64 = 2.0;
/// Relative slack for the drift of the incrementally maintained gradient (per unit of
/// S_i = sum_j |a_j K_ij| + |rho| + |target|), f64 / f32.
pub const DRIFT_F64: f64 = 1e-9;
pub const DRIFT_F32: f64 = 5e-4;
/// weighted_sum / predict against the harness' own sum: relative to S(x) = sum_j |a_j K(x_j,x)|.
pub const DEC_REL_F64: f64 = 1e-10;
pub const DEC_REL_F32: f64 = 2e-4;
/// Absolute floor per unit of sum |a_j| (kernel values that underflow in the model's float type).
pub const UNDERFLOW_F32: f64 = 1e-37;
pub const UNDERFLOW_F64: f64 = 1e-300;
/// Equality constraint sum a_i = c: relative to sum |a_i| (+ the largest box bound).
pub const EQ_REL_F64: f64 = 1e-9;
pub const EQ_REL_F32: f64 = 1e-3;
/// Box constraint: relative to the bound.
pub const BOX_REL_F64: f64 = 1e-12;
pub const BOX_REL_F32: f64 = 1e-5;
/// nu-SVC: the published coefficients are alpha/r; a margin r below this multiple of the solver
/// tolerance means the (reduced) hulls of the two classes touch and the rescaled problem is
/// ill-posed (division by ~0): such runs are counted, not judged.
pub const NU_MIN_R_OVER_EPS: f64 = 20.0;

pub fn kernel(k: &Kern, a: &[f64], b: &[f64]) -> f64 {
    match *k {
        Kern::Linear => a.iter().zip(b).map(|(x, y)| x * y).sum(),
        Kern::Gaussian(e) => {
            let d: f64 = a.iter().zip(b).map(|(x, y)| (x - y) * (x - y)).sum();
            (-d / e).exp()
        }
        Kern::Poly(c, d) => {
            let s: f64 = a.iter().zip(b).map(|(x, y)| x * y).sum();
            (s + c).powf(d)
        }
    }
}

/// (sum_j a_j K(x_j, x), sum_j |a_j K(x_j, x)|, the part of the latter that belongs to coefficients
/// at or below the support-vector threshold, which `weighted_sum` is allowed to drop)
fn dual_sum(case: &Case, alpha: &[f64], x: &[f64], sv_thr: f64) -> (f64, f64, f64) {
    let mut s = 0.0;
    let mut abs = 0.0;
    let mut dropped = 0.0;
    for (a, xi) in alpha.iter().zip(&case.x) {
        if *a != 0.0 {
            let t = a * kernel(&case.kernel, xi, x);
            s += t;
            abs += t.abs();
            if a.abs() <= sv_thr {
                dropped += t.abs();
            }
        }
    }
    (s, abs, dropped)
}

/// Signature of an oracle branch. Once `do_shrinking` has run (`shrunk`), the obligations are grouped
/// (`shrink:kkt`, `shrink:feasible`, `shrink:decision`, ...): the shrinking code has several
/// interacting defects whose symptoms cannot be told apart from the published solution, and these
/// signatures must never mask an obligation of the plain solver.
fn mk_sig(shrunk: bool, s: &str) -> String {
    if shrunk {
        let group = match s.split(':').next().unwrap_or(s) {
            "rho" | "alpha" | "nu-svc" => "not-finite",
            g => g,
        };
        format!("shrink:{group}")
    } else {
        s.to_string()
    }
}

struct Display {
    threshold: bool,
    iterations: Option<u64>,
    nsupport: Option<usize>,
}

fn parse_display(s: &str) -> Option<Display> {
    // "Exited after {} iterations with obj = {} and {} support vectors"
    // "Reached maximal iterations {} with obj = {} and {} support vectors"
    let (threshold, rest) = if let Some(r) = s.strip_prefix("Exited after ") {
        (true, r)
    } else if let Some(r) = s.strip_prefix("Reached maximal iterations ") {
        (false, r)
    } else {
        return None;
    };
    let iterations = rest.split_whitespace().next().and_then(|t| t.parse::<u64>().ok());
    let nsupport = rest
        .rsplit(" and ")
        .next()
        .and_then(|t| t.split_whitespace().next())
        .and_then(|t| t.parse::<usize>().ok());
    Some(Display { threshold, iterations, nsupport })
}

fn classify(case: &Case, obs: &mut Obs) {
    obs.class(match case.layout {
        Layout::Separable => "layout_separable",
        Layout::Overlap => "layout_overlap",
        Layout::Imbalanced => "layout_imbalanced",
        Layout::Duplicates => "layout_duplicates",
    });
    obs.class(match case.kernel {
        Kern::Linear => "kernel_linear",
        Kern::Gaussian(_) => "kernel_gaussian",
        Kern::Poly(..) => "kernel_polynomial",
    });
    obs.class_if(matches!(case.kernel, Kern::Poly(_, d) if d.fract() != 0.0), "poly_fractional_degree");
    obs.class(crate::mem::mem_name(case.mem));
    obs.class_if(case.qmem % crate::mem::MEMS != 0 && case.qmem % crate::mem::MEMS != 2, "query_batch_non_standard_layout");
    let p = case.x.first().map(|r| r.len()).unwrap_or(0);
    obs.class_if(
        case.kernel == Kern::Linear && p >= 2 && !matches!(case.mem % crate::mem::MEMS, 0 | 2),
        "linear_kernel_non_standard_layout",
    );
    obs.class(match case.task {
        Task::CSvc { .. } => "task_c_svc",
        Task::NuSvc { .. } => "task_nu_svc",
        Task::EpsSvr { .. } => "task_eps_svr",
        Task::NuSvr { .. } => "task_nu_svr",
        Task::OneClass { .. } => "task_one_class",
    });
    if let Task::CSvc { cpos, cneg, .. } = case.task {
        obs.class_if(cpos != cneg, "unequal_class_weights");
    }
    let max_off = case.offset.iter().fold(0.0f64, |m, o| m.max(o.abs()));
    obs.class_if(max_off > 0.0, "offset_data");
    obs.class_if(max_off >= 1000.0 && case.single, "offset_1e3_f32");
    obs.class_if(max_off >= 1e7, "offset_ge_1e7_f64");
    obs.class_if(case.eps < 1e-4, "eps_1e-5");
    obs.class_if(case.eps >= 1e-4, "eps_1e-3");
    obs.class_if(case.n() >= 500, "n_ge_500");
    obs.class_if(case.n() >= 1500, "n_ge_1500");
}

/// Runs linfa on the case and judges everything. Cases in which `do_shrinking` ran use grouped
/// `shrink:` signatures (see `mk_sig`) so that findings of the shrinking code path never mask the plain
/// solver's obligations; a `shrinking = true` case that stops before the first `do_shrinking` call went
/// through exactly the plain solver's code and keeps the plain signatures.
pub fn check(case: &Case, obs: &mut Obs) {
    classify(case, obs);
    let t0 = std::time::Instant::now(); // diagnostics only (C13_DEBUG), never enters a verdict
    let fitted = run::fit(case);
    if std::env::var("C13_DEBUG").is_ok() && t0.elapsed().as_secs_f64() > 3.0 {
        let disp = match &fitted {
            FitOutcome::Model(e) => e.display.clone(),
            _ => "-".into(),
        };
        eprintln!(
            "C13_DEBUG slow fit {:.1}s: n={} p={} kernel={:?} eps={} shrinking={} layout={:?} task={} :: {}",
            t0.elapsed().as_secs_f64(), case.n(), case.x.first().map(|r| r.len()).unwrap_or(0), case.kernel, case.eps, case.shrinking, case.layout,
            match &case.task { Task::CSvc{cpos,cneg,..} => format!("CSvc({cpos},{cneg})"), Task::NuSvc{nu,..} => format!("NuSvc({nu})"), Task::EpsSvr{c,loss_eps,..} => format!("EpsSvr({c},{loss_eps})"), Task::NuSvr{nu,c,..} => format!("NuSvr({nu},{c})"), Task::OneClass{nu} => format!("OneClass({nu})") },
            disp
        );
    }
    let ex = match fitted {
        FitOutcome::Model(e) => e,
        FitOutcome::Error(e) => {
            // the generator only produces valid hyper-parameters; the plain fits have no error path
            obs.fail(mk_sig(case.shrinking, "fit:unexpected-error"), format!("fit returned Err({e})"));
            return;
        }
        FitOutcome::Panic(m) => {
            if case.shrinking && m.contains("subtract with overflow") && m.contains("solver_smo.rs") {
                obs.class("shrink_panic_nactive_underflow");
                obs.fail(
                    "shrink:panic:do_shrinking-nactive-underflow",
                    format!("fit with shrinking(true) panicked: {m}"),
                );
            } else if case.shrinking {
                obs.fail("shrink:panic:fit-or-predict", format!("panicked: {m}"));
            } else {
                obs.fail("panic:fit-or-predict", format!("panicked: {m}"));
            }
            return;
        }
    };
    // `do_shrinking` is first called in the loop pass number min(#variables, 1000) + 1; before that the
    // shrinking flag has no effect and the plain solver's signatures apply unchanged
    let iterations = parse_display(&ex.display).and_then(|d| d.iterations);
    let shrunk = case.shrinking && iterations.map(|it| it >= case.nvars().min(1000) as u64).unwrap_or(true);
    judge(case, &ex, obs, shrunk);

    // Platt-calibrated variant of the same problem
    if let Some(out) = run::fit_platt(case) {
        match out {
            FitOutcome::Model(pe) => {
                obs.class("platt_fitted");
                judge_platt(case, &ex, &pe, obs, shrunk);
            }
            FitOutcome::Error(e) => {
                // PlattError::{LineSearchNotConverged, MaxIterReached} are documented outcomes of the
                // calibration step, not of the SVM solver
                if e.contains("platt") {
                    obs.class("platt_calibration_err");
                } else {
                    obs.fail(mk_sig(shrunk, "fit:unexpected-error"), format!("Pr fit returned Err({e})"));
                }
            }
            FitOutcome::Panic(m) => {
                if case.shrinking && m.contains("subtract with overflow") && m.contains("solver_smo.rs") {
                    obs.fail(
                        "shrink:panic:do_shrinking-nactive-underflow",
                        format!("Pr fit with shrinking(true) panicked: {m}"),
                    );
                } else {
                    obs.fail(mk_sig(shrunk, "platt-panic:fit-or-predict"), format!("panicked: {m}"));
                }
            }
        }
    }
}

fn judge_platt(case: &Case, ex: &Extract, pe: &run::PlattExtract, obs: &mut Obs, shrunk: bool) {
    let sig = |s: &str| mk_sig(shrunk, s);
    // same dual problem, same arithmetic: the published solution must be identical
    let same = pe.alpha.len() == ex.alpha.len()
        && pe.alpha.iter().zip(&ex.alpha).all(|(a, b)| a.to_bits() == b.to_bits() || (a.is_nan() && b.is_nan()))
        && (pe.rho.to_bits() == ex.rho.to_bits() || (pe.rho.is_nan() && ex.rho.is_nan()));
    obs.ensure(same, &sig("platt:different-dual-solution"), || {
        format!("Svm<_,Pr> and Svm<_,bool> fitted on the same data publish different alpha/rho (rho {} vs {})", pe.rho, ex.rho)
    });
    let n_all = case.x.len() + case.fresh.len();
    if !obs.ensure(pe.probs.len() == n_all && ex.ws.len() == n_all, &sig("platt:shape"), || {
        "wrong number of probabilities".into()
    }) {
        return;
    }
    obs.ensure(pe.probs.iter().all(|p| (0.0..=1.0).contains(p)), &sig("platt:not-a-probability"), || {
        format!("probabilities outside [0,1]: {:?}", pe.probs.iter().find(|p| !(0.0..=1.0).contains(*p)))
    });
    // monotone in the decision value (own decision values of the model, same for both variants)
    let mut order: Vec<usize> = (0..n_all).filter(|i| (ex.ws[*i] - ex.rho).is_finite()).collect();
    order.sort_by(|a, b| (ex.ws[*a] - ex.rho).partial_cmp(&(ex.ws[*b] - ex.rho)).unwrap_or(std::cmp::Ordering::Equal));
    const PTOL: f64 = 1e-6;
    let mut up = false;
    let mut down = false;
    for w in order.windows(2) {
        let d = pe.probs[w[1]] - pe.probs[w[0]];
        if d > PTOL {
            up = true;
        }
        if d < -PTOL {
            down = true;
        }
    }
    obs.ensure(!(up && down), &sig("platt:not-monotone"), || {
        "calibrated probabilities are not a monotone function of the decision value".into()
    });
    for (i, p) in &pe.probs_single {
        if let Some(q) = pe.probs.get(*i) {
            obs.ensure(p.to_bits() == q.to_bits(), &sig("platt:single-vs-batch"), || {
                format!("predict(row {i}) = {p}, batch predict = {q}")
            });
        }
    }
}

fn judge(case: &Case, ex: &Extract, obs: &mut Obs, shrunk: bool) {
    let sig = |s: &str| mk_sig(shrunk, s);
    let n = case.n();
    let m = case.fresh.len();
    let single = case.single;
    let (drift, dec_rel, eq_rel, box_rel) = if single {
        (DRIFT_F32, DEC_REL_F32, EQ_REL_F32, BOX_REL_F32)
    } else {
        (DRIFT_F64, DEC_REL_F64, EQ_REL_F64, BOX_REL_F64)
    };

    // ---- shape, Display, nsupport
    if !obs.ensure(ex.alpha.len() == n, &sig("shape:alpha-length"), || {
        format!("{} coefficients published for {} samples", ex.alpha.len(), n)
    }) {
        return;
    }
    if ex.ws.len() != n + m || ex.own_sign.len() != n + m {
        obs.fail(sig("internal:shape"), "extraction produced wrong lengths");
        return;
    }
    let disp = parse_display(&ex.display);
    let Some(disp) = disp else {
        obs.fail(sig("display:unparsable"), format!("Display text '{}'", ex.display));
        return;
    };
    let sv_thr = 100.0 * ex.eps_mach;
    let nsv = ex.alpha.iter().filter(|a| a.abs() > sv_thr).count();
    obs.ensure(ex.nsupport == nsv, &sig("nsupport:count"), || {
        format!("nsupport() = {}, coefficients with |a| > 100 eps: {}", ex.nsupport, nsv)
    });
    obs.ensure(disp.nsupport == Some(nsv), &sig("nsupport:display"), || {
        format!("Display reports {:?} support vectors, coefficients with |a| > 100 eps: {}", disp.nsupport, nsv)
    });
    let iterations = disp.iterations.unwrap_or(0);
    obs.class_if(iterations == 0, "iterations_0");
    let shrink_ran = iterations > case.nvars().min(1000) as u64;
    if case.shrinking {
        obs.class_if(shrink_ran, "do_shrinking_ran");
        obs.class_if(!shrink_ran, "do_shrinking_not_reached");
    }

    let alpha = &ex.alpha;
    let rho = ex.rho;

    // ---- nu-SVC: the margin r the coefficients were divided by
    let mut nu_r = 1.0;
    if let Task::NuSvc { nu, labels, .. } = &case.task {
        let sum_abs: f64 = alpha.iter().map(|a| a.abs()).sum();
        let finite = alpha.iter().all(|a| a.is_finite());
        if finite && sum_abs == 0.0 && !rho.is_finite() {
            // every coefficient was divided by an infinite r: calculate_rho_nu found no free vector
            // in one class and returned (inf + lb)/2 although lower *and* upper bounded vectors exist
            let npos = labels.iter().filter(|b| **b).count();
            obs.class("nu_svc_r_infinite");
            obs.fail(
                sig("nu-svc:no-free-vector:rho-not-finite"),
                format!(
                    "nu = {nu}, n+ = {npos}, n = {n}: all published coefficients are 0 and rho = {rho} \
                     (r1 or r2 infinite: a class without free support vector)"
                ),
            );
            return;
        }
        // a kernel that is not positive semi-definite (polynomial with a fractional degree) can end with a
        // negative margin r; the division then flips the sign of every coefficient. Counted, not judged.
        let flipped = finite
            && alpha.iter().zip(labels).all(|(a, l)| if *l { *a <= 0.0 } else { *a >= 0.0 })
            && sum_abs > 0.0;
        if flipped {
            obs.skip("nu_svc_negative_margin");
            return;
        }
        let r = nu * n as f64 / sum_abs;
        if !finite || !rho.is_finite() || !(r >= NU_MIN_R_OVER_EPS * case.eps) {
            obs.skip("nu_svc_margin_vanishes");
            obs.class(match case.layout {
                Layout::Separable => "nu_svc_margin_vanishes_separable",
                Layout::Overlap => "nu_svc_margin_vanishes_overlap",
                Layout::Imbalanced => "nu_svc_margin_vanishes_imbalanced",
                Layout::Duplicates => "nu_svc_margin_vanishes_duplicates",
            });
            obs.class(match case.kernel {
                Kern::Linear => "nu_svc_margin_vanishes_linear",
                Kern::Gaussian(_) => "nu_svc_margin_vanishes_gaussian",
                Kern::Poly(..) => "nu_svc_margin_vanishes_polynomial",
            });
            return;
        }
        nu_r = r;
    }
    if matches!(case.task, Task::OneClass { .. }) {
        // nu = 1: every coefficient sits at its upper bound, rho = +inf is LIBSVM's answer too
        let all_upper = alpha.iter().all(|a| *a >= 1.0);
        if rho == f64::INFINITY && all_upper {
            obs.class("one_class_all_bounded_rho_inf");
        } else if !obs.ensure(rho.is_finite(), &sig("rho:not-finite"), || format!("rho = {rho}")) {
            return;
        }
    } else if !obs.ensure(rho.is_finite(), &sig("rho:not-finite"), || format!("rho = {rho}")) {
        return;
    }
    if !obs.ensure(alpha.iter().all(|a| a.is_finite()), &sig("alpha:not-finite"), || {
        "a published coefficient is not finite".into()
    }) {
        return;
    }

    // ---- (1) decision function from the published coefficients
    let mut dec: Vec<f64> = Vec::with_capacity(n + m);
    let mut dec_abs: Vec<f64> = Vec::with_capacity(n + m);
    let mut dropped: Vec<f64> = Vec::with_capacity(n + m);
    for i in 0..n + m {
        let x = if i < n { &case.x[i] } else { &case.fresh[i - n] };
        let (s, a, d) = dual_sum(case, alpha, x, sv_thr);
        dec.push(s);
        dec_abs.push(a);
        dropped.push(d);
    }
    // kernel values below the smallest normal number of the model's float type are flushed / lose precision
    let underflow = alpha.iter().map(|a| a.abs()).sum::<f64>() * if single { UNDERFLOW_F32 } else { UNDERFLOW_F64 };
    let mut ws_ok = true;
    let is_nu_linear = matches!(case.task, Task::NuSvc { .. }) && case.kernel == Kern::Linear;
    let mut unscaled_hits = 0usize;
    let mut mismatches = 0usize;
    let mut first_bad: Option<(usize, f64, f64)> = None;
    for i in 0..n + m {
        // coefficients below the support-vector threshold may be dropped by weighted_sum
        let tol = dec_rel * dec_abs[i] + 2.0 * dropped[i] + underflow;
        if (ex.ws[i] - dec[i]).abs() <= tol {
            continue;
        }
        mismatches += 1;
        if first_bad.is_none() {
            first_bad = Some((i, ex.ws[i], dec[i]));
        }
        // recognised defect: the pre-combined linear hyper-plane of nu-SVC is built from the
        // coefficients *before* they are divided by r, so weighted_sum = r * sum a_i <x_i, x>
        let tol_r = 10.0 * dec_rel * nu_r * dec_abs[i] + 2.0 * nu_r.max(1.0) * dropped[i] + underflow * nu_r.max(1.0);
        if is_nu_linear && (ex.ws[i] - nu_r * dec[i]).abs() <= tol_r {
            unscaled_hits += 1;
        }
    }
    // recognised defect (nu-SVC, non-linear kernel): SolverState::solve stores the rows x_i with
    // |alpha_i| > 100 eps_mach *before* fit_nu divides the coefficients by r, while weighted_sum filters the
    // published (divided) coefficients with the same threshold. A coefficient between the two thresholds makes
    // the two selections differ, and from there on every coefficient is zipped with a foreign row.
    let mut misaligned: Option<(usize, usize, usize)> = None; // (stored rows, filtered coefficients, first shifted position)
    if mismatches > 0 && matches!(case.task, Task::NuSvc { .. }) && case.kernel != Kern::Linear {
        let rows: Vec<usize> = (0..n).filter(|i| alpha[*i].abs() * nu_r > sv_thr).collect();
        let coef: Vec<usize> = (0..n).filter(|i| alpha[*i].abs() > sv_thr).collect();
        if rows != coef {
            let first_shift = rows.iter().zip(&coef).position(|(a, b)| a != b).unwrap_or(rows.len().min(coef.len()));
            let mut all = true;
            for i in 0..n + m {
                let x = if i < n { &case.x[i] } else { &case.fresh[i - n] };
                let mut v = 0.0;
                let mut abs = 0.0;
                for (r, c) in rows.iter().zip(&coef) {
                    let t = alpha[*c] * kernel(&case.kernel, &case.x[*r], x);
                    v += t;
                    abs += t.abs();
                }
                if (ex.ws[i] - v).abs() > dec_rel * abs + underflow {
                    all = false;
                    break;
                }
            }
            if all {
                misaligned = Some((rows.len(), coef.len(), first_shift));
            }
        }
    }
    if mismatches > 0 {
        ws_ok = false;
        let (i, w, d) = first_bad.unwrap_or((0, 0.0, 0.0));
        if let Some((nrows, ncoef, first_shift)) = misaligned {
            obs.class("nu_svc_support_rows_misaligned");
            obs.fail(
                // independent of shrinking: the exact wrong value is recognised
                "nu-svc:support-rows-selected-before-rescaling",
                format!(
                    "nu-SVC: weighted_sum(point {i}) = {w} but sum_j alpha_j K(x_j, x) = {d}; weighted_sum equals, on all {} points, the zip of the {nrows} rows \
                     with |alpha_i * r| > 100 eps (selected in solve() before the division by r = {nu_r}) with the {ncoef} published coefficients \
                     with |alpha_i| > 100 eps: from position {first_shift} on every coefficient multiplies the kernel value of a foreign row",
                    n + m
                ),
            );
        } else if is_nu_linear && unscaled_hits == mismatches {
            obs.class("nu_svc_linear_hyperplane_unscaled");
            obs.fail(
                // independent of shrinking: the exact wrong value is recognised
                "nu-svc:linear:hyperplane-not-divided-by-r",
                format!(
                    "nu-SVC, linear kernel: weighted_sum(point {i}) = {w} but sum a_i <x_i,x> = {d}; the ratio is r = {nu_r} \
                     for all {mismatches} deviating points: the hyper-plane was assembled before alpha and rho were divided by r, \
                     so predict() thresholds w.x at rho/r instead of rho"
                ),
            );
        } else {
            obs.fail(
                sig("decision:weighted-sum"),
                format!(
                    "weighted_sum(point {i}) = {w}, but sum_j alpha_j K(x_j, x) over the published coefficients = {d} \
                     ({mismatches} of {} points deviate)",
                    n + m
                ),
            );
        }
    }

    // predictions follow the decision value
    match &ex.outs {
        Outs::Bool(lab) => {
            if lab.len() != n + m {
                obs.fail(sig("predict:shape"), "wrong number of predictions");
            } else {
                for i in 0..n + m {
                    // (a) label = sign of the model's own decision value (same arithmetic)
                    obs.ensure(lab[i] == ex.own_sign[i], &sig("predict:label-vs-own-decision"), || {
                        format!("point {i}: predict = {}, weighted_sum - rho >= 0 is {}", lab[i], ex.own_sign[i])
                    });
                    // (b) label = sign of the harness' decision value unless that is within tolerance of 0
                    if ws_ok {
                        let f = dec[i] - rho;
                        let tol = dec_rel * (dec_abs[i] + rho.abs()) + 2.0 * dropped[i] + underflow;
                        if f.abs() > tol || f.is_infinite() {
                            obs.ensure(lab[i] == (f >= 0.0), &sig("decision:label-vs-dual-sum"), || {
                                format!("point {i}: predict = {}, sum a_j K - rho = {f}", lab[i])
                            });
                        }
                    }
                }
                for (i, v) in &ex.outs_single {
                    if let Some(b) = lab.get(*i) {
                        obs.ensure((*v == 1.0) == *b, &sig("predict:single-vs-batch"), || {
                            format!("predict(row {i}) differs from the batch prediction")
                        });
                    }
                }
            }
        }
        Outs::Real(val) => {
            if val.len() != n + m {
                obs.fail(sig("predict:shape"), "wrong number of predictions");
            } else {
                if ws_ok {
                    for i in 0..n + m {
                        let f = dec[i] - rho;
                        let tol = dec_rel * (dec_abs[i] + rho.abs()) + 2.0 * dropped[i] + underflow;
                        obs.ensure((val[i] - f).abs() <= tol, &sig("decision:value-vs-dual-sum"), || {
                            format!("point {i}: predict = {}, sum a_j K - rho = {f}", val[i])
                        });
                    }
                }
                for (i, v) in &ex.outs_single {
                    if let Some(b) = val.get(*i) {
                        obs.ensure(v.to_bits() == b.to_bits(), &sig("predict:single-vs-batch"), || {
                            format!("predict(row {i}) = {v}, batch prediction = {b}")
                        });
                    }
                }
            }
        }
    }

    // ---- (2) feasibility
    let sum: f64 = alpha.iter().sum();
    let sum_abs: f64 = alpha.iter().map(|a| a.abs()).sum();
    // status per sample: 0 = zero, 1 = free, 2 = at the upper bound, 3 = close to the bound (nu-SVC
    // only: the bound 1/r is known up to rounding, so the weaker "bounded" condition is applied)
    let mut status = vec![0u8; n];
    match &case.task {
        Task::CSvc { cpos, cneg, labels, .. } => {
            let cmax = cpos.max(*cneg);
            obs.ensure(sum.abs() <= eq_rel * (sum_abs + cmax), &sig("feasible:equality"), || {
                format!("C-SVC: sum_i alpha_i = {sum} (sum |alpha_i| = {sum_abs})")
            });
            for i in 0..n {
                let y = if labels[i] { 1.0 } else { -1.0 };
                let c = if labels[i] { *cpos } else { *cneg };
                let ya = y * alpha[i];
                obs.ensure(ya >= 0.0 && ya <= c * (1.0 + box_rel), &sig("feasible:box"), || {
                    format!("C-SVC: y_{i} alpha_{i} = {ya} outside [0, {c}]")
                });
                status[i] = if ya == 0.0 {
                    0
                } else if ya >= c {
                    2
                } else {
                    1
                };
            }
        }
        Task::NuSvc { labels, .. } => {
            let ub = 1.0 / nu_r;
            obs.ensure(sum.abs() <= eq_rel * (sum_abs + ub), &sig("feasible:equality"), || {
                format!("nu-SVC: sum_i alpha_i = {sum} (sum |alpha_i| = {sum_abs})")
            });
            for i in 0..n {
                let y = if labels[i] { 1.0 } else { -1.0 };
                let ya = y * alpha[i];
                obs.ensure(ya >= 0.0 && ya <= ub * (1.0 + 1e-9f64.max(box_rel)), &sig("feasible:box"), || {
                    format!("nu-SVC: y_{i} alpha_{i} = {ya} outside [0, 1/r = {ub}] with r = nu n / sum|alpha| = {nu_r}")
                });
                status[i] = if ya == 0.0 {
                    0
                } else if ya >= ub * (1.0 - 1e-9f64.max(box_rel * 10.0)) {
                    3
                } else {
                    1
                };
            }
        }
        Task::EpsSvr { c, .. } | Task::NuSvr { c, .. } => {
            obs.ensure(sum.abs() <= eq_rel * (sum_abs + c), &sig("feasible:equality"), || {
                format!("SVR: sum_i alpha_i = {sum} (sum |alpha_i| = {sum_abs})")
            });
            for i in 0..n {
                obs.ensure(alpha[i].abs() <= c * (1.0 + box_rel), &sig("feasible:box"), || {
                    format!("SVR: |alpha_{i}| = {} exceeds C = {c}", alpha[i].abs())
                });
                status[i] = if alpha[i] == 0.0 {
                    0
                } else if alpha[i].abs() >= *c {
                    2
                } else {
                    1
                };
            }
        }
        Task::OneClass { nu } => {
            let want = nu * n as f64;
            obs.ensure((sum - want).abs() <= eq_rel * (want + 1.0), &sig("feasible:equality"), || {
                format!("one-class: sum_i alpha_i = {sum}, nu n = {want}")
            });
            for i in 0..n {
                obs.ensure(alpha[i] >= 0.0 && alpha[i] <= 1.0 + box_rel, &sig("feasible:box"), || {
                    format!("one-class: alpha_{i} = {} outside [0, 1]", alpha[i])
                });
                status[i] = if alpha[i] == 0.0 {
                    0
                } else if alpha[i] >= 1.0 {
                    2
                } else {
                    1
                };
            }
        }
    }
    let nfree = status.iter().filter(|s| **s == 1).count();
    let nbounded = status.iter().filter(|s| **s >= 2).count();
    let nzero = status.iter().filter(|s| **s == 0).count();
    obs.class_if(nfree > 0, "has_free_sv");
    obs.class_if(nbounded > 0, "has_bounded_sv");
    obs.class_if(nzero > 0, "has_zero_coefficient");
    obs.class_if(nfree == 0, "no_free_sv");

    // ---- (3) KKT, only for runs the solver itself declares converged
    if !disp.threshold {
        obs.skip("iteration_cap_reached");
        if std::env::var("C13_DEBUG").is_ok() {
            eprintln!("C13_DEBUG iteration cap: n={} kernel={:?} eps={} shrinking={} single={} layout={:?} task={}", n, case.kernel, case.eps, case.shrinking, case.single, case.layout,
                match &case.task { Task::CSvc{cpos,cneg,..} => format!("CSvc({cpos},{cneg})"), Task::NuSvc{nu,..} => format!("NuSvc({nu})"), Task::EpsSvr{c,loss_eps,..} => format!("EpsSvr({c},{loss_eps})"), Task::NuSvr{nu,c,..} => format!("NuSvr({nu},{c})"), Task::OneClass{nu} => format!("OneClass({nu})") });
        }
        return;
    }
    obs.class("exit_threshold");
    let tau = |i: usize, extra: f64| -> f64 {
        KKT_EPS_FACTOR * case.eps / nu_r + drift * (dec_abs[i] + rho.abs() + extra)
    };
    // largest KKT residual in units of its own tolerance / of the eps part of it alone (generator health:
    // shows how much of the slack real runs use)
    let mut worst: f64 = 0.0;
    let mut worst_eps: f64 = 0.0;
    let eps_part = KKT_EPS_FACTOR * case.eps / nu_r;
    match &case.task {
        Task::CSvc { labels, .. } | Task::NuSvc { labels, .. } => {
            for i in 0..n {
                let y = if labels[i] { 1.0 } else { -1.0 };
                let yf = y * (dec[i] - rho);
                let t = tau(i, 1.0);
                match status[i] {
                    0 => {
                        obs.ensure(yf >= 1.0 - t, &sig("kkt:zero-coefficient-inside-margin"), || {
                            format!("sample {i}: alpha = 0 but y f(x) = {yf} < 1 - {t:.3e} (rho = {rho})")
                        });
                        worst = worst.max((1.0 - yf) / t);
                        worst_eps = worst_eps.max((1.0 - yf) / eps_part);
                    }
                    1 => {
                        obs.ensure((yf - 1.0).abs() <= t, &sig("kkt:free-vector-off-margin"), || {
                            format!("sample {i}: free support vector (alpha = {}) but y f(x) = {yf}, tolerance {t:.3e} (rho = {rho})", alpha[i])
                        });
                        worst = worst.max((yf - 1.0).abs() / t);
                        worst_eps = worst_eps.max((yf - 1.0).abs() / eps_part);
                    }
                    _ => {
                        obs.ensure(yf <= 1.0 + t, &sig("kkt:bounded-vector-outside-margin"), || {
                            format!("sample {i}: alpha at its upper bound ({}) but y f(x) = {yf} > 1 + {t:.3e} (rho = {rho})", alpha[i])
                        });
                        worst = worst.max((yf - 1.0) / t);
                        worst_eps = worst_eps.max((yf - 1.0) / eps_part);
                    }
                }
            }
        }
        Task::OneClass { .. } => {
            for i in 0..n {
                let f = dec[i] - rho;
                let t = tau(i, 0.0);
                match status[i] {
                    0 => {
                        obs.ensure(f >= -t, &sig("kkt:zero-coefficient-inside-margin"), || {
                            format!("one-class sample {i}: alpha = 0 but f(x) = {f} < -{t:.3e}")
                        });
                        worst = worst.max(-f / t);
                        worst_eps = worst_eps.max(-f / eps_part);
                    }
                    1 => {
                        obs.ensure(f.abs() <= t, &sig("kkt:free-vector-off-margin"), || {
                            format!("one-class sample {i}: free vector (alpha = {}) but f(x) = {f}, tolerance {t:.3e}", alpha[i])
                        });
                        worst = worst.max(f.abs() / t);
                        worst_eps = worst_eps.max(f.abs() / eps_part);
                    }
                    _ => {
                        obs.ensure(f <= t, &sig("kkt:bounded-vector-outside-margin"), || {
                            format!("one-class sample {i}: alpha = 1 but f(x) = {f} > {t:.3e}")
                        });
                        worst = worst.max(f / t);
                        worst_eps = worst_eps.max(f / eps_part);
                    }
                }
            }
        }
        Task::EpsSvr { loss_eps, targets, .. } => {
            for i in 0..n {
                let res = targets[i] - (dec[i] - rho);
                let t = tau(i, targets[i].abs());
                let s = if alpha[i] >= 0.0 { 1.0 } else { -1.0 };
                match status[i] {
                    0 => {
                        obs.ensure(res.abs() <= loss_eps + t, &sig("kkt:svr-zero-coefficient-outside-tube"), || {
                            format!("sample {i}: alpha = 0 but |y - f| = {} > eps {loss_eps} + {t:.3e}", res.abs())
                        });
                        worst = worst.max((res.abs() - loss_eps) / t);
                        worst_eps = worst_eps.max((res.abs() - loss_eps) / eps_part);
                    }
                    1 => {
                        obs.ensure((s * res - loss_eps).abs() <= t, &sig("kkt:svr-free-vector-off-tube"), || {
                            format!("sample {i}: free vector (alpha = {}) but sign(alpha)(y - f) = {} != eps {loss_eps} within {t:.3e}", alpha[i], s * res)
                        });
                        worst = worst.max((s * res - loss_eps).abs() / t);
                        worst_eps = worst_eps.max((s * res - loss_eps).abs() / eps_part);
                    }
                    _ => {
                        obs.ensure(s * res >= loss_eps - t, &sig("kkt:svr-bounded-vector-inside-tube"), || {
                            format!("sample {i}: |alpha| = C but sign(alpha)(y - f) = {} < eps {loss_eps} - {t:.3e}", s * res)
                        });
                        worst = worst.max((loss_eps - s * res) / t);
                        worst_eps = worst_eps.max((loss_eps - s * res) / eps_part);
                    }
                }
            }
        }
        Task::NuSvr { targets, .. } => {
            // only: all free vectors share one |residual|
            let mut lo = f64::INFINITY;
            let mut hi = f64::NEG_INFINITY;
            let mut tmax: f64 = 0.0;
            for i in 0..n {
                if status[i] == 1 {
                    let res = (targets[i] - (dec[i] - rho)).abs();
                    lo = lo.min(res);
                    hi = hi.max(res);
                    tmax = tmax.max(tau(i, targets[i].abs()));
                }
            }
            if nfree >= 2 {
                obs.ensure(hi - lo <= 2.0 * tmax, &sig("kkt:nu-svr-free-residuals-differ"), || {
                    format!("nu-SVR: |residual| of the free vectors ranges over [{lo}, {hi}], tolerance {:.3e}", 2.0 * tmax)
                });
            }
        }
    }
    if !shrunk {
        obs.class_if(worst > 0.5, "kkt_residual_over_half_of_tolerance");
        obs.class_if(worst_eps > 0.5, "kkt_residual_over_1_eps");
        obs.class_if(worst_eps > 1.0, "kkt_residual_over_2_eps_drift_slack_used");
    }

    // ---- non-trivial rule
    let nt = nfree >= 1 && nbounded >= 1;
    if case.shrinking {
        obs.nontrivial_if(nt && shrink_ran);
    } else {
        obs.nontrivial_if(nt);
    }
}
