//! Decomposition estimators: PCA (randomised truncated SVD with the builder's fixed seed, with and
//! without whitening), Gaussian / sparse random projection (seeded and builder-default rng,
//! dimension or eps target), diffusion maps on dense and sparse kernels, PLS (regression, canonical,
//! CCA with NIPALS and SVD inner loops, PLS-SVD) and FastICA **with** a random state (FastICA
//! without one is outside the property).

use crate::data;
use crate::driver::{RunInfo, Runnable};
use crate::out::{Out, H};
use linfa::traits::{Fit, Predict, Transformer};
use linfa::DatasetBase;
use linfa_ica::fast_ica::{FastIca, GFunc};
use linfa_kernel::{Kernel, KernelMethod, KernelType};
use linfa_pls::{Algorithm, PlsCanonical, PlsCca, PlsRegression, PlsSvd};
use linfa_reduction::random_projection::{GaussianRandomProjection, SparseRandomProjection};
use linfa_reduction::{DiffusionMap, Pca};
use ndarray::Array2;
use proptest::prelude::*;
use rand::SeedableRng;
use rand_xoshiro::Xoshiro256Plus;
use serde::{Deserialize, Serialize};
use vengine::{Obs, Tier};

#[derive(Clone, Copy, Debug, PartialEq, Serialize, Deserialize)]
pub enum Algo {
    Pca,
    GaussianProjection,
    SparseProjection,
    /// random projection through `params()` only (builder-default rng)
    ProjectionDefaults,
    DiffusionMap,
    PlsRegression,
    PlsCanonical,
    PlsCca,
    PlsSvd,
    FastIcaSeeded,
}

#[derive(Clone, Debug, Serialize, Deserialize)]
pub struct Cfg {
    pub algo: Algo,
    pub data_seed: u64,
    pub rng_seed: u64,
    pub n: usize,
    pub p: usize,
    pub k: usize,
    pub flag: bool,
    pub sparse_k: usize,
    /// size-threshold stratum: 65..=70 feature columns (p > 64) on at least 80 rows
    #[serde(default)]
    pub wide: bool,
}

fn model_bytes<T: Serialize>(out: &mut Out, name: &str, m: &T) {
    match bincode::serialize(m) {
        Ok(b) => {
            let mut h = H::new();
            h.bytes(&b);
            out.push(name, h);
        }
        Err(e) => out.err(name, &e),
    }
}

macro_rules! pls {
    ($out:expr, $ty:ident, $ds:expr, $q:expr, $k:expr, $svd:expr) => {{
        let params = $ty::<f64>::params($k).algorithm(if $svd { Algorithm::Svd } else { Algorithm::Nipals });
        match params.fit(&$ds) {
            Ok(m) => {
                let (a, b) = m.weights();
                $out.arr("pls:x_weights", a);
                $out.arr("pls:y_weights", b);
                let (a, b) = m.loadings();
                $out.arr("pls:x_loadings", a);
                $out.arr("pls:y_loadings", b);
                let (a, b) = m.rotations();
                $out.arr("pls:x_rotations", a);
                $out.arr("pls:y_rotations", b);
                $out.arr("pls:coefficients", m.coefficients());
                $out.arr("pls:predict", &m.predict(&$q));
                let t = m.transform($ds.clone());
                $out.arr("pls:x_scores", t.records());
                $out.arr("pls:y_scores", t.targets());
                model_bytes(&mut $out, "pls:model_bytes", &m);
            }
            Err(e) => $out.err("pls:fit", &e),
        }
    }};
}

impl Runnable for Cfg {
    fn run(&self) -> Out {
        let mut out = Out::new();
        let p = if self.wide { 65 + self.p % 6 } else { self.p.max(2) };
        let n = if self.wide { self.n.max(80) } else { self.n };
        let x = data::gaussian(self.data_seed, n, p) + data::blobs(self.data_seed ^ 2, n, p, 3, 0.1);
        let q = data::gaussian(self.data_seed ^ 0x71, 30, p);
        let k = self.k.clamp(1, p);
        match self.algo {
            Algo::Pca => match Pca::params(k).whiten(self.flag).fit(&DatasetBase::from(x)) {
                Ok(m) => {
                    out.arr("pca:components", m.components());
                    out.arr("pca:mean", m.mean());
                    out.arr("pca:singular_values", m.singular_values());
                    out.arr("pca:explained_variance", &m.explained_variance());
                    out.arr("pca:explained_variance_ratio", &m.explained_variance_ratio());
                    out.arr("pca:predict", &m.predict(&q));
                    model_bytes(&mut out, "pca:model_bytes", &m);
                }
                Err(e) => out.err("pca:fit", &e),
            },
            Algo::GaussianProjection => {
                let rng = Xoshiro256Plus::seed_from_u64(self.rng_seed);
                let params = GaussianRandomProjection::<f64>::params_with_rng(rng);
                // eps mode: the Johnson-Lindenstrauss dimension for <= 60 rows and eps 0.9 is about 100, so the data
                // must be wide for the fit to be accepted
                let (x, q, params) = if self.flag {
                    (x, q, params.target_dim(k))
                } else {
                    let n = self.n.min(60);
                    (data::gaussian(self.data_seed, n, 128), data::gaussian(self.data_seed ^ 0x71, 10, 128), params.eps(0.9))
                };
                match params.fit(&DatasetBase::from(x)) {
                    Ok(m) => {
                        out.arr("gaussian_projection:transform", &m.transform(&q));
                    }
                    Err(e) => out.err("gaussian_projection:fit", &e),
                }
            }
            Algo::SparseProjection => {
                let rng = Xoshiro256Plus::seed_from_u64(self.rng_seed);
                match SparseRandomProjection::<f64>::params_with_rng(rng).target_dim(k).fit(&DatasetBase::from(x)) {
                    Ok(m) => {
                        out.arr("sparse_projection:transform", &m.transform(&q));
                    }
                    Err(e) => out.err("sparse_projection:fit", &e),
                }
            }
            Algo::ProjectionDefaults => {
                if self.flag {
                    match GaussianRandomProjection::<f64>::params().target_dim(k).fit(&DatasetBase::from(x)) {
                        Ok(m) => out.arr("gaussian_projection_defaults:transform", &m.transform(&q)),
                        Err(e) => out.err("gaussian_projection_defaults:fit", &e),
                    }
                } else {
                    match SparseRandomProjection::<f64>::params().target_dim(k).fit(&DatasetBase::from(x)) {
                        Ok(m) => out.arr("sparse_projection_defaults:transform", &m.transform(&q)),
                        Err(e) => out.err("sparse_projection_defaults:fit", &e),
                    }
                }
            }
            Algo::DiffusionMap => {
                let kind = if self.sparse_k == 0 { KernelType::Dense } else { KernelType::Sparse(self.sparse_k) };
                let kernel = Kernel::params().kind(kind).method(KernelMethod::Gaussian(4.0)).transform(x.view());
                match DiffusionMap::<f64>::params(k.min(3)).steps(1 + self.k % 3).transform(&kernel) {
                    Ok(m) => {
                        let m: DiffusionMap<f64> = m;
                        out.arr("diffusion_map:eigvals", m.eigvals());
                        out.arr("diffusion_map:embedding", m.embedding());
                        out.u64s("diffusion_map:estimate_clusters", [m.estimate_clusters() as u64]);
                    }
                    Err(e) => out.err("diffusion_map:params", &e),
                }
            }
            Algo::PlsRegression | Algo::PlsCanonical | Algo::PlsCca | Algo::PlsSvd => {
                let y1 = data::response(&x, self.data_seed, 0.3);
                let y2 = data::response(&x, self.data_seed ^ 8, 0.3);
                let y = Array2::from_shape_fn((n, 2), |(i, j)| if j == 0 { y1[i] } else { y2[i] });
                let ds = DatasetBase::new(x, y);
                let kk = k.min(2);
                match self.algo {
                    Algo::PlsRegression => pls!(out, PlsRegression, ds, q, kk, self.flag),
                    Algo::PlsCanonical => pls!(out, PlsCanonical, ds, q, kk, self.flag),
                    Algo::PlsCca => pls!(out, PlsCca, ds, q, kk, self.flag),
                    _ => match PlsSvd::<f64>::params(kk).scale(self.flag).fit(&ds) {
                        Ok(m) => {
                            let (a, b) = m.weights();
                            out.arr("pls_svd:x_weights", a);
                            out.arr("pls_svd:y_weights", b);
                            let t = m.transform(ds.clone());
                            out.arr("pls_svd:x_scores", t.records());
                            out.arr("pls_svd:y_scores", t.targets());
                        }
                        Err(e) => out.err("pls_svd:fit", &e),
                    },
                }
            }
            Algo::FastIcaSeeded => {
                let g = if self.flag { GFunc::Logcosh(1.0) } else { GFunc::Exp };
                match FastIca::params()
                    .ncomponents(k)
                    .gfunc(g)
                    .max_iter(80)
                    .random_state(self.rng_seed as usize)
                    .fit(&DatasetBase::from(x))
                {
                    Ok(m) => {
                        out.arr("fast_ica:predict", &m.predict(&q));
                        model_bytes(&mut out, "fast_ica:model_bytes", &m);
                    }
                    Err(e) => out.err("fast_ica:fit", &e),
                }
            }
        }
        out
    }

    fn classify(&self, _runs: &[RunInfo], obs: &mut Obs) {
        obs.class(match self.algo {
            Algo::Pca => "pca",
            Algo::GaussianProjection => "gaussian_random_projection",
            Algo::SparseProjection => "sparse_random_projection",
            Algo::ProjectionDefaults => "random_projection_builder_defaults",
            Algo::DiffusionMap => "diffusion_map",
            Algo::PlsRegression => "pls_regression",
            Algo::PlsCanonical => "pls_canonical",
            Algo::PlsCca => "pls_cca",
            Algo::PlsSvd => "pls_svd",
            Algo::FastIcaSeeded => "fast_ica_with_random_state",
        });
        obs.class_if(self.algo == Algo::Pca && self.flag, "pca_whitened");
        let seeded = matches!(self.algo, Algo::GaussianProjection | Algo::SparseProjection | Algo::FastIcaSeeded);
        obs.class_if(seeded && crate::BOUNDARY_SEEDS.contains(&self.rng_seed), "boundary_rng_seed");
        obs.class_if(seeded && self.rng_seed == 0, "rng_seed_zero");
        obs.class_if(self.wide, "more_than_64_features");
        obs.class_if(self.algo == Algo::DiffusionMap && self.sparse_k > 0, "diffusion_map_sparse_kernel");
        // non-trivial: the estimator draws random numbers (seeded explicitly or by a builder default)
        obs.nontrivial_if(matches!(
            self.algo,
            Algo::Pca | Algo::GaussianProjection | Algo::SparseProjection | Algo::ProjectionDefaults | Algo::DiffusionMap | Algo::FastIcaSeeded
        ));
    }

    fn all_pools(&self) -> bool {
        false
    }
}

pub fn strategy(tier: Tier) -> impl Strategy<Value = Cfg> {
    let max_n = tier.pick(80usize, 250usize);
    let algo = prop_oneof![
        3 => Just(Algo::Pca),
        2 => Just(Algo::GaussianProjection),
        2 => Just(Algo::SparseProjection),
        2 => Just(Algo::ProjectionDefaults),
        2 => Just(Algo::DiffusionMap),
        1 => Just(Algo::PlsRegression),
        1 => Just(Algo::PlsCanonical),
        1 => Just(Algo::PlsCca),
        1 => Just(Algo::PlsSvd),
        2 => Just(Algo::FastIcaSeeded),
    ];
    (algo, any::<u64>(), crate::seed_strategy(), 15usize..=max_n, 2usize..=6, 1usize..=4, any::<bool>(), 0usize..=4, proptest::bool::weighted(0.12)).prop_map(
        |(algo, data_seed, rng_seed, n, p, k, flag, sparse_k, wide)| Cfg {
            algo,
            data_seed,
            rng_seed,
            n,
            p,
            k,
            flag,
            sparse_k: if sparse_k == 0 { 0 } else { sparse_k + 2 },
            // not for the kernel-based map (features do not matter there) and not for FastICA (cost)
            wide: wide && !matches!(algo, Algo::DiffusionMap | Algo::FastIcaSeeded),
        },
    )
}

/// Every boundary seed through every seeded estimator of this family, in every run.
pub fn boundary_seed_cases() -> Vec<Cfg> {
    let mut v = vec![];
    for (i, &seed) in crate::BOUNDARY_SEEDS.iter().enumerate() {
        for algo in [Algo::FastIcaSeeded, Algo::GaussianProjection, Algo::SparseProjection] {
            v.push(Cfg {
                algo,
                data_seed: 0x1ca0 + i as u64,
                rng_seed: seed,
                n: 60,
                p: 4,
                k: 2 + i % 2,
                flag: true,
                sparse_k: 0,
                wide: false,
            });
        }
    }
    v
}
