//! Bulk data derived from one generated `u64` (keeps replay files small).

use ndarray::{Array1, Array2};
use vengine::gen::SplitMix;

/// `k` Gaussian blobs in `p` dimensions, `n` rows, centres on a coarse grid; values are *not*
/// rounded, so sums of them are order-sensitive in floating point.
pub fn blobs(seed: u64, n: usize, p: usize, k: usize, spread: f64) -> Array2<f64> {
    let mut r = SplitMix(seed ^ 0xb10b5);
    let k = k.max(1);
    let centres: Vec<Vec<f64>> = (0..k)
        .map(|_| (0..p).map(|_| (r.below(9) as f64 - 4.0) * 3.0 + r.gauss() * 0.3).collect())
        .collect();
    Array2::from_shape_fn((n, p), |(i, j)| {
        // the row's blob is a function of the row only
        let c = (SplitMix(seed ^ (i as u64).wrapping_mul(0x9e37)).next_u64() % k as u64) as usize;
        let _ = j;
        centres[c][j]
    }) + Array2::from_shape_fn((n, p), |_| r.gauss() * spread)
}

/// Small-integer lattice (many exact distance ties, many duplicate rows).
pub fn lattice(seed: u64, n: usize, p: usize, levels: usize) -> Array2<f64> {
    let mut r = SplitMix(seed ^ 0x1a771ce);
    Array2::from_shape_fn((n, p), |_| r.below(levels.max(1)) as f64)
}

/// Plain Gaussian matrix with a per-column scale and offset.
pub fn gaussian(seed: u64, n: usize, p: usize) -> Array2<f64> {
    let mut r = SplitMix(seed ^ 0x6a55);
    let scale: Vec<f64> = (0..p).map(|_| 0.5 + 2.0 * r.unit()).collect();
    let off: Vec<f64> = (0..p).map(|_| 4.0 * r.unit() - 2.0).collect();
    Array2::from_shape_fn((n, p), |(_, j)| off[j] + scale[j] * r.gauss())
}

/// Non-negative count-like matrix (multinomial NB, Tweedie targets ...).
pub fn counts(seed: u64, n: usize, p: usize, max: usize) -> Array2<f64> {
    let mut r = SplitMix(seed ^ 0xc0c0);
    Array2::from_shape_fn((n, p), |_| r.below(max + 1) as f64)
}

pub fn labels(seed: u64, n: usize, classes: usize) -> Array1<usize> {
    let mut r = SplitMix(seed ^ 0x1abe1);
    Array1::from_shape_fn(n, |_| r.below(classes.max(1)))
}

/// Labels correlated with the first feature (so that models have something to learn).
pub fn labels_from(x: &Array2<f64>, seed: u64, classes: usize, noise: f64) -> Array1<usize> {
    let mut r = SplitMix(seed ^ 0x51de);
    let classes = classes.max(1);
    let col: Vec<f64> = x.column(0).to_vec();
    let mut sorted = col.clone();
    sorted.sort_by(|a, b| a.partial_cmp(b).unwrap_or(std::cmp::Ordering::Equal));
    Array1::from_shape_fn(col.len(), |i| {
        if r.unit() < noise {
            r.below(classes)
        } else {
            let rank = sorted.partition_point(|v| *v < col[i]);
            (rank * classes / col.len().max(1)).min(classes - 1)
        }
    })
}

/// Linear response with noise.
pub fn response(x: &Array2<f64>, seed: u64, noise: f64) -> Array1<f64> {
    let mut r = SplitMix(seed ^ 0x4e59);
    let w: Vec<f64> = (0..x.ncols()).map(|_| r.gauss()).collect();
    let b = r.gauss();
    Array1::from_shape_fn(x.nrows(), |i| {
        let mut s = b;
        for j in 0..x.ncols() {
            s += w[j] * x[(i, j)];
        }
        s + noise * r.gauss()
    })
}

/// Labels with pairwise distinct class sizes (so class priors are pairwise different), blocks along
/// the order of the first feature. `classes` is reduced until `1+2+..+classes <= n`.
pub fn labels_distinct_sizes(x: &Array2<f64>, seed: u64, classes: usize) -> Array1<usize> {
    let n = x.nrows();
    let mut k = classes.max(1);
    while k > 1 && k * (k + 1) / 2 > n {
        k -= 1;
    }
    let mut r = SplitMix(seed ^ 0xd157);
    // sizes 1+c plus a random share of what is left, kept strictly increasing
    let mut sizes: Vec<usize> = (0..k).map(|c| c + 1).collect();
    let mut left = n - k * (k + 1) / 2;
    for c in (0..k).rev() {
        // adding the same amount to classes c..k keeps the order strict
        let span = k - c;
        let add = if c == 0 { left / span } else { r.below(left / span + 1) };
        for s in sizes.iter_mut().skip(c) {
            *s += add;
        }
        left -= add * span;
    }
    if let Some(last) = sizes.last_mut() {
        *last += left;
    }
    let mut order: Vec<usize> = (0..n).collect();
    order.sort_by(|&a, &b| x[(a, 0)].partial_cmp(&x[(b, 0)]).unwrap_or(std::cmp::Ordering::Equal).then(a.cmp(&b)));
    let mut y = Array1::zeros(n);
    let mut pos = 0;
    for (c, s) in sizes.iter().enumerate() {
        for _ in 0..*s {
            if pos < n {
                y[order[pos]] = c;
                pos += 1;
            }
        }
    }
    y
}

/// Points spread uniformly over a square/cube of the given side (many small clusters fit in).
pub fn uniform(seed: u64, n: usize, p: usize, side: f64) -> Array2<f64> {
    let mut r = SplitMix(seed ^ 0x0f1f);
    Array2::from_shape_fn((n, p), |_| side * r.unit())
}

/// `distinct` different Gaussian rows, row i of the result = distinct row (i mod distinct): many exact
/// duplicates that are not all the same row (distinct = 1: every row equal).
pub fn few_distinct(seed: u64, n: usize, p: usize, distinct: usize) -> Array2<f64> {
    let d = distinct.max(1);
    let base = gaussian(seed ^ 0xd15, d, p);
    Array2::from_shape_fn((n, p), |(i, j)| base[(i % d, j)])
}
