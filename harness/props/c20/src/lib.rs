//! C20 — same data, parameters and seed give bit-identical results on every run.
pub mod cluster;
pub mod data;
pub mod driver;
pub mod explicit;
pub mod kmeans;
pub mod linear;
pub mod out;
pub mod preprocess;
pub mod reduction;
pub mod svm;
pub mod tree_bayes;

use driver::{child_entry, judge, Case};
use proptest::prelude::*;
use vengine::{prop_sub, Property, Tier};

fn wrap<E: std::fmt::Debug + Clone + 'static>(
    tier: Tier,
    s: impl Strategy<Value = E>,
) -> impl Strategy<Value = Case<E>> {
    let children = tier.pick(3u8, 6u8);
    (s, 0u8..6).prop_map(move |(est, rep_pool)| Case { est, rep_pool, children })
}

/// K-means cases cost 14 fits of thousands of rows each and their data hang off a seed, so proptest's
/// shrinking (thousands of re-evaluations) buys nothing: the failing case is reported as generated.
mod kmeans_noshrink {
    pub use crate::kmeans::Cfg;
    use proptest::prelude::*;
    pub fn strategy(t: vengine::Tier) -> impl Strategy<Value = Cfg> {
        crate::kmeans::strategy(t).no_shrink()
    }
}

/// Seeds handed to linfa's rngs: a third of them are boundary values of the seed types (0, 1, 2, u32::MAX,
/// u64::MAX - 1, u64::MAX) — a special-cased seed is a classic way to lose reproducibility for one value only.
pub const BOUNDARY_SEEDS: [u64; 6] = [0, 1, 2, u32::MAX as u64, u64::MAX - 1, u64::MAX];
pub fn seed_strategy() -> impl Strategy<Value = u64> {
    prop_oneof![
        2 => any::<u64>(),
        1 => proptest::sample::select(BOUNDARY_SEEDS.to_vec()),
    ]
}

macro_rules! subs {
    ($( ($name:literal, $m:ident, $quick:expr, $thorough:expr, $chunks:expr) ),* $(,)?) => {
        pub fn child_main(spec: &str) -> ! {
            driver::child_main(spec, &[ $( ($name, child_entry::<$m::Cfg>) ),* , ("literal", child_entry::<explicit::Cfg>), ("thresholds", child_entry::<kmeans::Cfg>),
                ("boundary_seeds_kmeans", child_entry::<kmeans::Cfg>), ("degenerate_kmeans", child_entry::<kmeans::Cfg>), ("boundary_seeds_linear", child_entry::<linear::Cfg>),
                ("boundary_seeds_reduction", child_entry::<reduction::Cfg>), ("boundary_seeds_preprocess", child_entry::<preprocess::Cfg>) ])
        }
        fn all_subs() -> Vec<Box<dyn vengine::SubCheck>> {
            vec![ $(
                prop_sub(
                    $name, $quick, $thorough,
                    |t: Tier| wrap(t, $m::strategy(t)),
                    |c: &Case<$m::Cfg>, obs: &mut vengine::Obs| judge($name, c, obs),
                )
                .chunks($chunks)
                .require(&["children_ok"]) as Box<dyn vengine::SubCheck>
            ),* ]
        }
    };
}

subs![
    ("kmeans", kmeans_noshrink, 80, 800, 16),
    ("cluster", cluster, 120, 1500, 8),
    ("tree_bayes", tree_bayes, 240, 3000, 8),
    ("svm", svm, 80, 1000, 8),
    ("linear", linear, 120, 1500, 8),
    ("reduction", reduction, 120, 1500, 8),
    ("preprocess", preprocess, 160, 2000, 8),
];

fn literal_sub() -> Box<dyn vengine::SubCheck> {
    vengine::enum_sub(
        "literal",
        |t: Tier| {
            explicit::cases()
                .into_iter()
                .enumerate()
                .map(|(i, est)| Case { est, rep_pool: (i % 6) as u8, children: t.pick(3u8, 6u8) })
                .collect::<Vec<_>>()
        },
        |c: &Case<explicit::Cfg>, obs: &mut vengine::Obs| judge("literal", c, obs),
    )
    .chunks(4)
}

fn thresholds_sub() -> Box<dyn vengine::SubCheck> {
    vengine::enum_sub(
        "thresholds",
        |t: Tier| {
            kmeans::threshold_cases()
                .into_iter()
                .enumerate()
                .map(|(i, est)| Case { est, rep_pool: (i % 6) as u8, children: t.pick(3u8, 6u8) })
                .collect::<Vec<_>>()
        },
        |c: &Case<kmeans::Cfg>, obs: &mut vengine::Obs| judge("thresholds", c, obs),
    )
    .chunks(8)
}

macro_rules! fixed_sub {
    ($name:literal, $m:ident, $cases:path) => {
        vengine::enum_sub(
            $name,
            |t: Tier| {
                $cases()
                    .into_iter()
                    .enumerate()
                    .map(|(i, est)| Case { est, rep_pool: (i % 6) as u8, children: t.pick(3u8, 6u8) })
                    .collect::<Vec<_>>()
            },
            |c: &Case<$m::Cfg>, obs: &mut vengine::Obs| judge($name, c, obs),
        )
        .chunks(6) as Box<dyn vengine::SubCheck>
    };
}

pub fn property() -> Property {
    let mut subs = all_subs();
    subs.push(thresholds_sub());
    subs.push(fixed_sub!("degenerate_kmeans", kmeans, kmeans::degenerate_fixed_cases));
    subs.push(fixed_sub!("boundary_seeds_kmeans", kmeans, kmeans::boundary_seed_cases));
    subs.push(fixed_sub!("boundary_seeds_reduction", reduction, reduction::boundary_seed_cases));
    subs.push(fixed_sub!("boundary_seeds_linear", linear, linear::boundary_seed_cases));
    subs.push(fixed_sub!("boundary_seeds_preprocess", preprocess, preprocess::boundary_seed_cases));
    subs.push(literal_sub());
    Property {
        id: "C20",
        rule: "a case = one estimator configuration (estimator, hyper-parameters, rng seed, data shape and a u64 from which the data \
               are derived with SplitMix) + the pool size used for the repetitions; it is executed 5 times in one process (fresh HashMaps = \
               fresh SipHash keys each time, fresh rayon pool = fresh threads each time), once under local rayon pools of 1,2,3,5,8,16 threads \
               (pools 1 and 16 only for estimators without parallel code) and in 3 (quick) / 6 (thorough) freshly spawned processes with \
               RAYON_NUM_THREADS in {1,4,16,2,8,3} using rayon's global pool; every run must reproduce the FNV-64 digests (bit patterns, \
               shapes) of every learned array, of the serialised model and of the predictions of the first run. Non-trivial = \
               (k-means family) at least two distinct rayon workers were observed evaluating the centroid distances during one fit — \
               observed through a pass-through Distance wrapper, which replaces the worker-count hook that does not exist; for the \
               builder-default / GMM-via-k-means modes, which use linfa's own L2Dist, the label is conservative: n >= 2000 rows and pools \
               of >= 2 threads, where rayon splits any Zip longer than one row; (trees, naive Bayes, literal cases) the input contains an \
               exact label / posterior tie or >= 3 classes (hash-ordered float sums); (clustering) >= 2 clusters were found so id numbering \
               can move, or distances are tied on a lattice; (other estimators) the estimator draws random numbers, orders labels or builds \
               a hash-map backed vocabulary. Distinct = distinct canonical JSON of the case",
        assumptions: vec![
            "bit identity is judged on FNV-64 digests of the bit patterns (a digest collision would hide a difference: probability ~2^-64 per comparison)".into(),
            "schedules are sampled, not enumerated: pool sizes {1,2,3,5,8,16}, 5 repetitions, 3/6 processes; the harness does not own rayon's scheduler".into(),
            "outside the claim and not generated: permutation p-values, FastICA without random state, the k-means|| initialiser, t-SNE".into(),
            "text vocabularies are compared as word->column maps: the vocabulary as a sorted set and the transformed counts / tf-idf values re-indexed by word".into(),
            "hash-map backed models (naive Bayes) and decision trees are additionally compared through their serde serialisation with object keys sorted; all other models through their bincode bytes".into(),
            "trusted base: data derivation (SplitMix), digest code, rayon's ThreadPoolBuilder/install, std::process; linfa's Distance implementations are only wrapped (arithmetic untouched)".into(),
            "not generated for liveness reasons (nothing to do with determinism): Tweedie powers 1,2,3 and fits without intercept (the L-BFGS line search does not terminate on some inputs), SVR with the polynomial kernel (10^7 iteration cap), SVM shrinking (panics, property C13)".into(),
            "the six hash-order findings of this check are fixed in /repo, so every tree / naive-Bayes / hierarchical class is enforced; the class-named signatures (nondet:tree:exact-label-tie, ...:hash-ordered-impurity-sum:*) only name the generator class in which a difference was seen".into(),
            "tree cases use per-class weights 1 + c/1024 (exact f32 totals) or, in half of the cases, real-valued non-dyadic f32 sample weights through with_weights (inexact class totals: any hash-ordered sum over classes shows); isotonic regression gets real-valued weights in every other case".into(),
            "rng seeds: a third of the generated seeds are boundary values {0,1,2,u32::MAX,u64::MAX-1,u64::MAX}; in addition every boundary seed goes through K-means, the randomly initialised GMM, FastICA (random_state = seed as usize), both random projections, FTRL, shuffle and bootstrap in every run (enum sub-checks boundary_seeds_*)".into(),
            "near ties: a tree class whose leaf holds 3..5 classes with weighted totals 1, 1+s, 1+2s, ... (s in 3e-7..1.2e-6 relative), Gaussian NB queries 1e-9..1e-5 off the exact tie, multinomial NB classes differing in one count out of thousands; the oracle is unchanged (bit identity), these classes only make tolerance-based tie handling visible".into(),
            "degenerate inputs (small n): k-means / mini-batch / GMM on fewer distinct rows than clusters, exactly k distinct rows, all rows equal, a single sample, a single feature, constant columns (3/9 of the random k-means cases + 12 fixed cases in every run); few-distinct-rows data also for DBSCAN / OPTICS / hierarchical / kernels, decision trees and naive Bayes; errors and panics are outcomes and have to repeat exactly".into(),
            "size-threshold strata: k in {101,128} components (GMM by k-means / random init / builder defaults, K-means Random / ++; 8 fixed cases in every run plus ~1/6 of the random k-means cases; GMM with max 3 EM steps, tolerance 1e6, reg_covar 1e-2, one restart), > 100 hierarchical clusters, n in {2^k-1, 2^k, 2^k+1} for k-means, 65..70 feature columns for decompositions and numeric transformers".into(),
            format!("tree impurity differences are recognised as 'rounding of a reordered f32 sum' only below {:e}", tree_bayes::F32_REORDER_GAP),
            "Labels::labels()/one_vs_all() (order of a returned Vec follows a HashSet) are dataset utilities, not estimators, and are not asserted".into(),
        ],
        subs,
    }
}
