//! C20 — same data, parameters and seed give bit-identical results on every run.
pub mod cluster;
pub mod data;
pub mod driver;
pub mod explicit;
pub mod kmeans;
pub mod linear;
pub mod out;
pub mod preprocess;
pub mod reduction;
pub mod svm;
pub mod tree_bayes;

use driver::{child_entry, judge, Case};
use proptest::prelude::*;
use vengine::{prop_sub, Property, Tier};

fn wrap<E: std::fmt::Debug + Clone + 'static>(
    tier: Tier,
    s: impl Strategy<Value = E>,
) -> impl Strategy<Value = Case<E>> {
    let children = tier.pick(3u8, 6u8);
    (s, 0u8..6).prop_map(move |(est, rep_pool)| Case { est, rep_pool, children })
}

/// K-means cases cost 14 fits of thousands of rows each and their data hang off a seed, so proptest's
/// shrinking (thousands of re-evaluations) buys nothing: the failing case is reported as generated.
mod kmeans_noshrink {
    pub use crate::kmeans::Cfg;
    use proptest::prelude::*;
    pub fn strategy(t: vengine::Tier) -> impl Strategy<Value = Cfg> {
        crate::kmeans::strategy(t).no_shrink()
    }
}

macro_rules! subs {
    ($( ($name:literal, $m:ident, $quick:expr, $thorough:expr, $chunks:expr) ),* $(,)?) => {
        pub fn child_main(spec: &str) -> ! {
            driver::child_main(spec, &[ $( ($name, child_entry::<$m::Cfg>) ),* , ("literal", child_entry::<explicit::Cfg>) ])
        }
        fn all_subs() -> Vec<Box<dyn vengine::SubCheck>> {
            vec![ $(
                prop_sub(
                    $name, $quick, $thorough,
                    |t: Tier| wrap(t, $m::strategy(t)),
                    |c: &Case<$m::Cfg>, obs: &mut vengine::Obs| judge($name, c, obs),
                )
                .chunks($chunks)
                .require(&["children_ok"]) as Box<dyn vengine::SubCheck>
            ),* ]
        }
    };
}

subs![
    ("kmeans", kmeans_noshrink, 64, 640, 16),
    ("cluster", cluster, 120, 1500, 8),
    ("tree_bayes", tree_bayes, 240, 3000, 8),
    ("svm", svm, 80, 1000, 8),
    ("linear", linear, 120, 1500, 8),
    ("reduction", reduction, 120, 1500, 8),
    ("preprocess", preprocess, 160, 2000, 8),
];

fn literal_sub() -> Box<dyn vengine::SubCheck> {
    vengine::enum_sub(
        "literal",
        |t: Tier| {
            explicit::cases()
                .into_iter()
                .enumerate()
                .map(|(i, est)| Case { est, rep_pool: (i % 6) as u8, children: t.pick(3u8, 6u8) })
                .collect::<Vec<_>>()
        },
        |c: &Case<explicit::Cfg>, obs: &mut vengine::Obs| judge("literal", c, obs),
    )
    .chunks(4)
}

pub fn property() -> Property {
    let mut subs = all_subs();
    subs.push(literal_sub());
    Property { id: "C20", rule: "", assumptions: vec![], subs }
}
