//! C20 — stub (to be written; see /verif/harness/AUTHORING.md and DESIGN.md §3 C20)
use vengine::Property;

pub fn property() -> Property {
    Property { id: "C20", rule: "", assumptions: vec![], subs: vec![] }
}
