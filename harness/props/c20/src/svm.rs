//! Support vector machines: C / nu classification (boolean and Platt-calibrated probability
//! outputs), one-class, epsilon / nu regression; linear, Gaussian and polynomial kernels.
//! `shrinking(true)` is not generated (it panics at this commit — property C13's finding).

use crate::data;
use crate::driver::{RunInfo, Runnable};
use crate::out::{Out, H};
use linfa::dataset::Pr;
use linfa::traits::{Fit, Predict};
use linfa::DatasetBase;
use linfa_svm::Svm;
use ndarray::Array1;
use proptest::prelude::*;
use serde::{Deserialize, Serialize};
use vengine::{Obs, Tier};

#[derive(Clone, Copy, Debug, PartialEq, Serialize, Deserialize)]
pub enum Task {
    ClassifyC,
    ClassifyNu,
    ClassifyProba,
    OneClass,
    RegressEps,
    RegressNu,
    /// `Svm::params()` untouched
    Defaults,
}

#[derive(Clone, Debug, Serialize, Deserialize)]
pub struct Cfg {
    pub task: Task,
    pub data_seed: u64,
    pub n: usize,
    pub p: usize,
    /// 0 linear, 1 gaussian, 2 polynomial
    pub kernel: u8,
    /// C in tenths
    pub c10: u32,
    /// nu in hundredths (5..=60)
    pub nu100: u32,
}

fn model_bytes<T: Serialize>(out: &mut Out, name: &str, m: &T) {
    match bincode::serialize(m) {
        Ok(b) => {
            let mut h = H::new();
            h.bytes(&b);
            out.push(name, h);
        }
        Err(e) => out.err(name, &e),
    }
}

fn common<T>(out: &mut Out, m: &Svm<f64, T>)
where
    Svm<f64, T>: Serialize,
{
    out.f64s("svm:alpha", m.alpha.iter());
    out.f64("svm:rho", m.rho);
    out.u64s("svm:nsupport", [m.nsupport() as u64]);
    out.text("svm:display", &format!("{m}"));
    model_bytes(out, "svm:model_bytes", m);
}

macro_rules! with_kernel {
    ($params:expr, $k:expr) => {
        match $k {
            0 => $params.linear_kernel(),
            1 => $params.gaussian_kernel(2.0),
            _ => $params.polynomial_kernel(1.0, 2.0),
        }
    };
}

impl Runnable for Cfg {
    fn run(&self) -> Out {
        let mut out = Out::new();
        let x = data::blobs(self.data_seed, self.n, self.p, 2, 1.2) / 4.0;
        let q = data::blobs(self.data_seed ^ 0x31, 40, self.p, 2, 1.5) / 4.0;
        let c = self.c10.max(1) as f64 / 10.0;
        let nu = self.nu100.clamp(5, 60) as f64 / 100.0;
        let yb: Array1<bool> = data::labels_from(&x, self.data_seed, 2, 0.1).mapv(|c| c == 1);
        match self.task {
            Task::ClassifyC | Task::ClassifyNu | Task::Defaults => {
                let params = match self.task {
                    Task::Defaults => Svm::<f64, bool>::params(),
                    Task::ClassifyC => with_kernel!(Svm::<f64, bool>::params().eps(1e-3).pos_neg_weights(c, c * 0.8), self.kernel),
                    _ => with_kernel!(Svm::<f64, bool>::params().eps(1e-3).nu_weight(nu), self.kernel),
                };
                match params.fit(&DatasetBase::new(x, yb)) {
                    Ok(m) => {
                        common(&mut out, &m);
                        let pr = m.predict(&q);
                        out.u64s("svm:predict", pr.iter().map(|b| *b as u64));
                        out.f64s("svm:weighted_sum", q.rows().into_iter().map(|r| m.weighted_sum(&r)).collect::<Vec<_>>().iter());
                    }
                    Err(e) => out.err("svm:fit", &e),
                }
            }
            Task::ClassifyProba => {
                let params = with_kernel!(Svm::<f64, Pr>::params().eps(1e-3).pos_neg_weights(c, c), self.kernel);
                match params.fit(&DatasetBase::new(x, yb)) {
                    Ok(m) => {
                        common(&mut out, &m);
                        let pr: Array1<Pr> = m.predict(&q);
                        out.f32s("svm:predict_proba", pr.iter().map(|p| &**p).collect::<Vec<&f32>>());
                    }
                    Err(e) => out.err("svm:fit", &e),
                }
            }
            Task::OneClass => {
                let params = with_kernel!(Svm::<f64, Pr>::params().eps(1e-3).nu_weight(nu), self.kernel.max(1));
                let t: Array1<()> = Array1::from_elem(self.n, ());
                match params.fit(&DatasetBase::new(x, t)) {
                    Ok(m) => {
                        common(&mut out, &m);
                        let pr = m.predict(&q);
                        out.u64s("svm:predict", pr.iter().map(|b| *b as u64));
                    }
                    Err(e) => out.err("svm:fit", &e),
                }
            }
            Task::RegressEps | Task::RegressNu => {
                let y = data::response(&x, self.data_seed, 0.2);
                let params = if self.task == Task::RegressEps {
                    with_kernel!(Svm::<f64, f64>::params().eps(1e-3).c_svr(c, Some(0.1)), self.kernel)
                } else {
                    with_kernel!(Svm::<f64, f64>::params().eps(1e-3).nu_svr(nu, Some(c)), self.kernel)
                };
                match params.fit(&DatasetBase::new(x, y)) {
                    Ok(m) => {
                        common(&mut out, &m);
                        out.arr("svm:predict", &m.predict(&q));
                    }
                    Err(e) => out.err("svm:fit", &e),
                }
            }
        }
        out
    }

    fn classify(&self, _runs: &[RunInfo], obs: &mut Obs) {
        obs.class(match self.task {
            Task::ClassifyC => "svc_c",
            Task::ClassifyNu => "svc_nu",
            Task::ClassifyProba => "svc_platt_probabilities",
            Task::OneClass => "svm_one_class",
            Task::RegressEps => "svr_epsilon",
            Task::RegressNu => "svr_nu",
            Task::Defaults => "svm_builder_defaults",
        });
        obs.class(match self.kernel {
            0 => "kernel_linear",
            1 => "kernel_gaussian",
            _ => "kernel_polynomial",
        });
        // non-trivial: an iterative solve over a non-linear kernel or a calibrated output
        obs.nontrivial_if(self.kernel != 0 || self.task == Task::ClassifyProba);
    }

    fn all_pools(&self) -> bool {
        false
    }
}

pub fn strategy(tier: Tier) -> impl Strategy<Value = Cfg> {
    let max_n = tier.pick(60usize, 120usize);
    let task = prop_oneof![
        2 => Just(Task::ClassifyC),
        2 => Just(Task::ClassifyNu),
        2 => Just(Task::ClassifyProba),
        1 => Just(Task::OneClass),
        2 => Just(Task::RegressEps),
        2 => Just(Task::RegressNu),
        1 => Just(Task::Defaults),
    ];
    (task, any::<u64>(), 12usize..=max_n, 1usize..=4, 0u8..3, 1u32..=50, 5u32..=60)
        .prop_map(|(task, data_seed, n, p, kernel, c10, nu100)| {
            // SVR with the polynomial kernel runs into the 10^7 iteration cap (minutes): not generated
            let kernel = if matches!(task, Task::RegressEps | Task::RegressNu) && kernel == 2 { 1 } else { kernel };
            Cfg { task, data_seed, n, p, kernel, c10, nu100 }
        })
}
