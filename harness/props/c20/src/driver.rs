//! "Same call again" driver: one estimator configuration is executed
//!  (1) `REPS` times inside this process (fresh `HashMap`s, hence fresh SipHash keys, every time),
//!  (2) once under a local rayon pool of every size in `POOLS`,
//!  (3) in freshly spawned child processes (own per-process hash seeds, `RAYON_NUM_THREADS` varied,
//!      rayon's *global* pool),
//! and every run has to produce the same digests as the first one.

use crate::out::{all_diffs, first_diff, Out};
use serde::de::DeserializeOwned;
use serde::{Deserialize, Serialize};
use std::io::Read;
use std::process::{Command, Stdio};
use vengine::Obs;

pub const REPS: usize = 5;
pub const POOLS: [usize; 6] = [1, 2, 3, 5, 8, 16];
pub const CHILD_THREADS: [usize; 6] = [1, 4, 16, 2, 8, 3];
pub const CHILD_ENV: &str = "C20_CHILD";

#[derive(Clone, Debug, PartialEq, Serialize, Deserialize)]
pub enum Outcome {
    Done(Out),
    /// the call panicked (message @ location); has to be the same panic every time
    Panicked(String),
}

#[derive(Clone, Debug)]
pub struct RunInfo {
    /// "first" | "repeat" | "pool" | "process"
    pub kind: &'static str,
    pub threads: usize,
    pub outcome: Outcome,
}

pub trait Runnable: Serialize + DeserializeOwned + std::fmt::Debug + Clone + Send + Sync + 'static {
    /// Build the data from the seeds in `self`, fit, predict, digest. Pure function of `self`
    /// if the property holds.
    fn run(&self) -> Out;
    /// Class labels and the non-trivial verdict; `runs` are all executions of this case.
    fn classify(&self, runs: &[RunInfo], obs: &mut Obs);
    /// Signature of a difference in part `part` (first differing part) between two runs.
    fn signature(&self, part: &str, _a: &Out, _b: &Out) -> String {
        format!("nondet:{part}")
    }
    /// false: the estimator has no parallel code; only pools {1,16} are exercised (cost).
    fn all_pools(&self) -> bool {
        true
    }
}

/// A case = estimator configuration + how to repeat it (generated, so replayable).
#[derive(Clone, Debug, Serialize, Deserialize)]
pub struct Case<E> {
    pub est: E,
    /// index into POOLS: the pool the first run and the repetitions use
    pub rep_pool: u8,
    /// number of child processes
    pub children: u8,
}

pub fn run_in_pool<T: Send>(threads: usize, f: impl FnOnce() -> T + Send) -> Result<T, String> {
    let pool = rayon::ThreadPoolBuilder::new()
        .num_threads(threads.max(1))
        .thread_name(|i| format!("c20-pool-{i}"))
        .build()
        .map_err(|e| format!("cannot build a rayon pool of {threads} threads: {e}"))?;
    Ok(pool.install(f))
}

fn outcome_of<E: Runnable>(e: &E) -> Outcome {
    match vengine::guard(|| e.run()) {
        Ok(o) => Outcome::Done(o),
        // keep the payload only: the "@ file:line" suffix comes from the engine's panic hook, which a
        // child process started by this check does not install
        Err(m) => Outcome::Panicked(m.rsplit_once(" @ ").map(|x| x.0.to_string()).unwrap_or(m)),
    }
}

fn pooled<E: Runnable>(e: &E, threads: usize) -> Result<Outcome, String> {
    run_in_pool(threads, || outcome_of(e))
}

#[derive(Serialize, Deserialize)]
struct ChildSpec {
    sub: String,
    est: serde_json::Value,
}

type ChildFn = fn(&serde_json::Value) -> Result<Outcome, String>;

pub fn child_entry<E: Runnable>(v: &serde_json::Value) -> Result<Outcome, String> {
    let e: E = serde_json::from_value(v.clone()).map_err(|e| e.to_string())?;
    Ok(outcome_of(&e))
}

/// Called from `main` before the engine when `C20_CHILD` is set: run one configuration on the main
/// thread (rayon's global pool, sized by RAYON_NUM_THREADS) and print the outcome as one JSON line.
pub fn child_main(spec: &str, registry: &[(&'static str, ChildFn)]) -> ! {
    // location-recording, silent panic hook identical in effect to the engine's
    std::panic::set_hook(Box::new(|_| {}));
    let code = (|| -> Result<(), String> {
        let spec: ChildSpec = serde_json::from_str(spec).map_err(|e| e.to_string())?;
        let f = registry
            .iter()
            .find(|r| r.0 == spec.sub)
            .ok_or_else(|| format!("unknown sub-check {}", spec.sub))?
            .1;
        let out = f(&spec.est)?;
        println!("{}", serde_json::to_string(&out).map_err(|e| e.to_string())?);
        Ok(())
    })();
    match code {
        Ok(()) => std::process::exit(0),
        Err(e) => {
            eprintln!("c20 child: {e}");
            std::process::exit(3)
        }
    }
}

fn spawn_children<E: Runnable>(sub: &str, e: &E, n: usize) -> Vec<(usize, Result<Outcome, String>)> {
    let exe = vengine::self_exe();
    let spec = match serde_json::to_value(e)
        .and_then(|est| serde_json::to_string(&ChildSpec { sub: sub.to_string(), est }))
    {
        Ok(s) => s,
        Err(err) => return vec![(0, Err(format!("cannot serialise the case: {err}")))],
    };
    let mut kids = vec![];
    for i in 0..n {
        let threads = CHILD_THREADS[i % CHILD_THREADS.len()];
        let child = Command::new(&exe)
            .env(CHILD_ENV, &spec)
            .env("RAYON_NUM_THREADS", threads.to_string())
            .stdin(Stdio::null())
            .stdout(Stdio::piped())
            .stderr(Stdio::null())
            .spawn();
        kids.push((threads, child));
    }
    let mut res = vec![];
    for (threads, child) in kids {
        let r = match child {
            Err(err) => Err(format!("spawn failed: {err}")),
            Ok(mut ch) => {
                let mut s = String::new();
                let read = ch.stdout.take().map(|mut o| o.read_to_string(&mut s));
                let st = ch.wait();
                match (read, st) {
                    (Some(Ok(_)), Ok(st)) if st.success() => {
                        serde_json::from_str::<Outcome>(s.trim()).map_err(|e| format!("bad child output: {e}"))
                    }
                    (_, Ok(st)) => Err(format!("child ended with {st}")),
                    (_, Err(err)) => Err(format!("wait failed: {err}")),
                }
            }
        };
        res.push((threads, r));
    }
    res
}

fn describe(o: &Outcome) -> String {
    match o {
        Outcome::Done(out) => {
            if let Some(n) = out.notes.iter().find(|n| n.0.ends_with("!error")) {
                format!("returned error '{}'", n.1)
            } else {
                "completed".into()
            }
        }
        Outcome::Panicked(m) => format!("panicked: {m}"),
    }
}

fn compare<E: Runnable>(e: &E, first: &Outcome, other: &Outcome, what: &str, obs: &mut Obs) {
    match (first, other) {
        (Outcome::Done(a), Outcome::Done(b)) => {
            if let Some((part, detail)) = first_diff(a, b) {
                let sig = e.signature(&part, a, b);
                let mut msg = format!(
                    "{what}: part '{part}' differs from the first run ({detail}); all differing parts: {:?}",
                    all_diffs(a, b)
                );
                for (k, v) in &a.notes {
                    if k == &part {
                        msg.push_str(&format!("; first run: {v}"));
                    }
                }
                for (k, v) in &b.notes {
                    if k == &part {
                        msg.push_str(&format!("; this run: {v}"));
                    }
                }
                obs.fail(sig, msg);
            }
        }
        (a, b) => {
            if a != b {
                obs.fail(
                    "nondet:outcome-kind",
                    format!("{what}: first run {}, this run {}", describe(a), describe(b)),
                );
            }
        }
    }
}

/// The check function of every sub-check.
pub fn judge<E: Runnable>(sub: &'static str, c: &Case<E>, obs: &mut Obs) {
    let e = &c.est;
    let rep_threads = POOLS[(c.rep_pool as usize).min(POOLS.len() - 1)];
    let mut runs: Vec<RunInfo> = vec![];

    let first = match pooled(e, rep_threads) {
        Ok(o) => o,
        Err(m) => {
            obs.skip("pool_unavailable");
            let _ = m;
            return;
        }
    };
    runs.push(RunInfo { kind: "first", threads: rep_threads, outcome: first.clone() });
    if let Outcome::Panicked(_) = &first {
        obs.class("panicked");
    }
    if let Outcome::Done(o) = &first {
        obs.class_if(o.has_error(), "error_outcome");
        if o.has_error() && std::env::var("C20_DEBUG").is_ok() {
            eprintln!("c20 debug: {} -> {:?}", serde_json::to_string(e).unwrap_or_default(), o.notes);
        }
    }
    if let (Outcome::Panicked(m), true) = (&first, std::env::var("C20_DEBUG").is_ok()) {
        eprintln!("c20 debug: {} -> panic {m}", serde_json::to_string(e).unwrap_or_default());
    }

    // (1) repetitions in the same pool size
    for r in 1..REPS {
        if let Ok(o) = pooled(e, rep_threads) {
            compare(e, &first, &o, &format!("repetition {} of {REPS} in a {rep_threads}-thread pool", r + 1), obs);
            runs.push(RunInfo { kind: "repeat", threads: rep_threads, outcome: o });
        }
    }
    // (2) pool sizes
    for &t in POOLS.iter() {
        if !e.all_pools() && t != 1 && t != 16 {
            continue;
        }
        if let Ok(o) = pooled(e, t) {
            compare(e, &first, &o, &format!("run in a {t}-thread pool (first run: {rep_threads} threads)"), obs);
            runs.push(RunInfo { kind: "pool", threads: t, outcome: o });
        }
    }
    // (3) separate processes
    if c.children > 0 {
        let mut ok = 0;
        for (threads, r) in spawn_children(sub, e, c.children as usize) {
            match r {
                Ok(o) => {
                    ok += 1;
                    compare(
                        e,
                        &first,
                        &o,
                        &format!("separate process with RAYON_NUM_THREADS={threads} (global pool)"),
                        obs,
                    );
                    runs.push(RunInfo { kind: "process", threads, outcome: o });
                }
                Err(_) => obs.class("child_unavailable"),
            }
        }
        obs.class_if(ok > 0, "children_ok");
    }
    e.classify(&runs, obs);
}
