//! Digest of everything one estimator run produced: named parts, each an FNV-64 over the exact bit
//! patterns (plus lengths / shapes) of a learned array or a prediction vector. Two runs are "the
//! same" iff the part lists are identical. `notes` carry human-readable detail that is *not*
//! compared (used to explain / classify a difference).

use ndarray::{ArrayBase, Data, Dimension};
use serde::{Deserialize, Serialize};

#[derive(Clone, Debug, Default, PartialEq, Serialize, Deserialize)]
pub struct Out {
    pub parts: Vec<(String, u64)>,
    #[serde(default)]
    pub notes: Vec<(String, String)>,
}

pub struct H(u64);
impl H {
    pub fn new() -> Self {
        H(0xcbf29ce484222325)
    }
    pub fn u64(&mut self, v: u64) {
        for b in v.to_le_bytes() {
            self.0 ^= b as u64;
            self.0 = self.0.wrapping_mul(0x100000001b3);
        }
    }
    pub fn bytes(&mut self, v: &[u8]) {
        self.u64(v.len() as u64);
        for b in v {
            self.0 ^= *b as u64;
            self.0 = self.0.wrapping_mul(0x100000001b3);
        }
    }
    pub fn finish(&self) -> u64 {
        self.0
    }
}

impl Default for H {
    fn default() -> Self {
        H::new()
    }
}

impl Out {
    pub fn new() -> Self {
        Out::default()
    }
    pub fn push(&mut self, name: &str, h: H) {
        self.parts.push((name.to_string(), h.finish()));
    }
    pub fn note(&mut self, name: &str, v: impl Into<String>) {
        let mut s: String = v.into();
        if s.len() > 600 {
            let mut cut = 600;
            while !s.is_char_boundary(cut) {
                cut -= 1;
            }
            s.truncate(cut);
            s.push('…');
        }
        self.notes.push((name.to_string(), s));
    }
    pub fn f64s<'a>(&mut self, name: &str, it: impl IntoIterator<Item = &'a f64>) {
        let mut h = H::new();
        let mut n = 0u64;
        for v in it {
            h.u64(v.to_bits());
            n += 1;
        }
        h.u64(n);
        self.push(name, h);
    }
    pub fn f32s<'a>(&mut self, name: &str, it: impl IntoIterator<Item = &'a f32>) {
        let mut h = H::new();
        let mut n = 0u64;
        for v in it {
            h.u64(v.to_bits() as u64);
            n += 1;
        }
        h.u64(n);
        self.push(name, h);
    }
    pub fn f64(&mut self, name: &str, v: f64) {
        self.f64s(name, [&v]);
    }
    pub fn usizes<'a>(&mut self, name: &str, it: impl IntoIterator<Item = &'a usize>) {
        let mut h = H::new();
        let mut n = 0u64;
        for v in it {
            h.u64(*v as u64);
            n += 1;
        }
        h.u64(n);
        self.push(name, h);
    }
    pub fn u64s(&mut self, name: &str, it: impl IntoIterator<Item = u64>) {
        let mut h = H::new();
        let mut n = 0u64;
        for v in it {
            h.u64(v);
            n += 1;
        }
        h.u64(n);
        self.push(name, h);
    }
    pub fn strs<S: AsRef<str>>(&mut self, name: &str, it: impl IntoIterator<Item = S>) {
        let mut h = H::new();
        let mut n = 0u64;
        for v in it {
            h.bytes(v.as_ref().as_bytes());
            n += 1;
        }
        h.u64(n);
        self.push(name, h);
    }
    pub fn text(&mut self, name: &str, s: &str) {
        self.strs(name, [s]);
    }
    /// n-dimensional f64 array: shape + elements in logical (row-major) order.
    pub fn arr<S: Data<Elem = f64>, D: Dimension>(&mut self, name: &str, a: &ArrayBase<S, D>) {
        let mut h = H::new();
        for d in a.shape() {
            h.u64(*d as u64);
        }
        for v in a.iter() {
            h.u64(v.to_bits());
        }
        self.push(name, h);
    }
    pub fn arr32<S: Data<Elem = f32>, D: Dimension>(&mut self, name: &str, a: &ArrayBase<S, D>) {
        let mut h = H::new();
        for d in a.shape() {
            h.u64(*d as u64);
        }
        for v in a.iter() {
            h.u64(v.to_bits() as u64);
        }
        self.push(name, h);
    }
    pub fn arr_usize<S: Data<Elem = usize>, D: Dimension>(&mut self, name: &str, a: &ArrayBase<S, D>) {
        let mut h = H::new();
        for d in a.shape() {
            h.u64(*d as u64);
        }
        for v in a.iter() {
            h.u64(*v as u64);
        }
        self.push(name, h);
    }
    /// An error outcome is an outcome too: it has to be the same error every time.
    pub fn err(&mut self, name: &str, e: &dyn std::fmt::Display) {
        let s = e.to_string();
        self.text(&format!("{name}!error"), &s);
        self.note(&format!("{name}!error"), s);
    }
    pub fn has_error(&self) -> bool {
        self.parts.iter().any(|p| p.0.ends_with("!error"))
    }
    pub fn note_of(&self, name: &str) -> Option<&str> {
        self.notes.iter().find(|n| n.0 == name).map(|n| n.1.as_str())
    }
}

/// First difference between two outputs: `(part name, description)`.
pub fn first_diff(a: &Out, b: &Out) -> Option<(String, String)> {
    let n = a.parts.len().max(b.parts.len());
    for i in 0..n {
        match (a.parts.get(i), b.parts.get(i)) {
            (Some(x), Some(y)) if x.0 == y.0 => {
                if x.1 != y.1 {
                    return Some((x.0.clone(), format!("digest {:016x} vs {:016x}", x.1, y.1)));
                }
            }
            (Some(x), Some(y)) => {
                return Some((
                    x.0.clone(),
                    format!("run produced part '{}' where the other produced '{}'", x.0, y.0),
                ))
            }
            (Some(x), None) => return Some((x.0.clone(), "part missing in the other run".into())),
            (None, Some(y)) => return Some((y.0.clone(), "part missing in the first run".into())),
            (None, None) => {}
        }
    }
    None
}

/// All differing part names (same order as in `a`).
pub fn all_diffs(a: &Out, b: &Out) -> Vec<String> {
    let mut v = vec![];
    let n = a.parts.len().max(b.parts.len());
    for i in 0..n {
        match (a.parts.get(i), b.parts.get(i)) {
            (Some(x), Some(y)) if x.0 == y.0 && x.1 == y.1 => {}
            (Some(x), _) => v.push(x.0.clone()),
            (None, Some(y)) => v.push(y.0.clone()),
            (None, None) => {}
        }
    }
    v
}
