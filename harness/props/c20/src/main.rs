fn main() {
    // cross-process repetition: a child started by the check itself only runs one configuration
    if let Ok(spec) = std::env::var(c20::driver::CHILD_ENV) {
        c20::child_main(&spec)
    }
    vengine::main(c20::property())
}
