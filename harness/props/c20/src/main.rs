fn main() {
    vengine::main(c20::property())
}
