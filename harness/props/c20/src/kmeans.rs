//! K-means family (the only linfa code with rayon loops): batch fit (Random / KMeans++ /
//! Precomputed init, L2 / L1 distance, several restarts), mini-batch `fit_with`, builder defaults,
//! and the Gaussian mixture (which initialises through K-means).
//!
//! The distance functor handed to K-means is a thin wrapper around linfa's own `L2Dist` / `L1Dist`
//! that records which rayon worker called it. That is the public-API replacement of the
//! worker-count hook: a case is "really split" when >= 2 distinct workers evaluated
//! `closest_centroid` during one fit.

use crate::data;
use crate::driver::{Outcome, RunInfo, Runnable};
use crate::out::Out;
use linfa::traits::{Fit, FitWith, Predict, Transformer};
use linfa::DatasetBase;
use linfa_clustering::{GaussianMixtureModel, GmmInitMethod, IncrKMeansError, KMeans, KMeansInit};
use linfa_nn::distance::{Distance, L1Dist, L2Dist};
use ndarray::{s, Array2, ArrayView, Axis, Dimension};
use proptest::prelude::*;
use rand::SeedableRng;
use rand_xoshiro::Xoshiro256Plus;
use serde::{Deserialize, Serialize};
use std::sync::atomic::{AtomicU64, Ordering};
use vengine::gen::idx;
use vengine::{Obs, Tier};

static WORKERS: AtomicU64 = AtomicU64::new(0);

fn mark_worker() {
    // bit 63: a thread outside any pool
    let bit = rayon::current_thread_index().map(|i| i.min(62)).unwrap_or(63);
    WORKERS.fetch_or(1u64 << bit, Ordering::Relaxed);
}

/// Delegates every operation to linfa's distance; only records the calling worker.
#[derive(Clone, Debug)]
pub struct Probe<D>(pub D);

impl<D: Distance<f64>> Distance<f64> for Probe<D> {
    #[inline]
    fn distance<Dm: Dimension>(&self, a: ArrayView<f64, Dm>, b: ArrayView<f64, Dm>) -> f64 {
        mark_worker();
        self.0.distance(a, b)
    }
    #[inline]
    fn rdistance<Dm: Dimension>(&self, a: ArrayView<f64, Dm>, b: ArrayView<f64, Dm>) -> f64 {
        mark_worker();
        self.0.rdistance(a, b)
    }
    #[inline]
    fn rdist_to_dist(&self, r: f64) -> f64 {
        self.0.rdist_to_dist(r)
    }
    #[inline]
    fn dist_to_rdist(&self, d: f64) -> f64 {
        self.0.dist_to_rdist(d)
    }
}

#[derive(Clone, Copy, Debug, PartialEq, Serialize, Deserialize)]
pub enum Init {
    Random,
    PlusPlus,
    Precomputed,
}

#[derive(Clone, Copy, Debug, PartialEq, Serialize, Deserialize)]
pub enum Shape {
    /// Gaussian blobs (float sums are order-sensitive)
    Blobs,
    /// small-integer lattice: many exactly tied distances and duplicate rows
    Lattice,
}

/// Degenerate inputs (small n; no parallel split is needed for them): the fall-back branches of the
/// initialisers ("every point already coincides with a chosen centroid") only run on such data.
#[derive(Clone, Copy, Debug, PartialEq, Serialize, Deserialize)]
pub enum Degenerate {
    /// fewer distinct rows than clusters, each repeated
    FewerDistinctThanK,
    /// exactly as many distinct rows as clusters, each repeated
    DistinctEqualsK,
    AllRowsEqual,
    /// one sample, one cluster
    SingleSample,
    SingleFeature,
    /// blobs whose last columns (at least one) are constant
    ConstantColumns,
}

#[derive(Clone, Copy, Debug, PartialEq, Serialize, Deserialize)]
pub enum Mode {
    /// `fit` with explicit rng
    Fit,
    /// `fit_with` over consecutive batches (mini-batch K-means)
    MiniBatch,
    /// `KMeans::params(k)` — nothing seeded by the caller
    Defaults,
    /// Gaussian mixture, K-means initialisation
    GmmKMeans,
    /// Gaussian mixture, random initialisation
    GmmRandom,
    /// `GaussianMixtureModel::params(k)` — nothing seeded by the caller
    GmmDefaults,
}

#[derive(Clone, Debug, Serialize, Deserialize)]
pub struct Cfg {
    pub mode: Mode,
    pub shape: Shape,
    pub data_seed: u64,
    pub rng_seed: u64,
    pub n: usize,
    pub p: usize,
    pub k: usize,
    pub init: Init,
    pub l1: bool,
    pub n_runs: usize,
    pub max_iter: u64,
    /// tolerance = 10^-tol_exp
    pub tol_exp: u8,
    pub batches: usize,
    /// "many components" stratum: k in {101, 128} on a few hundred low-dimensional points, 2-3 iterations,
    /// one restart (GMM: reg_covar 1e-2, tolerance 1e6 so that the second EM step counts as converged).
    /// Size thresholds (k > 100) can hide a different code path.
    #[serde(default)]
    pub many: bool,
    #[serde(default)]
    pub degenerate: Option<Degenerate>,
}

impl Cfg {
    fn degenerate_data(&self, d: Degenerate, seed: u64, n: usize) -> Array2<f64> {
        match d {
            Degenerate::FewerDistinctThanK => data::few_distinct(seed, n, self.p, 1 + (seed % (self.k.max(2) as u64 - 1)) as usize),
            Degenerate::DistinctEqualsK => data::few_distinct(seed, n, self.p, self.k),
            Degenerate::AllRowsEqual => data::few_distinct(seed, n, self.p, 1),
            Degenerate::SingleSample => data::gaussian(seed, n, self.p),
            Degenerate::SingleFeature => data::blobs(seed, n, 1, self.k, 0.5),
            Degenerate::ConstantColumns => {
                let mut x = data::blobs(seed, n, self.p, self.k, 0.5);
                let from = (self.p / 2).min(self.p - 1);
                for j in from.max(if self.p > 1 { 1 } else { 0 })..self.p {
                    x.column_mut(j).fill(1.5);
                }
                if self.p == 1 {
                    x.column_mut(0).fill(1.5);
                }
                x
            }
        }
    }
    fn observations(&self) -> Array2<f64> {
        if let Some(d) = self.degenerate {
            return self.degenerate_data(d, self.data_seed, self.n);
        }
        if self.many {
            return data::uniform(self.data_seed, self.n, self.p, 40.0);
        }
        match self.shape {
            Shape::Blobs => data::blobs(self.data_seed, self.n, self.p, self.k + 1, 0.9),
            Shape::Lattice => data::lattice(self.data_seed, self.n, self.p, 4),
        }
    }
    fn queries(&self) -> Array2<f64> {
        if let Some(d) = self.degenerate {
            // the training rows' neighbourhood: same construction, other seed, plus jitter-free copies
            let p = if d == Degenerate::SingleFeature { 1 } else { self.p };
            return data::gaussian(self.data_seed ^ 0x77, 17, p);
        }
        if self.many {
            return data::uniform(self.data_seed ^ 0x77, 64, self.p, 40.0);
        }
        match self.shape {
            Shape::Blobs => data::blobs(self.data_seed ^ 0x77, 257, self.p, self.k + 1, 1.5),
            Shape::Lattice => data::lattice(self.data_seed ^ 0x77, 257, self.p, 5),
        }
    }
    fn tol(&self) -> f64 {
        10f64.powi(-(self.tol_exp as i32))
    }
    fn init(&self, x: &Array2<f64>) -> KMeansInit<f64> {
        match self.init {
            Init::Random => KMeansInit::Random,
            Init::PlusPlus => KMeansInit::KMeansPlusPlus,
            Init::Precomputed => {
                // k rows of the data, chosen by a seeded stride
                let step = (x.nrows() / self.k.max(1)).max(1);
                let rows: Vec<usize> = (0..self.k).map(|c| (c * step) % x.nrows()).collect();
                KMeansInit::Precomputed(x.select(Axis(0), &rows))
            }
        }
    }
    pub fn is_gmm(&self) -> bool {
        matches!(self.mode, Mode::GmmKMeans | Mode::GmmRandom | Mode::GmmDefaults)
    }
}

fn digest_kmeans<D: Distance<f64>>(out: &mut Out, pre: &str, m: &KMeans<f64, D>, q: &Array2<f64>) {
    out.arr(&format!("{pre}:centroids"), m.centroids());
    out.arr(&format!("{pre}:cluster_count"), m.cluster_count());
    out.f64(&format!("{pre}:inertia"), m.inertia());
    let pred = m.predict(q);
    out.arr_usize(&format!("{pre}:predict"), &pred);
    let tr = m.transform(q);
    out.arr(&format!("{pre}:transform"), &tr);
}

fn run_fit<D: Distance<f64>>(c: &Cfg, dist: D, out: &mut Out) {
    let x = c.observations();
    let q = c.queries();
    let init = c.init(&x);
    let ds = DatasetBase::from(x);
    let rng = Xoshiro256Plus::seed_from_u64(c.rng_seed);
    let params = KMeans::params_with(c.k, rng, dist)
        .n_runs(c.n_runs)
        .max_n_iterations(c.max_iter)
        .tolerance(c.tol())
        .init_method(init);
    match params.fit(&ds) {
        Ok(m) => {
            digest_kmeans(out, "kmeans", &m, &q);
            let train_pred = m.predict(ds.records());
            out.arr_usize("kmeans:predict_train", &train_pred);
        }
        Err(e) => out.err("kmeans:fit", &e),
    }
}

fn run_minibatch<D: Distance<f64> + std::fmt::Debug>(c: &Cfg, dist: D, out: &mut Out) {
    let x = c.observations();
    let q = c.queries();
    let init = c.init(&x);
    let rng = Xoshiro256Plus::seed_from_u64(c.rng_seed);
    let params = KMeans::params_with(c.k, rng, dist)
        .n_runs(c.n_runs)
        .tolerance(c.tol())
        .init_method(init);
    let params = match linfa::ParamGuard::check(params) {
        Ok(p) => p,
        Err(e) => {
            out.err("minibatch:params", &e);
            return;
        }
    };
    let nb = c.batches.max(1);
    let size = (c.n / nb).max(1);
    let mut model = None;
    let mut converged_at = vec![];
    for b in 0..nb {
        let lo = b * size;
        let hi = if b + 1 == nb { c.n } else { (lo + size).min(c.n) };
        if lo >= hi {
            break;
        }
        let batch = DatasetBase::from(x.slice(s![lo..hi, ..]).to_owned());
        model = match params.fit_with(model, &batch) {
            Ok(m) => {
                converged_at.push(b);
                Some(m)
            }
            Err(IncrKMeansError::NotConverged(m)) => Some(m),
            Err(e) => {
                out.err("minibatch:fit_with", &e);
                return;
            }
        };
    }
    if let Some(m) = model {
        digest_kmeans(out, "minibatch", &m, &q);
        out.usizes("minibatch:converged_batches", converged_at.iter());
    }
}

fn digest_gmm(out: &mut Out, m: &GaussianMixtureModel<f64>, q: &Array2<f64>) {
    out.arr("gmm:weights", m.weights());
    out.arr("gmm:means", m.means());
    out.arr("gmm:covariances", m.covariances());
    out.arr("gmm:precisions", m.precisions());
    out.arr_usize("gmm:predict", &m.predict(q));
    out.arr("gmm:predict_proba", &m.predict_proba(q));
}

fn run_gmm(c: &Cfg, out: &mut Out) {
    let x = c.observations();
    let q = c.queries();
    let ds = DatasetBase::from(x);
    let res = match c.mode {
        Mode::GmmDefaults if c.many => GaussianMixtureModel::params(c.k)
            .n_runs(1)
            .max_n_iterations(3)
            .tolerance(1e6)
            .reg_covariance(1e-2)
            .fit(&ds),
        _ if c.many => GaussianMixtureModel::params_with_rng(c.k, Xoshiro256Plus::seed_from_u64(c.rng_seed))
            .n_runs(1)
            .max_n_iterations(3)
            .tolerance(1e6)
            .reg_covariance(1e-2)
            .init_method(if c.mode == Mode::GmmKMeans { GmmInitMethod::KMeans } else { GmmInitMethod::Random })
            .fit(&ds),
        Mode::GmmDefaults => GaussianMixtureModel::params(c.k).fit(&ds),
        _ => GaussianMixtureModel::params_with_rng(c.k, Xoshiro256Plus::seed_from_u64(c.rng_seed))
            .n_runs(c.n_runs as u64)
            .max_n_iterations(c.max_iter)
            .tolerance(c.tol())
            .init_method(if c.mode == Mode::GmmKMeans { GmmInitMethod::KMeans } else { GmmInitMethod::Random })
            .fit(&ds),
    };
    match res {
        Ok(m) => digest_gmm(out, &m, &q),
        Err(e) => out.err("gmm:fit", &e),
    }
}

impl Runnable for Cfg {
    fn run(&self) -> Out {
        let mut out = Out::new();
        WORKERS.store(0, Ordering::Relaxed);
        match self.mode {
            Mode::Fit => {
                if self.l1 {
                    run_fit(self, Probe(L1Dist), &mut out)
                } else {
                    run_fit(self, Probe(L2Dist), &mut out)
                }
            }
            Mode::MiniBatch => {
                if self.l1 {
                    run_minibatch(self, Probe(L1Dist), &mut out)
                } else {
                    run_minibatch(self, Probe(L2Dist), &mut out)
                }
            }
            Mode::Defaults => {
                // exactly what a user who sets nothing gets (L2Dist, default rng, 10 restarts)
                let x = self.observations();
                let q = self.queries();
                let ds = DatasetBase::from(x);
                match KMeans::params(self.k).fit(&ds) {
                    Ok(m) => digest_kmeans(&mut out, "kmeans_defaults", &m, &q),
                    Err(e) => out.err("kmeans_defaults:fit", &e),
                }
            }
            Mode::GmmKMeans | Mode::GmmRandom | Mode::GmmDefaults => run_gmm(self, &mut out),
        }
        let w = WORKERS.load(Ordering::Relaxed);
        out.note("workers", format!("{}", w.count_ones()));
        out
    }

    fn classify(&self, runs: &[RunInfo], obs: &mut Obs) {
        obs.class(match self.mode {
            Mode::Fit => "kmeans_fit",
            Mode::MiniBatch => "kmeans_minibatch",
            Mode::Defaults => "kmeans_builder_defaults",
            Mode::GmmKMeans => "gmm_kmeans_init",
            Mode::GmmRandom => "gmm_random_init",
            Mode::GmmDefaults => "gmm_builder_defaults",
        });
        if !self.is_gmm() && self.mode != Mode::Defaults {
            obs.class(match self.init {
                Init::Random => "init_random",
                Init::PlusPlus => "init_kmeans_plusplus",
                Init::Precomputed => "init_precomputed",
            });
            obs.class_if(self.l1, "l1_distance");
            obs.class_if(self.n_runs > 1, "several_restarts");
        }
        obs.class_if(crate::BOUNDARY_SEEDS.contains(&self.rng_seed) && !matches!(self.mode, Mode::Defaults | Mode::GmmDefaults), "boundary_rng_seed");
        obs.class_if(self.rng_seed == 0 && !matches!(self.mode, Mode::Defaults | Mode::GmmDefaults), "rng_seed_zero");
        if let Some(d) = self.degenerate {
            obs.class(match d {
                Degenerate::FewerDistinctThanK => "degenerate_fewer_distinct_rows_than_clusters",
                Degenerate::DistinctEqualsK => "degenerate_distinct_rows_equal_clusters",
                Degenerate::AllRowsEqual => "degenerate_all_rows_equal",
                Degenerate::SingleSample => "degenerate_single_sample",
                Degenerate::SingleFeature => "degenerate_single_feature",
                Degenerate::ConstantColumns => "degenerate_constant_columns",
            });
            // non-trivial for the fall-back branches it reaches, not for a parallel split
            obs.nontrivial();
        }
        obs.class_if(self.many, "many_components_k_over_100");
        obs.class_if(self.many && self.is_gmm(), "gmm_many_components");
        obs.class_if(
            !self.many && ((self.n + 1).is_power_of_two() || self.n.is_power_of_two() || self.n.saturating_sub(1).is_power_of_two()),
            "n_at_power_of_two_boundary",
        );
        obs.class_if(self.shape == Shape::Lattice && !self.many, "lattice_tied_distances");
        obs.class_if(self.shape == Shape::Blobs, "gaussian_blobs");
        // measured through the probing distance: how many distinct workers ran the assignment loop
        let mut max_workers = 0u32;
        let mut probed = false;
        for r in runs {
            if let Outcome::Done(o) = &r.outcome {
                if let Some(w) = o.note_of("workers").and_then(|s| s.parse::<u32>().ok()) {
                    if w > 0 {
                        probed = true;
                    }
                    max_workers = max_workers.max(w);
                }
            }
        }
        obs.class_if(probed && max_workers >= 2, "split_observed_2plus_workers");
        obs.class_if(probed && max_workers >= 8, "split_observed_8plus_workers");
        obs.class_if(probed && max_workers < 2, "never_split");
        // the default-builder and GMM-by-K-means modes use linfa's own L2Dist (no probe): there the
        // label is conservative — rayon splits any Zip longer than one row whenever the pool has
        // more than one thread, and pools of 2..16 threads are always part of a case.
        let conservative = !probed && matches!(self.mode, Mode::Defaults | Mode::GmmKMeans | Mode::GmmDefaults) && self.n >= 2000;
        // many-components GMM cases (a few hundred rows, linfa's own L2Dist): counted as non-trivial for the size
        // threshold they cross (k > 100), not for an observed split
        obs.nontrivial_if(self.many);
        obs.class_if(conservative, "split_assumed_from_size");
        obs.nontrivial_if((probed && max_workers >= 2) || conservative);
    }

    fn all_pools(&self) -> bool {
        self.mode != Mode::GmmRandom
    }
}

fn regular(tier: Tier) -> impl Strategy<Value = Cfg> {
    let max_n = tier.pick(6000usize, 6000usize);
    let mode = prop_oneof![
        6 => Just(Mode::Fit),
        3 => Just(Mode::MiniBatch),
        1 => Just(Mode::Defaults),
        2 => Just(Mode::GmmKMeans),
        1 => Just(Mode::GmmRandom),
        1 => Just(Mode::GmmDefaults),
    ];
    let shape = prop_oneof![3 => Just(Shape::Blobs), 1 => Just(Shape::Lattice)];
    let init = prop_oneof![Just(Init::Random), Just(Init::PlusPlus), Just(Init::Precomputed)];
    (
        (mode, shape, init, any::<bool>()),
        (any::<u64>(), crate::seed_strategy()),
        (any::<u16>(), 1usize..=6, 2usize..=8, 0u8..8),
        (1usize..=3, 2u64..=25, 2u8..=6, 2usize..=6),
    )
        .prop_map(move |((mode, shape, init, l1), (data_seed, rng_seed), (nn, p, k, snap), (n_runs, max_iter, tol_exp, batches))| {
            let gmm = matches!(mode, Mode::GmmKMeans | Mode::GmmRandom | Mode::GmmDefaults);
            let mut n = 2000 + idx(nn, max_n - 2000 + 1);
            // a quarter of the cases sit exactly at / next to a power of two (chunking thresholds)
            if snap < 2 {
                let pow = if n < 3072 { 2048 } else { 4096 };
                n = pow - 1 + (nn as usize % 3);
            }
            Cfg {
                mode,
                // a lattice is degenerate for a full-covariance mixture (singular clusters): blobs only
                shape: if gmm { Shape::Blobs } else { shape },
                data_seed,
                rng_seed,
                n: if gmm && snap >= 2 { 2000 + (n - 2000) / 4 } else if gmm { 2047 + (nn as usize % 3) } else { n },
                p: if gmm { p.min(3) } else { p },
                k: if gmm { k.min(4) } else { k },
                init,
                l1: l1 && !gmm,
                n_runs: if gmm { n_runs.min(2) } else { n_runs },
                max_iter: if gmm { 40 + max_iter } else { max_iter },
                tol_exp: if gmm { tol_exp.min(3) } else { tol_exp },
                batches,
                many: false,
                degenerate: None,
            }
        })
}

/// small degenerate inputs through every k-means / mixture mode
fn degenerate_cases() -> impl Strategy<Value = Cfg> {
    let mode = prop_oneof![
        4 => Just(Mode::Fit),
        2 => Just(Mode::MiniBatch),
        2 => Just(Mode::Defaults),
        2 => Just(Mode::GmmKMeans),
        1 => Just(Mode::GmmDefaults),
        1 => Just(Mode::GmmRandom),
    ];
    let deg = prop_oneof![
        4 => Just(Degenerate::FewerDistinctThanK),
        2 => Just(Degenerate::DistinctEqualsK),
        2 => Just(Degenerate::AllRowsEqual),
        1 => Just(Degenerate::SingleSample),
        1 => Just(Degenerate::SingleFeature),
        1 => Just(Degenerate::ConstantColumns),
    ];
    let init = prop_oneof![3 => Just(Init::PlusPlus), 1 => Just(Init::Random), 1 => Just(Init::Precomputed)];
    (mode, deg, init, any::<u64>(), crate::seed_strategy(), 8usize..=64, 1usize..=4, 2usize..=7, 1usize..=2, any::<bool>()).prop_map(
        |(mode, deg, init, data_seed, rng_seed, n, p, k, n_runs, l1)| {
            let single = deg == Degenerate::SingleSample;
            Cfg {
                mode,
                shape: Shape::Blobs,
                data_seed,
                rng_seed,
                n: if single { 1 } else { n.max(k + 1) },
                p,
                k: if single { 1 } else { k },
                init,
                l1: l1 && matches!(mode, Mode::Fit | Mode::MiniBatch),
                n_runs,
                max_iter: 10,
                tol_exp: 4,
                batches: 2,
                many: false,
                degenerate: Some(deg),
            }
        },
    )
}

/// k in {101, 128}: GMM (k-means init, random init, builder defaults) and K-means with Random / KMeans++ init.
fn many_components() -> impl Strategy<Value = Cfg> {
    let mode = prop_oneof![
        3 => Just(Mode::GmmKMeans),
        2 => Just(Mode::GmmDefaults),
        1 => Just(Mode::GmmRandom),
        2 => Just(Mode::Fit),
    ];
    let init = prop_oneof![Just(Init::Random), Just(Init::PlusPlus)];
    (mode, init, any::<u64>(), crate::seed_strategy(), any::<bool>(), 0usize..=120, 2usize..=3, 2u64..=3).prop_map(
        |(mode, init, data_seed, rng_seed, big, extra, p, max_iter)| Cfg {
            mode,
            shape: Shape::Blobs,
            data_seed,
            rng_seed,
            n: 200 + extra,
            p,
            k: if big { 128 } else { 101 },
            init,
            l1: false,
            n_runs: 1,
            max_iter,
            tol_exp: 3,
            batches: 2,
            many: true,
            degenerate: None,
        },
    )
}

pub fn strategy(tier: Tier) -> impl Strategy<Value = Cfg> {
    prop_oneof![
        5 => regular(tier).boxed(),
        1 => many_components().boxed(),
        3 => degenerate_cases().boxed(),
    ]
}

/// Fixed "many components" configurations that are part of every run (the random stratum above adds
/// seed-dependent ones): the size threshold k > 100 must be crossed by GMM and K-means in every run.
pub fn threshold_cases() -> Vec<Cfg> {
    let mk = |mode: Mode, init: Init, k: usize, n: usize, p: usize, s: u64| Cfg {
        mode,
        shape: Shape::Blobs,
        data_seed: 0x5eed_0000 + s,
        rng_seed: 7 + s,
        n,
        p,
        k,
        init,
        l1: false,
        n_runs: 1,
        max_iter: 3,
        tol_exp: 3,
        batches: 2,
        many: true,
        degenerate: None,
    };
    vec![
        mk(Mode::GmmKMeans, Init::PlusPlus, 101, 220, 2, 1),
        mk(Mode::GmmKMeans, Init::PlusPlus, 128, 260, 2, 2),
        mk(Mode::GmmDefaults, Init::PlusPlus, 101, 230, 3, 3),
        mk(Mode::GmmDefaults, Init::PlusPlus, 128, 257, 2, 4),
        mk(Mode::GmmRandom, Init::PlusPlus, 101, 255, 2, 5),
        mk(Mode::Fit, Init::PlusPlus, 128, 511, 2, 6),
        mk(Mode::Fit, Init::Random, 101, 513, 3, 7),
        // the last size at which the threshold is not crossed, for contrast
        mk(Mode::GmmKMeans, Init::PlusPlus, 100, 220, 2, 8),
    ]
}

/// Every boundary seed through K-means (Random init) and the randomly initialised mixture, in every run.
pub fn boundary_seed_cases() -> Vec<Cfg> {
    let mut v = vec![];
    for (i, &seed) in crate::BOUNDARY_SEEDS.iter().enumerate() {
        for mode in [Mode::Fit, Mode::GmmRandom] {
            v.push(Cfg {
                mode,
                shape: Shape::Blobs,
                data_seed: 0xb0d0 + i as u64,
                rng_seed: seed,
                n: 2000,
                p: 2,
                k: 3,
                init: if i % 2 == 0 { Init::Random } else { Init::PlusPlus },
                l1: false,
                n_runs: 1,
                max_iter: if mode == Mode::Fit { 5 } else { 60 },
                tol_exp: 3,
                batches: 2,
                many: false,
                degenerate: None,
            });
        }
    }
    v
}

/// Fixed degenerate inputs that are part of every run.
pub fn degenerate_fixed_cases() -> Vec<Cfg> {
    let mk = |mode: Mode, deg: Degenerate, init: Init, n: usize, p: usize, k: usize, s: u64| Cfg {
        mode,
        shape: Shape::Blobs,
        data_seed: 0xde9e_0000 + s,
        rng_seed: 11 + s,
        n,
        p,
        k,
        init,
        l1: false,
        n_runs: 1,
        max_iter: 10,
        tol_exp: 4,
        batches: 2,
        many: false,
        degenerate: Some(deg),
    };
    vec![
        mk(Mode::Fit, Degenerate::FewerDistinctThanK, Init::PlusPlus, 12, 2, 5, 1),
        mk(Mode::Fit, Degenerate::FewerDistinctThanK, Init::PlusPlus, 30, 1, 7, 2),
        mk(Mode::Defaults, Degenerate::FewerDistinctThanK, Init::PlusPlus, 20, 3, 4, 3),
        mk(Mode::MiniBatch, Degenerate::FewerDistinctThanK, Init::PlusPlus, 24, 2, 6, 4),
        mk(Mode::GmmKMeans, Degenerate::FewerDistinctThanK, Init::PlusPlus, 24, 2, 4, 5),
        mk(Mode::GmmDefaults, Degenerate::FewerDistinctThanK, Init::PlusPlus, 18, 2, 3, 6),
        mk(Mode::Fit, Degenerate::AllRowsEqual, Init::PlusPlus, 9, 2, 3, 7),
        mk(Mode::Defaults, Degenerate::AllRowsEqual, Init::PlusPlus, 9, 2, 3, 8),
        mk(Mode::Fit, Degenerate::DistinctEqualsK, Init::PlusPlus, 16, 2, 4, 9),
        mk(Mode::Fit, Degenerate::FewerDistinctThanK, Init::Random, 12, 2, 5, 10),
        mk(Mode::Fit, Degenerate::SingleSample, Init::PlusPlus, 1, 2, 1, 11),
        mk(Mode::Fit, Degenerate::ConstantColumns, Init::PlusPlus, 20, 3, 3, 12),
    ]
}
