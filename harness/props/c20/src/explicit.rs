//! Hand-written, literal inputs (no seed-derived data): the smallest configurations on which the
//! hash-order dependent behaviours show, plus tiny controls on which nothing may move. They are the
//! readable counter-examples behind the known findings and are replayed on every run.

use crate::driver::{RunInfo, Runnable};
use crate::out::Out;
use crate::tree_bayes::model_by_content;
use linfa::traits::{Fit, Predict, Transformer};
use linfa::DatasetBase;
use linfa_bayes::{GaussianNb, MultinomialNb};
use linfa_hierarchical::HierarchicalCluster;
use linfa_kernel::{Kernel, KernelMethod};
use linfa_trees::DecisionTree;
use ndarray::{Array1, Array2};
use serde::{Deserialize, Serialize};
use vengine::Obs;

#[derive(Clone, Copy, Debug, PartialEq, Serialize, Deserialize)]
pub enum What {
    Tree,
    GaussianNb,
    MultinomialNb,
    Hierarchical,
}

#[derive(Clone, Debug, Serialize, Deserialize)]
pub struct Cfg {
    pub what: What,
    /// which behaviour the input is built to expose ("control" = none)
    pub exposes: String,
    pub rows: Vec<Vec<f64>>,
    pub labels: Vec<usize>,
    pub queries: Vec<Vec<f64>>,
    /// hierarchical: number of clusters to stop at
    pub n_clusters: usize,
    /// trees: per-row sample weights (empty = unweighted)
    #[serde(default)]
    pub weights: Vec<f32>,
}

fn mat(rows: &[Vec<f64>]) -> Array2<f64> {
    let p = rows.first().map(|r| r.len()).unwrap_or(0);
    Array2::from_shape_fn((rows.len(), p), |(i, j)| rows.get(i).and_then(|r| r.get(j)).copied().unwrap_or(0.0))
}

impl Runnable for Cfg {
    fn run(&self) -> Out {
        let mut out = Out::new();
        let x = mat(&self.rows);
        let q = mat(&self.queries);
        let y = Array1::from(self.labels.clone());
        if self.what != What::Hierarchical && y.len() != x.nrows() {
            out.text("explicit:malformed", "labels and rows differ in length");
            return out;
        }
        match self.what {
            What::Tree => match DecisionTree::<f64, usize>::params().fit(&{
                let ds = DatasetBase::new(x.clone(), y);
                if self.weights.len() == x.nrows() {
                    ds.with_weights(Array1::from(self.weights.clone()))
                } else {
                    ds
                }
            }) {
                Ok(t) => {
                    let nodes: Vec<_> = t.iter_nodes().collect();
                    out.u64s(
                        "tree:structure",
                        nodes.iter().flat_map(|n| {
                            let (f, v, _) = n.split();
                            if n.is_leaf() {
                                vec![n.depth() as u64, 1, 0, 0]
                            } else {
                                vec![n.depth() as u64, 0, f as u64, v.to_bits()]
                            }
                        }),
                    );
                    let leaves: Vec<usize> = nodes.iter().filter_map(|n| n.prediction()).collect();
                    out.usizes("tree:leaf_predictions", leaves.iter());
                    out.note("tree:leaf_predictions", format!("{leaves:?}"));
                    out.arr_usize("tree:predict_train", &t.predict(&x));
                    let imp: Vec<f64> = nodes.iter().filter(|n| !n.is_leaf()).map(|n| n.split().2).collect();
                    out.f64s("tree:impurity_decrease", imp.iter());
                    out.note("tree:impurity_decrease", format!("{:?}", imp.iter().map(|v| format!("{:016x}", v.to_bits())).collect::<Vec<_>>()));
                    let mut fs = t.features();
                    let raw = fs.clone();
                    fs.sort_unstable();
                    out.usizes("tree:features_sorted", fs.iter());
                    model_by_content(&mut out, "tree:model_serialised", &t);
                    out.usizes("tree:features_accessor_order", raw.iter());
                    out.note("tree:features_accessor_order", format!("{raw:?}"));
                }
                Err(e) => out.err("tree:fit", &e),
            },
            What::GaussianNb => match GaussianNb::<f64, usize>::params().fit(&DatasetBase::new(x, y)) {
                Ok(m) => {
                    model_by_content(&mut out, "gnb:model", &m);
                    let p = m.predict(&q);
                    out.arr_usize("nb:predict", &p);
                    out.note("nb:predict", format!("{:?}", p.to_vec()));
                }
                Err(e) => out.err("gnb:fit", &e),
            },
            What::MultinomialNb => match MultinomialNb::<f64, usize>::params().fit(&DatasetBase::new(x, y)) {
                Ok(m) => {
                    model_by_content(&mut out, "mnb:model", &m);
                    let p = m.predict(&q);
                    out.arr_usize("nb:predict", &p);
                    out.note("nb:predict", format!("{:?}", p.to_vec()));
                }
                Err(e) => out.err("mnb:fit", &e),
            },
            What::Hierarchical => {
                let kernel = Kernel::params().method(KernelMethod::Gaussian(5.0)).transform(x.view());
                match HierarchicalCluster::default().num_clusters(self.n_clusters.max(1)).transform(kernel) {
                    Ok(ds) => {
                        let ids = ds.targets().clone();
                        // partition: ids renumbered by first appearance
                        let mut seen: Vec<usize> = vec![];
                        let canon: Vec<usize> = ids
                            .iter()
                            .map(|i| {
                                if let Some(p) = seen.iter().position(|s| s == i) {
                                    p
                                } else {
                                    seen.push(*i);
                                    seen.len() - 1
                                }
                            })
                            .collect();
                        out.usizes("hierarchical:partition", canon.iter());
                        out.usizes("hierarchical:ids", ids.iter());
                        out.note("hierarchical:ids", format!("{ids:?}"));
                    }
                    Err(e) => out.err("hierarchical:params", &e),
                }
            }
        }
        out
    }

    fn signature(&self, part: &str, _a: &Out, _b: &Out) -> String {
        match (self.what, self.exposes.as_str(), part) {
            (What::Tree, _, "tree:features_accessor_order") => "nondet:tree:features-accessor-order".into(),
            (What::Tree, "exact-label-tie", _) => "nondet:tree:exact-label-tie".into(),
            (What::Tree, "hash-ordered-impurity-sum", "tree:impurity_decrease" | "tree:model_serialised") => {
                "nondet:tree:hash-ordered-impurity-sum:rounding".into()
            }
            (What::GaussianNb | What::MultinomialNb, "exact-posterior-tie", "nb:predict") => {
                "nondet:nb:predict_on_exact_posterior_tie".into()
            }
            (What::Hierarchical, _, "hierarchical:ids") => "nondet:hierarchical:ids".into(),
            _ => format!("nondet:{part}"),
        }
    }

    fn classify(&self, _runs: &[RunInfo], obs: &mut Obs) {
        obs.class(match self.what {
            What::Tree => "literal_tree",
            What::GaussianNb => "literal_gaussian_nb",
            What::MultinomialNb => "literal_multinomial_nb",
            What::Hierarchical => "literal_hierarchical",
        });
        obs.class_if(self.exposes == "control", "literal_control");
        obs.nontrivial_if(self.exposes != "control");
    }

    fn all_pools(&self) -> bool {
        false
    }
}

fn rows(v: &[&[f64]]) -> Vec<Vec<f64>> {
    v.iter().map(|r| r.to_vec()).collect()
}

pub fn cases() -> Vec<Cfg> {
    vec![
        // two identical rows, one of each class: the single leaf holds an exact 1:1 tie
        Cfg {
            what: What::Tree,
            exposes: "exact-label-tie".into(),
            rows: rows(&[&[0.0], &[0.0]]),
            labels: vec![0, 1],
            queries: vec![],
            n_clusters: 0,
            weights: vec![],
        },
        // a pure split and a leaf with a 1:1 tie next to a leaf of a third class
        Cfg {
            what: What::Tree,
            exposes: "exact-label-tie".into(),
            rows: rows(&[&[0.0], &[0.0], &[1.0], &[1.0], &[1.0]]),
            labels: vec![0, 1, 2, 2, 2],
            queries: vec![],
            n_clusters: 0,
            weights: vec![],
        },
        // both features are needed, every leaf is pure, no tie anywhere: only `features()` may move
        Cfg {
            what: What::Tree,
            exposes: "features-accessor-order".into(),
            rows: rows(&[&[0.0, 0.0], &[0.0, 0.0], &[1.0, 0.0], &[1.0, 0.0], &[1.0, 1.0]]),
            labels: vec![0, 0, 1, 1, 0],
            queries: vec![],
            n_clusters: 0,
            weights: vec![],
        },
        // three classes with weights 1:1:3 left of the split (the smallest counts for which the f32 Gini
        // sum depends on the order of its three terms); no class ties for the maximum anywhere
        Cfg {
            what: What::Tree,
            exposes: "hash-ordered-impurity-sum".into(),
            rows: rows(&[&[0.0], &[0.0], &[0.0], &[0.0], &[0.0], &[1.0], &[1.0], &[1.0]]),
            labels: vec![0, 1, 2, 2, 2, 0, 0, 0],
            queries: vec![],
            n_clusters: 0,
            weights: vec![],
        },
        // near-tie chain: three identical rows, weights 1, 1+8e-7, 1+1.6e-6 (neighbours within 1e-6, ends not);
        // exact comparison makes class 2 the modal class, every time
        Cfg {
            what: What::Tree,
            exposes: "near-tie-chain".into(),
            rows: rows(&[&[0.0], &[0.0], &[0.0]]),
            labels: vec![0, 1, 2],
            queries: vec![],
            n_clusters: 0,
            weights: vec![1.0, 1.0 + 8e-7, 1.0 + 1.6e-6],
        },
        // the same ladder over two decades of step sizes, descending with the label
        Cfg {
            what: What::Tree,
            exposes: "near-tie-chain".into(),
            rows: rows(&[&[0.0], &[0.0], &[0.0], &[0.0]]),
            labels: vec![3, 2, 1, 0],
            queries: vec![],
            n_clusters: 0,
            weights: vec![1.0, 1.0 + 8e-6, 1.0 + 1.6e-5, 1.0 + 2.4e-5],
        },
        // control: two classes, one feature, pure leaves
        Cfg {
            what: What::Tree,
            exposes: "control".into(),
            rows: rows(&[&[0.0], &[1.0], &[2.0], &[3.0], &[4.0]]),
            labels: vec![0, 0, 0, 1, 1],
            queries: vec![],
            n_clusters: 0,
            weights: vec![],
        },
        // mirrored classes, query in the middle: both posteriors are bit-equal
        Cfg {
            what: What::GaussianNb,
            exposes: "exact-posterior-tie".into(),
            rows: rows(&[&[1.0], &[3.0], &[-1.0], &[-3.0]]),
            labels: vec![0, 0, 1, 1],
            queries: rows(&[&[0.0]]),
            n_clusters: 0,
            weights: vec![],
        },
        Cfg {
            what: What::GaussianNb,
            exposes: "control".into(),
            rows: rows(&[&[1.0], &[3.0], &[-1.0], &[-3.0]]),
            labels: vec![0, 0, 1, 1],
            queries: rows(&[&[0.5], &[-0.25]]),
            n_clusters: 0,
            weights: vec![],
        },
        // the two classes have the same single row: every query ties
        Cfg {
            what: What::MultinomialNb,
            exposes: "exact-posterior-tie".into(),
            rows: rows(&[&[1.0, 2.0], &[1.0, 2.0]]),
            labels: vec![0, 1],
            queries: rows(&[&[1.0, 1.0]]),
            n_clusters: 0,
            weights: vec![],
        },
        Cfg {
            what: What::MultinomialNb,
            exposes: "control".into(),
            rows: rows(&[&[3.0, 1.0], &[1.0, 4.0], &[0.0, 5.0]]),
            labels: vec![0, 1, 1],
            queries: rows(&[&[2.0, 1.0], &[1.0, 3.0]]),
            n_clusters: 0,
            weights: vec![],
        },
        // two well separated pairs, stop at two clusters
        Cfg {
            what: What::Hierarchical,
            exposes: "cluster-id-numbering".into(),
            rows: rows(&[&[0.0], &[0.1], &[5.0], &[5.1]]),
            labels: vec![],
            queries: vec![],
            n_clusters: 2,
            weights: vec![],
        },
        // control: everything merged into one cluster
        Cfg {
            what: What::Hierarchical,
            exposes: "control".into(),
            rows: rows(&[&[0.0], &[0.1], &[5.0], &[5.1]]),
            labels: vec![],
            queries: vec![],
            n_clusters: 1,
            weights: vec![],
        },
    ]
}
