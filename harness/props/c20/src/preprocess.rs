//! Preprocessing and dataset facilities: linear scalers, norm scaler, whiteners, count / tf-idf
//! vectorisers (vocabularies compared as word -> column maps: the column order is arbitrary by
//! design and not part of the claim), Pearson correlation **without** p-values, and the seeded
//! `shuffle` / `bootstrap*` helpers.

use crate::data;
use crate::driver::{RunInfo, Runnable};
use crate::out::{Out, H};
use linfa::traits::{Fit, Transformer};
use linfa::DatasetBase;
use linfa_preprocessing::linear_scaling::LinearScaler;
use linfa_preprocessing::norm_scaling::NormScaler;
use linfa_preprocessing::tf_idf_vectorization::TfIdfVectorizer;
use linfa_preprocessing::whitening::Whitener;
use linfa_preprocessing::CountVectorizer;
use ndarray::{Array1, Array2};
use proptest::prelude::*;
use rand::SeedableRng;
use rand_xoshiro::Xoshiro256Plus;
use serde::{Deserialize, Serialize};
use vengine::gen::SplitMix;
use vengine::{Obs, Tier};

#[derive(Clone, Copy, Debug, PartialEq, Serialize, Deserialize)]
pub enum Algo {
    LinearScaler,
    NormScaler,
    Whitener,
    CountVectorizer,
    TfIdf,
    Pearson,
    Shuffle,
    Bootstrap,
}

#[derive(Clone, Debug, Serialize, Deserialize)]
pub struct Cfg {
    pub algo: Algo,
    pub data_seed: u64,
    pub rng_seed: u64,
    pub n: usize,
    pub p: usize,
    /// method selector inside the family
    pub variant: u8,
    /// vectorisers: n-gram upper bound (1..=3), max_features (0 = none), vocabulary size of the corpus
    pub ngram: usize,
    pub max_features: usize,
    pub words: usize,
    /// size-threshold stratum for the numeric transformers: 65..=70 feature columns on >= 80 rows
    #[serde(default)]
    pub wide: bool,
}

const WORDS: [&str; 24] = [
    "alpha", "beta", "gamma", "delta", "Epsilon", "zeta", "eta", "theta", "iota", "kappa", "lambda", "mu", "nu", "xi", "omicron",
    "pi", "rho", "sigma", "tau", "upsilon", "phi", "chi", "psi", "omega",
];

fn corpus(seed: u64, docs: usize, words: usize) -> Array1<String> {
    let mut r = SplitMix(seed ^ 0xd0c5);
    let words = words.clamp(2, WORDS.len());
    Array1::from_shape_fn(docs, |_| {
        let len = 1 + r.below(12);
        (0..len).map(|_| WORDS[r.below(words)]).collect::<Vec<_>>().join(if r.below(4) == 0 { ", " } else { " " })
    })
}

/// rows as sorted (word, value-bits) lists: independent of the column numbering
fn by_word(vocab: &[String], dense: &Array2<f64>) -> Vec<u64> {
    let mut order: Vec<usize> = (0..vocab.len()).collect();
    order.sort_by(|&a, &b| vocab[a].cmp(&vocab[b]));
    let mut v = vec![];
    for r in 0..dense.nrows() {
        for &c in &order {
            let val = dense.get((r, c)).copied().unwrap_or(f64::NAN);
            v.push(val.to_bits());
        }
    }
    v
}

fn sorted_vocab(out: &mut Out, name: &str, vocab: &[String]) {
    let mut s: Vec<&String> = vocab.iter().collect();
    s.sort();
    out.strs(name, s);
}

fn model_bytes<T: Serialize>(out: &mut Out, name: &str, m: &T) {
    match bincode::serialize(m) {
        Ok(b) => {
            let mut h = H::new();
            h.bytes(&b);
            out.push(name, h);
        }
        Err(e) => out.err(name, &e),
    }
}

impl Runnable for Cfg {
    fn run(&self) -> Out {
        let mut out = Out::new();
        let p = if self.wide { 65 + self.p % 6 } else { self.p.max(2) };
        let n = if self.wide { self.n.max(80) } else { self.n };
        let x = data::gaussian(self.data_seed, n, p);
        let q = data::gaussian(self.data_seed ^ 0x17, 25, p);
        match self.algo {
            Algo::LinearScaler => {
                let params = match self.variant % 6 {
                    0 => LinearScaler::standard(),
                    1 => LinearScaler::standard_no_mean(),
                    2 => LinearScaler::standard_no_std(),
                    3 => LinearScaler::min_max(),
                    4 => LinearScaler::min_max_range(-2.0, 3.0),
                    _ => LinearScaler::max_abs(),
                };
                match params.fit(&DatasetBase::from(x)) {
                    Ok(m) => {
                        out.arr("linear_scaler:offsets", m.offsets());
                        out.arr("linear_scaler:scales", m.scales());
                        out.arr("linear_scaler:transform", &m.transform(q));
                        model_bytes(&mut out, "linear_scaler:model_bytes", &m);
                    }
                    Err(e) => out.err("linear_scaler:fit", &e),
                }
            }
            Algo::NormScaler => {
                let s = match self.variant % 3 {
                    0 => NormScaler::l2(),
                    1 => NormScaler::l1(),
                    _ => NormScaler::max(),
                };
                out.arr("norm_scaler:transform", &s.transform(x));
            }
            Algo::Whitener => {
                let w = match self.variant % 3 {
                    0 => Whitener::pca(),
                    1 => Whitener::zca(),
                    _ => Whitener::cholesky(),
                };
                match w.fit(&DatasetBase::from(x)) {
                    Ok(m) => {
                        out.arr("whitener:transformation_matrix", &m.transformation_matrix());
                        out.arr("whitener:mean", &m.mean());
                        out.arr("whitener:transform", &m.transform(q));
                        model_bytes(&mut out, "whitener:model_bytes", &m);
                    }
                    Err(e) => out.err("whitener:fit", &e),
                }
            }
            Algo::CountVectorizer => {
                let docs = corpus(self.data_seed, self.n, self.words);
                let queries = corpus(self.data_seed ^ 0x99, 12, self.words + 2);
                let mut params = CountVectorizer::params()
                    .n_gram_range(1, self.ngram.clamp(1, 3))
                    .convert_to_lowercase(self.variant % 2 == 0)
                    .max_features(if self.max_features == 0 { None } else { Some(self.max_features) });
                if self.variant % 3 == 0 {
                    params = params.stopwords(&["beta", "pi"]);
                }
                if self.variant % 4 == 1 {
                    params = params.document_frequency(0.1, 0.9);
                }
                match params.fit(&docs) {
                    Ok(m) => {
                        sorted_vocab(&mut out, "count_vectorizer:vocabulary_as_set", m.vocabulary());
                        out.u64s("count_vectorizer:nentries", [m.nentries() as u64]);
                        match m.transform(&queries) {
                            Ok(t) => {
                                let dense = t.to_dense().mapv(|v| v as f64);
                                out.u64s("count_vectorizer:counts_by_word", by_word(m.vocabulary(), &dense));
                                out.u64s("count_vectorizer:shape", [dense.nrows() as u64, dense.ncols() as u64]);
                            }
                            Err(e) => out.err("count_vectorizer:transform", &e),
                        }
                        out.note("vocabulary", m.vocabulary().len().to_string());
                    }
                    Err(e) => out.err("count_vectorizer:fit", &e),
                }
            }
            Algo::TfIdf => {
                let docs = corpus(self.data_seed, self.n, self.words);
                let queries = corpus(self.data_seed ^ 0x99, 12, self.words + 2);
                let params = TfIdfVectorizer::default()
                    .n_gram_range(1, self.ngram.clamp(1, 3))
                    .convert_to_lowercase(self.variant % 2 == 0)
                    .max_features(if self.max_features == 0 { None } else { Some(self.max_features) });
                match params.fit(&docs) {
                    Ok(m) => {
                        sorted_vocab(&mut out, "tfidf:vocabulary_as_set", m.vocabulary());
                        match m.transform(&queries) {
                            Ok(t) => {
                                let dense = t.to_dense();
                                out.u64s("tfidf:values_by_word", by_word(m.vocabulary(), &dense));
                            }
                            Err(e) => out.err("tfidf:transform", &e),
                        }
                        out.note("vocabulary", m.vocabulary().len().to_string());
                    }
                    Err(e) => out.err("tfidf:fit", &e),
                }
            }
            Algo::Pearson => {
                // (Display of a correlation without feature names panics; names are always given)
                let ds = DatasetBase::from(x).with_feature_names((0..p).map(|j| format!("feature{j}")).collect::<Vec<_>>());
                let c = ds.pearson_correlation();
                out.arr("pearson:coefficients", c.get_coeffs());
                out.text("pearson:display", &format!("{c}"));
            }
            Algo::Shuffle => {
                let y = data::labels(self.data_seed, n, 3);
                let ds = DatasetBase::new(x, y);
                let mut rng = Xoshiro256Plus::seed_from_u64(self.rng_seed);
                let s = ds.shuffle(&mut rng);
                out.arr("shuffle:records", s.records());
                out.arr_usize("shuffle:targets", s.targets());
                let s2 = s.shuffle(&mut rng);
                out.arr("shuffle:second_records", s2.records());
            }
            Algo::Bootstrap => {
                let y = data::labels(self.data_seed, n, 3);
                let ds = DatasetBase::new(x, y);
                let mut rng = Xoshiro256Plus::seed_from_u64(self.rng_seed);
                match self.variant % 3 {
                    0 => {
                        for (i, b) in ds.bootstrap_samples(n / 2 + 1, &mut rng).take(3).enumerate() {
                            out.arr(&format!("bootstrap_samples:records{i}"), b.records());
                            out.arr_usize(&format!("bootstrap_samples:targets{i}"), b.targets());
                        }
                    }
                    1 => {
                        for (i, b) in ds.bootstrap_features(p, &mut rng).take(3).enumerate() {
                            out.arr(&format!("bootstrap_features:records{i}"), b.records());
                        }
                    }
                    _ => {
                        for (i, b) in ds.bootstrap((n / 2 + 1, p), &mut rng).take(3).enumerate() {
                            out.arr(&format!("bootstrap:records{i}"), b.records());
                            out.arr_usize(&format!("bootstrap:targets{i}"), b.targets());
                        }
                    }
                }
            }
        }
        out
    }

    fn classify(&self, runs: &[RunInfo], obs: &mut Obs) {
        obs.class(match self.algo {
            Algo::LinearScaler => "linear_scaler",
            Algo::NormScaler => "norm_scaler",
            Algo::Whitener => "whitener",
            Algo::CountVectorizer => "count_vectorizer",
            Algo::TfIdf => "tfidf_vectorizer",
            Algo::Pearson => "pearson_without_p_values",
            Algo::Shuffle => "seeded_shuffle",
            Algo::Bootstrap => "seeded_bootstrap",
        });
        let seeded = matches!(self.algo, Algo::Shuffle | Algo::Bootstrap);
        obs.class_if(seeded && crate::BOUNDARY_SEEDS.contains(&self.rng_seed), "boundary_rng_seed");
        obs.class_if(seeded && self.rng_seed == 0, "rng_seed_zero");
        let text = matches!(self.algo, Algo::CountVectorizer | Algo::TfIdf);
        obs.class_if(self.wide && !text, "more_than_64_features");
        let mut vocab = 0usize;
        if let Some(crate::driver::Outcome::Done(o)) = runs.first().map(|r| &r.outcome) {
            vocab = o.note_of("vocabulary").and_then(|s| s.parse().ok()).unwrap_or(0);
        }
        obs.class_if(text && vocab >= 8, "vocabulary_8plus_entries");
        obs.class_if(text && self.max_features > 0, "max_features_cut");
        // non-trivial: a hash-map backed vocabulary with several entries, or a seeded random facility
        obs.nontrivial_if((text && vocab >= 3) || matches!(self.algo, Algo::Shuffle | Algo::Bootstrap));
    }

    fn all_pools(&self) -> bool {
        false
    }
}

pub fn strategy(tier: Tier) -> impl Strategy<Value = Cfg> {
    let max_n = tier.pick(60usize, 200usize);
    let algo = prop_oneof![
        2 => Just(Algo::LinearScaler),
        1 => Just(Algo::NormScaler),
        2 => Just(Algo::Whitener),
        3 => Just(Algo::CountVectorizer),
        3 => Just(Algo::TfIdf),
        1 => Just(Algo::Pearson),
        1 => Just(Algo::Shuffle),
        2 => Just(Algo::Bootstrap),
    ];
    (algo, any::<u64>(), crate::seed_strategy(), 8usize..=max_n, 2usize..=5, any::<u8>(), 1usize..=3, 0usize..=12, 3usize..=24, proptest::bool::weighted(0.12)).prop_map(
        |(algo, data_seed, rng_seed, n, p, variant, ngram, max_features, words, wide)| Cfg {
            algo,
            data_seed,
            rng_seed,
            n,
            p,
            variant,
            ngram,
            max_features,
            words,
            wide,
        },
    )
}

pub fn boundary_seed_cases() -> Vec<Cfg> {
    let mut v = vec![];
    for (i, &seed) in crate::BOUNDARY_SEEDS.iter().enumerate() {
        for (algo, variant) in [(Algo::Shuffle, 0u8), (Algo::Bootstrap, i as u8)] {
            v.push(Cfg {
                algo,
                data_seed: 0x5a0f + i as u64,
                rng_seed: seed,
                n: 30,
                p: 3,
                variant,
                ngram: 1,
                max_features: 0,
                words: 5,
                wide: false,
            });
        }
    }
    v
}
