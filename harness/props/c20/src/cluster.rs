//! Density based and hierarchical clustering + kernel construction:
//! DBSCAN (approximate DBSCAN is a type alias of it at this commit), OPTICS (all three nearest-neighbour back-ends), agglomerative
//! clustering on a kernel, dense / sparse kernel matrices.
//!
//! For the estimators that output *cluster ids*, two parts are digested in this order: the
//! partition (ids canonically renumbered by first occurrence, noise kept) and the raw ids. If the
//! partition is stable and only the numbering moves, the difference is reported against the
//! `…:ids` part.

use crate::data;
use crate::driver::{RunInfo, Runnable};
use crate::out::Out;
use linfa::traits::Transformer;
use linfa::ParamGuard;
use linfa_clustering::{Dbscan, Optics};
use linfa_hierarchical::{HierarchicalCluster, Method};
use linfa_kernel::{Kernel, KernelMethod, KernelType};
use linfa_nn::distance::{L1Dist, L2Dist};
use linfa_nn::CommonNearestNeighbour;
use ndarray::Array2;
use proptest::prelude::*;
use serde::{Deserialize, Serialize};
use std::collections::BTreeMap;
use vengine::{Obs, Tier};

#[derive(Clone, Copy, Debug, PartialEq, Serialize, Deserialize)]
pub enum Algo {
    Dbscan,
    Optics,
    Hierarchical,
    Kernel,
}

#[derive(Clone, Copy, Debug, PartialEq, Serialize, Deserialize)]
pub enum Nn {
    Linear,
    KdTree,
    BallTree,
}

#[derive(Clone, Copy, Debug, PartialEq, Serialize, Deserialize)]
pub enum Shape {
    Blobs,
    /// integer lattice: many points at exactly equal distances (ties in every ordering)
    Lattice,
    /// 1..=4 distinct rows, each repeated (1 = all rows equal)
    FewDistinct,
}

#[derive(Clone, Debug, Serialize, Deserialize)]
pub struct Cfg {
    pub algo: Algo,
    pub nn: Nn,
    pub shape: Shape,
    pub data_seed: u64,
    pub n: usize,
    pub p: usize,
    pub blobs: usize,
    pub min_points: usize,
    /// tolerance / radius in tenths
    pub tol10: u32,
    pub l1: bool,
    /// hierarchical: linkage 0..=5, stop at this number of clusters (0 = distance criterion)
    pub linkage: u8,
    pub n_clusters: usize,
    /// kernel: 0 gaussian, 1 linear, 2 polynomial; sparse neighbours (0 = dense)
    pub kernel: u8,
    pub sparse_k: usize,
}

impl Cfg {
    fn x(&self) -> Array2<f64> {
        match self.shape {
            Shape::Blobs => data::blobs(self.data_seed, self.n, self.p, self.blobs, 0.5),
            Shape::Lattice => data::lattice(self.data_seed, self.n, self.p, 6),
            Shape::FewDistinct => data::few_distinct(self.data_seed, self.n, self.p, 1 + (self.data_seed % 4) as usize),
        }
    }
    fn nn(&self) -> CommonNearestNeighbour {
        match self.nn {
            Nn::Linear => CommonNearestNeighbour::LinearSearch,
            Nn::KdTree => CommonNearestNeighbour::KdTree,
            Nn::BallTree => CommonNearestNeighbour::BallTree,
        }
    }
    fn tol(&self) -> f64 {
        self.tol10 as f64 / 10.0
    }
    fn kernel_method(&self) -> KernelMethod<f64> {
        match self.kernel {
            0 => KernelMethod::Gaussian(2.0 + self.tol()),
            1 => KernelMethod::Linear,
            _ => KernelMethod::Polynomial(1.0, 2.0),
        }
    }
}

/// partition digest: ids renumbered in order of first appearance
fn canonical(ids: &[Option<usize>]) -> Vec<u64> {
    let mut map: BTreeMap<usize, u64> = BTreeMap::new();
    let mut next = 1u64;
    ids.iter()
        .map(|i| match i {
            None => 0,
            Some(c) => *map.entry(*c).or_insert_with(|| {
                next += 1;
                next - 1
            }),
        })
        .collect()
}

fn digest_ids(out: &mut Out, pre: &str, ids: &[Option<usize>]) {
    out.u64s(&format!("{pre}:partition"), canonical(ids));
    out.u64s(&format!("{pre}:ids"), ids.iter().map(|i| i.map(|c| c as u64 + 1).unwrap_or(0)));
    let shown: Vec<String> = ids.iter().take(40).map(|i| i.map(|c| c.to_string()).unwrap_or("-".into())).collect();
    out.note(&format!("{pre}:ids"), format!("ids of the first rows: [{}]", shown.join(",")));
    let k = ids.iter().flatten().max().map(|m| m + 1).unwrap_or(0);
    out.note("clusters", k.to_string());
}

impl Runnable for Cfg {
    fn run(&self) -> Out {
        let mut out = Out::new();
        let x = self.x();
        match self.algo {
            Algo::Dbscan => {
                let ids = if self.l1 {
                    Dbscan::params_with(self.min_points, L1Dist, self.nn())
                        .tolerance(self.tol())
                        .check()
                        .map(|p| p.transform(&x))
                } else {
                    Dbscan::params_with(self.min_points, L2Dist, self.nn())
                        .tolerance(self.tol())
                        .check()
                        .map(|p| p.transform(&x))
                };
                match ids {
                    Ok(ids) => digest_ids(&mut out, "dbscan", &ids.to_vec()),
                    Err(e) => out.err("dbscan:params", &e),
                }
            }
            Algo::Optics => {
                let res = if self.l1 {
                    Optics::params_with(self.min_points, L1Dist, self.nn())
                        .tolerance(self.tol())
                        .check()
                        .map(|p| p.transform(x.view()))
                } else {
                    Optics::params_with(self.min_points, L2Dist, self.nn())
                        .tolerance(self.tol())
                        .check()
                        .map(|p| p.transform(x.view()))
                };
                match res {
                    Ok(a) => {
                        out.usizes("optics:order", a.iter().map(|s| s.index()).collect::<Vec<_>>().iter());
                        out.u64s(
                            "optics:reachability",
                            a.iter().map(|s| s.reachability_distance().map(|d| d.to_bits()).unwrap_or(u64::MAX)),
                        );
                        out.u64s(
                            "optics:core_distance",
                            a.iter().map(|s| s.core_distance().map(|d| d.to_bits()).unwrap_or(u64::MAX)),
                        );
                    }
                    Err(e) => out.err("optics:params", &e),
                }
            }
            Algo::Hierarchical => {
                let kernel = Kernel::params().method(self.kernel_method()).transform(x.view());
                let method = match self.linkage % 6 {
                    0 => Method::Single,
                    1 => Method::Complete,
                    2 => Method::Average,
                    3 => Method::Weighted,
                    4 => Method::Ward,
                    _ => Method::Centroid,
                };
                let hc = HierarchicalCluster::default().with_method(method);
                let hc = if self.n_clusters == 0 {
                    hc.max_distance(self.tol())
                } else {
                    hc.num_clusters(self.n_clusters)
                };
                match hc.transform(kernel) {
                    Ok(ds) => {
                        let ids: Vec<Option<usize>> = ds.targets().iter().map(|i| Some(*i)).collect();
                        digest_ids(&mut out, "hierarchical", &ids);
                    }
                    Err(e) => out.err("hierarchical:params", &e),
                }
            }
            Algo::Kernel => {
                let kind = if self.sparse_k == 0 { KernelType::Dense } else { KernelType::Sparse(self.sparse_k) };
                let kernel = Kernel::params_with_nn(self.nn())
                    .kind(kind)
                    .method(self.kernel_method())
                    .transform(x.view());
                out.arr("kernel:sum", &kernel.sum());
                out.arr("kernel:diagonal", &kernel.diagonal());
                out.f64s("kernel:upper_triangle", kernel.to_upper_triangle().iter());
                let probe = data::gaussian(self.data_seed ^ 0xabc, self.n, 2);
                out.arr("kernel:dot", &kernel.dot(&probe.view()));
                out.f64s("kernel:column0", kernel.column(0).iter());
            }
        }
        out
    }

    fn classify(&self, runs: &[RunInfo], obs: &mut Obs) {
        obs.class(match self.algo {
            Algo::Dbscan => "dbscan",
            Algo::Optics => "optics",
            Algo::Hierarchical => "hierarchical",
            Algo::Kernel => "kernel_matrix",
        });
        if !matches!(self.algo, Algo::Hierarchical) {
            obs.class(match self.nn {
                Nn::Linear => "nn_linear_search",
                Nn::KdTree => "nn_kdtree",
                Nn::BallTree => "nn_balltree",
            });
        }
        obs.class_if(self.shape == Shape::Lattice, "lattice_tied_distances");
        obs.class_if(self.shape == Shape::FewDistinct, "degenerate_few_distinct_rows");
        obs.class_if(self.shape == Shape::FewDistinct && self.data_seed % 4 == 0, "degenerate_all_rows_equal");
        obs.class_if(self.algo == Algo::Kernel && self.sparse_k > 0, "sparse_kernel");
        let mut clusters = 0usize;
        for r in runs.iter().take(1) {
            if let crate::driver::Outcome::Done(o) = &r.outcome {
                clusters = o.note_of("clusters").and_then(|s| s.parse().ok()).unwrap_or(0);
            }
        }
        obs.class_if(clusters >= 2, "two_or_more_clusters");
        obs.class_if(clusters >= 5, "five_or_more_clusters");
        obs.class_if(clusters > 100, "more_than_100_clusters");
        // non-trivial: an id-producing estimator that found >= 2 clusters (numbering can move), or
        // an ordering-producing one (OPTICS / kernel) on tied distances
        obs.nontrivial_if(clusters >= 2 || (matches!(self.algo, Algo::Optics | Algo::Kernel) && self.shape == Shape::Lattice));
    }

    fn all_pools(&self) -> bool {
        false
    }
}

pub fn strategy(tier: Tier) -> impl Strategy<Value = Cfg> {
    let max_n = tier.pick(160usize, 400usize);
    let algo = prop_oneof![
        3 => Just(Algo::Dbscan),
        3 => Just(Algo::Optics),
        3 => Just(Algo::Hierarchical),
        2 => Just(Algo::Kernel),
    ];
    let nn = prop_oneof![Just(Nn::Linear), Just(Nn::KdTree), Just(Nn::BallTree)];
    let shape = prop_oneof![4 => Just(Shape::Blobs), 2 => Just(Shape::Lattice), 1 => Just(Shape::FewDistinct)];
    (
        (algo, nn, shape, any::<u64>()),
        (20usize..=max_n, 1usize..=4, 2usize..=7, 2usize..=6),
        (3u32..=25, any::<bool>(), 0u8..6, 0usize..=6, 0u8..3, 0usize..=5),
    )
        .prop_map(|((algo, nn, shape, data_seed), (n, p, blobs, min_points), (tol10, l1, linkage, n_clusters, kernel, sparse_k))| {
            // size-threshold stratum (1 hierarchical case in 7): more than 100 clusters left standing
            let many = algo == Algo::Hierarchical && n_clusters == 6;
            let n_clusters = if many { if data_seed % 2 == 0 { 101 } else { 128 } } else { n_clusters };
            let shape = if many { Shape::Blobs } else { shape };
            let blobs = if many { 7 } else { blobs };
            Cfg {
            algo,
            nn,
            shape,
            data_seed,
            n: if many { 130 + n % 40 } else if algo == Algo::Hierarchical { n.min(120) } else { n },
            p,
            blobs,
            min_points,
            tol10,
            l1,
            linkage,
            n_clusters,
            kernel: if algo == Algo::Hierarchical { 0 } else { kernel },
            sparse_k: if sparse_k == 0 { 0 } else { sparse_k + 1 },
            }
        })
}
