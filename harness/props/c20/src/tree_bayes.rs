//! Decision tree and naive Bayes — the estimators whose answers pass through `HashMap`s.
//!
//! Generator classes are built so that the *reason* a run could legitimately-look different is
//! known from the case alone:
//!  * `TwoClassTieFree`: two classes, per-class sample weights `1 + c/1024` (no two label subsets of
//!    < 1024 rows can have equal weight; sums of two floats are commutative) — no tie-break and no
//!    hash-ordered float reduction can matter; any difference is plain non-determinism.
//!  * `TwoClassTies`: two classes, unit weights, rows come in identical-feature pairs with opposite
//!    labels, so leaves with exactly tied label weights exist by construction.
//!  * `MultiClass`: 3..5 classes, tie-free weights — impurity sums run over >= 3 hash-ordered terms.
//! (The four hash-order fixes proposed by this check are in /repo; the class-named signatures below are kept so
//! that a regression of one of them is reported under the name of the old finding, but nothing is excluded.)
//! Naive Bayes: generic data vs. data with exactly tied posteriors (mirrored Gaussian classes and an
//! all-zero query; duplicated multinomial classes); tie rows and generic rows are separate parts.

use crate::data;
use crate::driver::{RunInfo, Runnable};
use crate::out::Out;
use linfa::traits::{Fit, FitWith, Predict};
use linfa::DatasetBase;
use linfa_bayes::{GaussianNb, MultinomialNb};
use linfa_trees::{DecisionTree, SplitQuality};
use ndarray::{s, Array1, Array2, Axis};
use proptest::prelude::*;
use serde::{Deserialize, Serialize};
use vengine::gen::SplitMix;
use vengine::{Obs, Tier};

#[derive(Clone, Copy, Debug, PartialEq, Serialize, Deserialize)]
pub enum Kind {
    TreeTwoClassTieFree,
    TreeTwoClassTies,
    TreeMultiClass,
    /// `DecisionTree::params()` untouched, two classes tie-free
    TreeDefaults,
    GaussianNb,
    GaussianNbTies,
    MultinomialNb,
    MultinomialNbTies,
    /// 3..5 classes whose weighted totals inside one unsplittable leaf form a near-tie chain: they differ by
    /// relative steps of 3e-7 .. 1.2e-6 (a few f32 ulps), built from sample weights 1, 1+step, 1+2 step, ... on
    /// identical rows. Exact comparison orders them; any tolerance-based notion of "tied" is non-transitive on
    /// such a chain and, folded in hash order, picks different classes from fit to fit.
    TreeNearTieChain,
    /// multinomial NB with 3..4 classes whose count statistics differ in a single count out of thousands:
    /// near-tied, never tied, posteriors
    MultinomialNbNearTies,
}

#[derive(Clone, Debug, Serialize, Deserialize)]
pub struct Cfg {
    pub kind: Kind,
    pub data_seed: u64,
    pub n: usize,
    pub p: usize,
    pub classes: usize,
    pub entropy: bool,
    /// 0 = unlimited
    pub max_depth: usize,
    pub min_weight_split: u8,
    pub min_weight_leaf: u8,
    /// naive Bayes: fit in this many incremental batches (1 = plain fit)
    pub batches: usize,
    /// trees: last feature column is a copy of the first
    #[serde(default)]
    pub dup_column: bool,
    /// trees (all kinds but the engineered-tie one): real-valued, non-dyadic f32 sample weights through
    /// `with_weights` instead of the per-class weights — class totals are then inexact f32 sums, so every sum
    /// over classes that runs in hash order shows
    #[serde(default)]
    pub real_weights: bool,
    /// degenerate data: 2..=4 distinct rows, each repeated (tie-free / multi-class / default trees and the
    /// generic naive-Bayes classes)
    #[serde(default)]
    pub few_distinct: bool,
}

/// canonical JSON: object keys sorted (HashMap-backed models are compared by content)
pub fn canon(v: &serde_json::Value, out: &mut std::string::String) {
    use serde_json::Value::*;
    match v {
        Object(m) => {
            let mut keys: Vec<&std::string::String> = m.keys().collect();
            keys.sort();
            out.push('{');
            for k in keys {
                out.push_str(&format!("{k:?}:"));
                canon(&m[k], out);
                out.push(',');
            }
            out.push('}');
        }
        Array(a) => {
            out.push('[');
            for x in a {
                canon(x, out);
                out.push(',');
            }
            out.push(']');
        }
        other => out.push_str(&other.to_string()),
    }
}

pub fn model_by_content<T: Serialize>(out: &mut Out, name: &str, m: &T) {
    match serde_json::to_value(m) {
        Ok(v) => {
            let mut s = String::new();
            canon(&v, &mut s);
            out.text(name, &s);
        }
        Err(e) => out.err(name, &e),
    }
}

fn eighths(seed: u64, n: usize, p: usize) -> Array2<f64> {
    let mut r = SplitMix(seed ^ 0x7ee);
    Array2::from_shape_fn((n, p), |_| (r.gauss() * 16.0).round() / 8.0)
}

impl Cfg {
    fn is_tree(&self) -> bool {
        matches!(
            self.kind,
            Kind::TreeTwoClassTieFree | Kind::TreeTwoClassTies | Kind::TreeMultiClass | Kind::TreeDefaults | Kind::TreeNearTieChain
        )
    }

    /// (rows, labels, weights) of the near-tie-chain class
    fn chain_data(&self) -> (Array2<f64>, Array1<usize>, Option<Array1<f32>>) {
        let k = self.classes.clamp(3, 5);
        let mut r = SplitMix(self.data_seed ^ 0xc4a1);
        // steps for which neighbours on the ladder are within 1e-6 (relative) of each other while the two ends
        // are not — the shape on which a tolerance-based tie is not transitive — in three cases out of five;
        // otherwise steps that are too coarse or too fine for that
        let mut chain_steps = vec![8e-7f64, 6e-7, 7e-7];
        if k >= 4 {
            chain_steps.extend([5e-7, 4e-7]);
        }
        if k >= 5 {
            chain_steps.push(3e-7);
        }
        let step = match r.below(5) {
            0..=2 => chain_steps[r.below(chain_steps.len())],
            // the same shape for any other tolerance between one f32 ulp and 1e-3: a ladder of 2^j ulps
            3 => f32::EPSILON as f64 * (1u64 << r.below(14)) as f64,
            _ => [1.1e-6, 1.2e-6, 2e-7, 1e-7][r.below(4)],
        };
        let mult = 1 + r.below(3);
        // which class gets which rung of the ladder: ascending with the label (half of the cases), descending,
        // or shuffled
        let mut rank: Vec<usize> = (0..k).collect();
        match r.below(4) {
            0 | 1 => {}
            2 => rank.reverse(),
            _ => {
                for i in (1..k).rev() {
                    rank.swap(i, r.below(i + 1));
                }
            }
        }
        let rest = if self.batches <= 1 { 0 } else { self.n };
        let generic = eighths(self.data_seed, rest, self.p);
        let generic_y = data::labels_from(&generic, self.data_seed, 2, 0.25);
        let block = k * mult;
        let mut x = Array2::from_elem((block + rest, self.p), -20.0);
        let mut y = Array1::zeros(block + rest);
        let mut w = Array1::from_elem(block + rest, 1.0f32);
        for i in 0..block {
            let c = i % k;
            y[i] = c;
            w[i] = (1.0f64 + step * rank[c] as f64) as f32;
        }
        for i in 0..rest {
            x.row_mut(block + i).assign(&generic.row(i));
            y[block + i] = generic_y[i];
        }
        (x, y, Some(w))
    }

    fn tree_data(&self) -> (Array2<f64>, Array1<usize>, Option<Array1<f32>>) {
        if self.kind == Kind::TreeNearTieChain {
            return self.chain_data();
        }
        let classes = match self.kind {
            Kind::TreeMultiClass => self.classes.clamp(3, 5),
            _ => 2,
        };
        let mut x = eighths(self.data_seed, self.n, self.p);
        if self.few_distinct && self.kind != Kind::TreeTwoClassTies {
            let d = 2 + (self.data_seed % 3) as usize;
            let base = x.clone();
            for i in 0..self.n {
                let src = base.row(i % d).to_owned();
                x.row_mut(i).assign(&src);
            }
        }
        // corner: the last column repeats the first one (every split on one has an equally good twin)
        if self.dup_column && self.p >= 2 {
            let c0 = x.column(0).to_owned();
            x.column_mut(self.p - 1).assign(&c0);
        }
        let mut y = data::labels_from(&x, self.data_seed, classes, 0.25);
        if self.kind == Kind::TreeTwoClassTies {
            // rows 2i and 2i+1 (first third of the data) are identical twins with opposite labels
            let twins = (self.n / 3) / 2;
            for i in 0..twins {
                let a = x.row(2 * i).to_owned();
                x.row_mut(2 * i + 1).assign(&a);
                y[2 * i] = 0;
                y[2 * i + 1] = 1;
            }
            (x, y, None)
        } else if self.real_weights {
            let mut r = SplitMix(self.data_seed ^ 0x3e16);
            let w = Array1::from_shape_fn(self.n, |i| (0.1 + 0.37 * ((i % 7) as f64) + 0.9 * r.unit()) as f32);
            (x, y, Some(w))
        } else {
            let w = y.mapv(|c| 1.0f32 + c as f32 / 1024.0);
            (x, y, Some(w))
        }
    }

    fn run_tree(&self, out: &mut Out) {
        let (x, y, w) = self.tree_data();
        let mut q = eighths(self.data_seed ^ 0x99, 64, self.p);
        if self.dup_column && self.p >= 2 {
            let c0 = q.column(0).to_owned();
            q.column_mut(self.p - 1).assign(&c0);
        }
        if self.kind == Kind::TreeNearTieChain {
            // one query sits on the block of identical rows
            q.row_mut(0).fill(-20.0);
        }
        let mut ds = DatasetBase::new(x.clone(), y);
        if let Some(w) = w {
            ds = ds.with_weights(w);
        }
        let params = if self.kind == Kind::TreeDefaults {
            DecisionTree::<f64, usize>::params()
        } else {
            DecisionTree::<f64, usize>::params()
                .split_quality(if self.entropy { SplitQuality::Entropy } else { SplitQuality::Gini })
                .max_depth(if self.max_depth == 0 { None } else { Some(self.max_depth) })
                .min_weight_split(self.min_weight_split as f32)
                .min_weight_leaf(self.min_weight_leaf as f32)
        };
        let tree = match params.fit(&ds) {
            Ok(t) => t,
            Err(e) => {
                out.err("tree:fit", &e);
                return;
            }
        };
        let nodes: Vec<_> = tree.iter_nodes().collect();
        out.u64s(
            "tree:structure",
            nodes.iter().flat_map(|n| {
                let (f, v, _) = n.split();
                if n.is_leaf() {
                    vec![n.depth() as u64, 1, 0, 0]
                } else {
                    vec![n.depth() as u64, 0, f as u64, v.to_bits()]
                }
            }),
        );
        out.u64s("tree:leaf_predictions", nodes.iter().filter_map(|n| n.prediction()).map(|p| p as u64));
        out.arr_usize("tree:predict", &tree.predict(&q));
        out.arr_usize("tree:predict_train", &tree.predict(&x));
        let imp: Vec<f64> = nodes.iter().filter(|n| !n.is_leaf()).map(|n| n.split().2).collect();
        out.f64s("tree:impurity_decrease", imp.iter());
        out.note(
            "tree:impurity_decrease",
            imp.iter().map(|v| format!("{:016x}", v.to_bits())).collect::<Vec<_>>().join(" "),
        );
        out.f64s("tree:feature_importance", tree.feature_importance().iter());
        out.strs("tree:feature_names", nodes.iter().filter_map(|n| n.feature_name().cloned()));
        let mut fs = tree.features();
        let raw = fs.clone();
        fs.sort_unstable();
        out.usizes("tree:features_sorted", fs.iter());
        out.usizes("tree:features_accessor_order", raw.iter());
        out.note("tree:features_accessor_order", format!("{raw:?}"));
        out.note("leaves", tree.num_leaves().to_string());
        out.note("distinct_features", fs.len().to_string());
        model_by_content(out, "tree:model_serialised", &tree);
    }

    fn run_gnb(&self, out: &mut Out) {
        let ties = self.kind == Kind::GaussianNbTies;
        let p = self.p;
        let (x, y, q_generic, q_ties) = if ties {
            // class 1 = mirror image of class 0 (same count, negated rows); optional class 2 far away
            let half = (self.n / 2).max(2);
            let a = data::gaussian(self.data_seed, half, p).mapv(|v| v + 1.5);
            let mut rows = vec![];
            let mut labels = vec![];
            for r in a.rows() {
                rows.push(r.to_owned());
                labels.push(0usize);
            }
            for r in a.rows() {
                rows.push(r.mapv(|v| -v));
                labels.push(1usize);
            }
            if self.classes >= 3 {
                let far = data::gaussian(self.data_seed ^ 5, half / 2 + 1, p).mapv(|v| v + 40.0);
                for r in far.rows() {
                    rows.push(r.to_owned());
                    labels.push(2usize);
                }
            }
            let x = Array2::from_shape_fn((rows.len(), p), |(i, j)| rows[i][j]);
            (x, Array1::from(labels), data::gaussian(self.data_seed ^ 9, 40, p), Array2::<f64>::zeros((3, p)))
        } else {
            let x = if self.few_distinct {
                data::few_distinct(self.data_seed, self.n, p, 2 + (self.data_seed % 3) as usize)
            } else {
                data::gaussian(self.data_seed, self.n, p)
            };
            let y = data::labels_distinct_sizes(&x, self.data_seed, self.classes.clamp(2, 5));
            (x, y, data::gaussian(self.data_seed ^ 9, 40, p), Array2::<f64>::zeros((0, p)))
        };
        let model = if self.batches <= 1 || ties {
            GaussianNb::<f64, usize>::params().fit(&DatasetBase::new(x.clone(), y.clone()))
        } else {
            // incremental: consecutive batches through fit_with
            let params = match linfa::ParamGuard::check(GaussianNb::<f64, usize>::params()) {
                Ok(p) => p,
                Err(e) => {
                    out.err("gnb:params", &e);
                    return;
                }
            };
            let nb = self.batches;
            let size = (x.nrows() / nb).max(1);
            let mut m = None;
            let mut err = None;
            for b in 0..nb {
                let lo = b * size;
                let hi = if b + 1 == nb { x.nrows() } else { (lo + size).min(x.nrows()) };
                if lo >= hi {
                    break;
                }
                let batch = DatasetBase::new(x.slice(s![lo..hi, ..]).to_owned(), y.slice(s![lo..hi]).to_owned());
                match params.fit_with(m.take(), &batch) {
                    Ok(mm) => m = mm,
                    Err(e) => {
                        err = Some(e);
                        break;
                    }
                }
            }
            match (m, err) {
                (_, Some(e)) => Err(e),
                (Some(m), None) => Ok(m),
                (None, None) => {
                    out.text("gnb:no-model", "none");
                    return;
                }
            }
        };
        match model {
            Ok(m) => {
                model_by_content(out, "gnb:model", &m);
                out.arr_usize("gnb:predict_generic_rows", &m.predict(&q_generic));
                out.arr_usize("gnb:predict_train", &m.predict(&x));
                if q_ties.nrows() > 0 {
                    // just off the exact tie: the two mirrored posteriors differ in their last bits only
                    let offs = [1e-9, -1e-9, 1e-7, -1e-7, 3e-7, -3e-7, 1e-6, -1e-6, 1e-5, -1e-5];
                    let near = Array2::from_shape_fn((offs.len(), p), |(i, j)| if j == 0 { offs[i] } else { 0.0 });
                    out.arr_usize("gnb:predict_near_tie_rows", &m.predict(&near));
                    let pt = m.predict(&q_ties);
                    out.arr_usize("nb:predict_on_exact_posterior_tie", &pt);
                    out.note("nb:predict_on_exact_posterior_tie", format!("labels for the all-zero queries: {:?}", pt.to_vec()));
                }
            }
            Err(e) => out.err("gnb:fit", &e),
        }
    }

    fn run_mnb(&self, out: &mut Out) {
        let ties = self.kind == Kind::MultinomialNbTies;
        let p = self.p.max(2);
        let (x, y) = if self.kind == Kind::MultinomialNbNearTies {
            // every class gets the same rows (large counts); class c has c added to one single count
            let k = self.classes.clamp(3, 4);
            let per = (self.n / k).clamp(2, 12);
            let base = data::counts(self.data_seed, per, p, 60).mapv(|v| v + 40.0);
            let mut x = Array2::zeros((per * k, p));
            let mut y = Array1::zeros(per * k);
            for c in 0..k {
                for i in 0..per {
                    x.row_mut(c * per + i).assign(&base.row(i));
                    y[c * per + i] = c;
                }
                x[(c * per, c % p)] += c as f64;
            }
            (x, y)
        } else if ties {
            // classes 0 and 1 receive exactly the same rows (in the same order)
            let half = (self.n / 2).max(2);
            let a = data::counts(self.data_seed, half, p, 6);
            let x = ndarray::concatenate(Axis(0), &[a.view(), a.view()]).unwrap_or(a.clone());
            let y = Array1::from_shape_fn(x.nrows(), |i| usize::from(i >= half));
            (x, y)
        } else {
            // generic class: no all-zero row, pairwise distinct class sizes (hence distinct priors), so
            // two classes can only tie through an exact coincidence of sums of logarithms
            let mut x = data::counts(self.data_seed, self.n, p, 6);
            if self.few_distinct {
                let d = 2 + (self.data_seed % 3) as usize;
                let base = x.clone();
                for i in 0..self.n {
                    let src = base.row(i % d).to_owned();
                    x.row_mut(i).assign(&src);
                }
            }
            for mut r in x.rows_mut() {
                r[0] += 1.0;
            }
            let y = data::labels_distinct_sizes(&x, self.data_seed, self.classes.clamp(2, 4));
            (x, y)
        };
        // queries: counts with a guaranteed non-zero first entry (an all-zero row ties on equal priors)
        let mut q = data::counts(self.data_seed ^ 9, 40, p, 6);
        for mut r in q.rows_mut() {
            r[0] += 1.0;
        }
        match MultinomialNb::<f64, usize>::params().fit(&DatasetBase::new(x.clone(), y)) {
            Ok(m) => {
                model_by_content(out, "mnb:model", &m);
                let pr = m.predict(&q);
                if ties {
                    out.arr_usize("nb:predict_on_exact_posterior_tie", &pr);
                    out.note("nb:predict_on_exact_posterior_tie", format!("labels of the first queries: {:?}", &pr.to_vec()[..8.min(pr.len())]));
                } else {
                    out.arr_usize("mnb:predict_generic_rows", &pr);
                    out.arr_usize("mnb:predict_train", &m.predict(&x));
                }
            }
            Err(e) => out.err("mnb:fit", &e),
        }
    }
}

fn max_gap(a: &str, b: &str) -> Option<f64> {
    let pa: Vec<u64> = a.split_whitespace().filter_map(|h| u64::from_str_radix(h, 16).ok()).collect();
    let pb: Vec<u64> = b.split_whitespace().filter_map(|h| u64::from_str_radix(h, 16).ok()).collect();
    if pa.len() != pb.len() {
        return None;
    }
    Some(
        pa.iter()
            .zip(&pb)
            .map(|(x, y)| (f64::from_bits(*x) - f64::from_bits(*y)).abs())
            .fold(0.0, f64::max),
    )
}

/// impurities are computed in `f32` on values in [0, log2(classes)]; a reordering of the sum moves
/// them by a few f32 roundings at most
pub const F32_REORDER_GAP: f64 = 16.0 * f32::EPSILON as f64;

impl Runnable for Cfg {
    fn run(&self) -> Out {
        let mut out = Out::new();
        match self.kind {
            Kind::GaussianNb | Kind::GaussianNbTies => self.run_gnb(&mut out),
            Kind::MultinomialNb | Kind::MultinomialNbTies | Kind::MultinomialNbNearTies => self.run_mnb(&mut out),
            _ => self.run_tree(&mut out),
        }
        out
    }

    fn signature(&self, part: &str, a: &Out, b: &Out) -> String {
        if part == "tree:features_accessor_order" {
            // the set is the same (features_sorted precedes this part), only the order moved
            return "nondet:tree:features-accessor-order".into();
        }
        match self.kind {
            Kind::TreeTwoClassTies if part.starts_with("tree:") => "nondet:tree:exact-label-tie".into(),
            Kind::TreeMultiClass if part == "tree:impurity_decrease" || part == "tree:feature_importance" || part == "tree:model_serialised" => {
                // same structure, same predictions; is it only the rounding of a reordered f32 sum?
                let gap = match (a.note_of("tree:impurity_decrease"), b.note_of("tree:impurity_decrease")) {
                    (Some(x), Some(y)) => max_gap(x, y),
                    _ => None,
                };
                match gap {
                    Some(g) if g <= F32_REORDER_GAP => "nondet:tree:hash-ordered-impurity-sum:rounding".into(),
                    _ => format!("nondet:{part}"),
                }
            }
            // 3+ classes: the impurity of a candidate split is a sum over the classes in hash order; scores that
            // are equal in exact arithmetic come out one f32 rounding apart, and which split wins moves with it
            Kind::TreeMultiClass if part.starts_with("tree:") => "nondet:tree:hash-ordered-impurity-sum:split-choice".into(),
            _ => format!("nondet:{part}"),
        }
    }

    fn classify(&self, runs: &[RunInfo], obs: &mut Obs) {
        obs.class(match self.kind {
            Kind::TreeTwoClassTieFree => "tree_two_class_tie_free",
            Kind::TreeTwoClassTies => "tree_engineered_label_ties",
            Kind::TreeMultiClass => "tree_three_plus_classes",
            Kind::TreeDefaults => "tree_builder_defaults",
            Kind::GaussianNb => "gaussian_nb",
            Kind::GaussianNbTies => "gaussian_nb_exact_posterior_tie",
            Kind::MultinomialNb => "multinomial_nb",
            Kind::MultinomialNbTies => "multinomial_nb_exact_posterior_tie",
            Kind::TreeNearTieChain => "tree_near_tie_chain",
            Kind::MultinomialNbNearTies => "multinomial_nb_near_tied_posteriors",
        });
        obs.class_if(self.kind == Kind::GaussianNb && self.batches > 1, "gaussian_nb_incremental");
        obs.class_if(
            self.few_distinct
                && matches!(
                    self.kind,
                    Kind::TreeTwoClassTieFree | Kind::TreeMultiClass | Kind::TreeDefaults | Kind::GaussianNb | Kind::MultinomialNb
                ),
            "degenerate_few_distinct_rows",
        );
        if self.is_tree() {
            obs.class_if(self.entropy && self.kind != Kind::TreeDefaults, "tree_entropy");
            obs.class_if(self.dup_column && self.p >= 2, "tree_duplicate_feature_column");
            obs.class_if(self.real_weights && !matches!(self.kind, Kind::TreeTwoClassTies | Kind::TreeNearTieChain), "tree_real_valued_sample_weights");
            obs.class_if(
                self.real_weights && self.kind == Kind::TreeMultiClass,
                "tree_three_plus_classes_real_valued_weights",
            );
            if let Some(crate::driver::Outcome::Done(o)) = runs.first().map(|r| &r.outcome) {
                let leaves: usize = o.note_of("leaves").and_then(|s| s.parse().ok()).unwrap_or(0);
                let feats: usize = o.note_of("distinct_features").and_then(|s| s.parse().ok()).unwrap_or(0);
                obs.class_if(leaves >= 4, "tree_4plus_leaves");
                obs.class_if(leaves <= 1, "tree_single_leaf");
                obs.class_if(feats >= 2, "tree_2plus_split_features");
            }
        }
        // NT rule of the design: tree / NB case containing an exact tie (or, added here, a tree whose
        // impurities are sums over >= 3 hash-ordered classes)
        obs.nontrivial_if(matches!(
            self.kind,
            Kind::TreeTwoClassTies
                | Kind::TreeMultiClass
                | Kind::GaussianNbTies
                | Kind::MultinomialNbTies
                | Kind::TreeNearTieChain
                | Kind::MultinomialNbNearTies
        ));
    }

    fn all_pools(&self) -> bool {
        false
    }
}

pub fn strategy(tier: Tier) -> impl Strategy<Value = Cfg> {
    let max_n = tier.pick(120usize, 300usize);
    let kind = prop_oneof![
        3 => Just(Kind::TreeTwoClassTieFree),
        3 => Just(Kind::TreeTwoClassTies),
        3 => Just(Kind::TreeMultiClass),
        1 => Just(Kind::TreeDefaults),
        2 => Just(Kind::GaussianNb),
        2 => Just(Kind::GaussianNbTies),
        2 => Just(Kind::MultinomialNb),
        2 => Just(Kind::MultinomialNbTies),
        3 => Just(Kind::TreeNearTieChain),
        1 => Just(Kind::MultinomialNbNearTies),
    ];
    (
        (kind, any::<u64>(), 12usize..=max_n, 1usize..=5, 2usize..=5),
        (any::<bool>(), 0usize..=6, 1u8..=6, 1u8..=3, 1usize..=3, proptest::bool::weighted(0.3), proptest::bool::weighted(0.5), proptest::bool::weighted(0.12)),
    )
        .prop_map(|((kind, data_seed, n, p, classes), (entropy, max_depth, min_weight_split, min_weight_leaf, batches, dup_column, real_weights, few_distinct))| Cfg {
            kind,
            data_seed,
            n,
            p,
            classes,
            entropy,
            max_depth,
            min_weight_split,
            min_weight_leaf,
            batches,
            dup_column,
            real_weights,
            few_distinct,
        })
}
