//! Regression / linear classification estimators: OLS, isotonic regression, elastic net (single and
//! multi-task), logistic regression (binary and multinomial, string labels), Tweedie GLM, FTRL
//! (seeded and builder-default rng). None of them is parallel; the interesting dimensions are
//! repetition (hash seeds) and separate processes.

use crate::data;
use crate::driver::{RunInfo, Runnable};
use crate::out::Out;
use linfa::traits::{Fit, FitWith, Predict};
use linfa::DatasetBase;
use linfa_elasticnet::{ElasticNet, MultiTaskElasticNet};
use linfa_ftrl::Ftrl;
use linfa_linear::{IsotonicRegression, LinearRegression, Link, TweedieRegressor};
use linfa_logistic::{LogisticRegression, MultiLogisticRegression};
use ndarray::{s, Array1, Array2};
use proptest::prelude::*;
use rand::SeedableRng;
use rand_xoshiro::Xoshiro256Plus;
use serde::{Deserialize, Serialize};
use vengine::{Obs, Tier};

#[derive(Clone, Copy, Debug, PartialEq, Serialize, Deserialize)]
pub enum Algo {
    Ols,
    Isotonic,
    ElasticNet,
    MultiTaskElasticNet,
    Logistic,
    MultiLogistic,
    Tweedie,
    Ftrl,
    /// `Ftrl::params()` — rng not given by the caller
    FtrlDefaults,
}

#[derive(Clone, Debug, Serialize, Deserialize)]
pub struct Cfg {
    pub algo: Algo,
    pub data_seed: u64,
    pub rng_seed: u64,
    pub n: usize,
    pub p: usize,
    pub classes: usize,
    pub intercept: bool,
    /// penalty / alpha in hundredths
    pub penalty100: u32,
    /// l1 ratio in tenths (0..=10)
    pub l1_10: u32,
    /// Tweedie power selector: even = normal (power 0), odd = compound Poisson-gamma (power 1.5)
    pub power_sel: u8,
    pub batches: usize,
}

fn bits_model<T: Serialize>(out: &mut Out, name: &str, m: &T) {
    match bincode::serialize(m) {
        Ok(b) => {
            let mut h = crate::out::H::new();
            h.bytes(&b);
            out.push(name, h);
        }
        Err(e) => out.err(name, &e),
    }
}

impl Runnable for Cfg {
    fn run(&self) -> Out {
        let mut out = Out::new();
        let x = data::gaussian(self.data_seed, self.n, self.p);
        let q = data::gaussian(self.data_seed ^ 0x51, 50, self.p);
        let y = data::response(&x, self.data_seed, 0.3);
        let pen = self.penalty100 as f64 / 100.0;
        match self.algo {
            Algo::Ols => match LinearRegression::new().with_intercept(self.intercept).fit(&DatasetBase::new(x, y)) {
                Ok(m) => {
                    out.arr("ols:params", m.params());
                    out.f64("ols:intercept", m.intercept());
                    out.arr("ols:predict", &m.predict(&q));
                    bits_model(&mut out, "ols:model_bytes", &m);
                }
                Err(e) => out.err("ols:fit", &e),
            },
            Algo::Isotonic => {
                let x1 = x.slice(s![.., 0..1]).to_owned();
                let q1 = q.slice(s![.., 0..1]).to_owned();
                // isotonic regression honours dataset weights: real-valued ones in every other case
                let mut ds = DatasetBase::new(x1, y);
                if self.l1_10 % 2 == 1 {
                    let mut r = vengine::gen::SplitMix(self.data_seed ^ 0x150);
                    ds = ds.with_weights(Array1::from_shape_fn(self.n, |i| (0.1 + 0.37 * ((i % 7) as f64) + 0.9 * r.unit()) as f32));
                }
                match IsotonicRegression::new().fit(&ds) {
                    Ok(m) => {
                        out.arr("isotonic:predict", &m.predict(&q1));
                        bits_model(&mut out, "isotonic:model_bytes", &m);
                    }
                    Err(e) => out.err("isotonic:fit", &e),
                }
            }
            Algo::ElasticNet => {
                match ElasticNet::params()
                    .penalty(pen)
                    .l1_ratio(self.l1_10.min(10) as f64 / 10.0)
                    .with_intercept(self.intercept)
                    .max_iterations(300)
                    .fit(&DatasetBase::new(x, y))
                {
                    Ok(m) => {
                        out.arr("elasticnet:hyperplane", m.hyperplane());
                        out.f64("elasticnet:intercept", m.intercept());
                        out.f64("elasticnet:duality_gap", m.duality_gap());
                        out.u64s("elasticnet:n_steps", [m.n_steps() as u64]);
                        out.arr("elasticnet:predict", &m.predict(&q));
                        bits_model(&mut out, "elasticnet:model_bytes", &m);
                    }
                    Err(e) => out.err("elasticnet:fit", &e),
                }
            }
            Algo::MultiTaskElasticNet => {
                let y2 = data::response(&x, self.data_seed ^ 3, 0.2);
                let yy = Array2::from_shape_fn((self.n, 2), |(i, j)| if j == 0 { y[i] } else { y2[i] });
                match MultiTaskElasticNet::params()
                    .penalty(pen)
                    .l1_ratio(self.l1_10.min(10) as f64 / 10.0)
                    .with_intercept(self.intercept)
                    .max_iterations(300)
                    .fit(&DatasetBase::new(x, yy))
                {
                    Ok(m) => {
                        out.arr("mt_elasticnet:hyperplane", m.hyperplane());
                        out.arr("mt_elasticnet:intercept", m.intercept());
                        out.f64("mt_elasticnet:duality_gap", m.duality_gap());
                        out.arr("mt_elasticnet:predict", &m.predict(&q));
                        bits_model(&mut out, "mt_elasticnet:model_bytes", &m);
                    }
                    Err(e) => out.err("mt_elasticnet:fit", &e),
                }
            }
            Algo::Logistic => {
                let lab = data::labels_from(&x, self.data_seed, 2, 0.15);
                let names = ["dog", "cat"];
                let t: Array1<String> = lab.mapv(|c| names[c % 2].to_string());
                match LogisticRegression::default()
                    .alpha(pen)
                    .with_intercept(self.intercept)
                    .max_iterations(60)
                    .fit(&DatasetBase::new(x, t))
                {
                    Ok(m) => {
                        out.arr("logistic:params", m.params());
                        out.f64("logistic:intercept", m.intercept());
                        out.strs("logistic:labels", [m.labels().pos.class.clone(), m.labels().neg.class.clone()]);
                        out.strs("logistic:predict", m.predict(&q).iter());
                        out.arr("logistic:predict_probabilities", &m.predict_probabilities(&q));
                        bits_model(&mut out, "logistic:model_bytes", &m);
                    }
                    Err(e) => out.err("logistic:fit", &e),
                }
            }
            Algo::MultiLogistic => {
                let k = self.classes.clamp(3, 5);
                let lab = data::labels_from(&x, self.data_seed, k, 0.15);
                let names = ["delta", "alpha", "echo", "bravo", "charlie"];
                let t: Array1<String> = lab.mapv(|c| names[c % 5].to_string());
                match MultiLogisticRegression::default()
                    .alpha(pen)
                    .with_intercept(self.intercept)
                    .max_iterations(40)
                    .fit(&DatasetBase::new(x, t))
                {
                    Ok(m) => {
                        out.arr("multilogistic:params", m.params());
                        out.arr("multilogistic:intercept", m.intercept());
                        out.strs("multilogistic:classes", m.classes().iter());
                        out.strs("multilogistic:predict", m.predict(&q).iter());
                        out.arr("multilogistic:predict_probabilities", &m.predict_probabilities(&q));
                        bits_model(&mut out, "multilogistic:model_bytes", &m);
                    }
                    Err(e) => out.err("multilogistic:fit", &e),
                }
            }
            Algo::Tweedie => {
                // without an intercept the L-BFGS line search of the GLM does not terminate on some inputs (power 1 and 3
                // observed); that is a liveness matter outside this property, so the intercept is always fitted here
                // (powers 1, 2 and 3 were also seen not to terminate with an intercept; only the two powers that always
                // terminated in 300 probe fits are generated)
                let power = [0.0, 1.5][(self.power_sel % 2) as usize];
                // strictly positive targets are inside the range of every power used here
                let yp = y.mapv(|v| (0.2 * v).exp().min(50.0) + 0.1);
                let mut params = TweedieRegressor::params()
                    .power(power)
                    .alpha(pen)
                    .fit_intercept(true)
                    .max_iter(40);
                if power == 0.0 && self.l1_10 % 2 == 0 {
                    params = params.link(Link::Identity);
                } else {
                    params = params.link(Link::Log);
                }
                // small-scale features keep exp(linear predictor) finite during the line search
                let x = x.mapv(|v| v * 0.25);
                let q = q.mapv(|v| v * 0.25);
                match params.fit(&DatasetBase::new(x, yp)) {
                    Ok(m) => {
                        out.arr("tweedie:coef", &m.coef);
                        out.f64("tweedie:intercept", m.intercept);
                        out.arr("tweedie:predict", &m.predict(&q));
                        bits_model(&mut out, "tweedie:model_bytes", &m);
                    }
                    Err(e) => out.err("tweedie:fit", &e),
                }
            }
            Algo::Ftrl | Algo::FtrlDefaults => {
                let lab = data::labels_from(&x, self.data_seed, 2, 0.2).mapv(|c| c == 1);
                let nb = self.batches.max(1);
                let size = (self.n / nb).max(1);
                let mut model = None;
                for b in 0..nb {
                    let lo = b * size;
                    let hi = if b + 1 == nb { self.n } else { (lo + size).min(self.n) };
                    if lo >= hi {
                        break;
                    }
                    let batch = DatasetBase::new(x.slice(s![lo..hi, ..]).to_owned(), lab.slice(s![lo..hi]).to_owned());
                    let r = if self.algo == Algo::FtrlDefaults {
                        Ftrl::params().fit_with(model.take(), &batch)
                    } else {
                        Ftrl::params_with_rng(Xoshiro256Plus::seed_from_u64(self.rng_seed))
                            .alpha(0.05 + pen)
                            .l1_ratio(self.l1_10.min(10) as f64 / 10.0)
                            .fit_with(model.take(), &batch)
                    };
                    match r {
                        Ok(m) => model = Some(m),
                        Err(e) => {
                            out.err("ftrl:fit_with", &e);
                            return out;
                        }
                    }
                }
                if let Some(m) = model {
                    out.arr("ftrl:z", m.z());
                    out.arr("ftrl:n", m.n());
                    out.arr("ftrl:weights", &m.get_weights());
                    let pr = m.predict(&q);
                    out.f32s("ftrl:predict", pr.iter().map(|p| &**p).collect::<Vec<&f32>>());
                    bits_model(&mut out, "ftrl:model_bytes", &m);
                }
            }
        }
        out
    }

    fn classify(&self, _runs: &[RunInfo], obs: &mut Obs) {
        obs.class(match self.algo {
            Algo::Ols => "ols",
            Algo::Isotonic => "isotonic",
            Algo::ElasticNet => "elastic_net",
            Algo::MultiTaskElasticNet => "multi_task_elastic_net",
            Algo::Logistic => "logistic_binary_string_labels",
            Algo::MultiLogistic => "logistic_multinomial_string_labels",
            Algo::Tweedie => "tweedie_glm",
            Algo::Ftrl => "ftrl_seeded",
            Algo::FtrlDefaults => "ftrl_builder_defaults",
        });
        obs.class_if(self.algo == Algo::Ftrl && crate::BOUNDARY_SEEDS.contains(&self.rng_seed), "boundary_rng_seed");
        obs.class_if(self.algo == Algo::Ftrl && self.rng_seed == 0, "rng_seed_zero");
        // non-trivial: the estimator draws from an rng or orders labels
        obs.nontrivial_if(matches!(self.algo, Algo::Ftrl | Algo::FtrlDefaults | Algo::Logistic | Algo::MultiLogistic));
    }

    fn all_pools(&self) -> bool {
        false
    }
}

pub fn strategy(tier: Tier) -> impl Strategy<Value = Cfg> {
    let max_n = tier.pick(120usize, 400usize);
    let algo = prop_oneof![
        Just(Algo::Ols),
        Just(Algo::Isotonic),
        Just(Algo::ElasticNet),
        Just(Algo::MultiTaskElasticNet),
        Just(Algo::Logistic),
        Just(Algo::MultiLogistic),
        Just(Algo::Tweedie),
        Just(Algo::Ftrl),
        Just(Algo::FtrlDefaults),
    ];
    (
        (algo, any::<u64>(), crate::seed_strategy(), 20usize..=max_n, 1usize..=5, 3usize..=5),
        (any::<bool>(), 0u32..=200, 0u32..=10, 0u8..5, 1usize..=4),
    )
        .prop_map(|((algo, data_seed, rng_seed, n, p, classes), (intercept, penalty100, l1_10, power_sel, batches))| {
            Cfg { algo, data_seed, rng_seed, n, p, classes, intercept, penalty100: penalty100 + 1, l1_10, power_sel, batches }
        })
}

pub fn boundary_seed_cases() -> Vec<Cfg> {
    crate::BOUNDARY_SEEDS
        .iter()
        .enumerate()
        .map(|(i, &seed)| Cfg {
            algo: Algo::Ftrl,
            data_seed: 0xf7a1 + i as u64,
            rng_seed: seed,
            n: 60,
            p: 4,
            classes: 3,
            intercept: true,
            penalty100: 10,
            l1_10: 5,
            power_sel: 0,
            batches: 3,
        })
        .collect()
}
