//! Case type, the integer "recipe" both generators decode into a case, the proptest strategy and the
//! byte decoder for a libFuzzer target.

use crate::reference;
use proptest::prelude::*;
use serde::{Deserialize, Serialize};
use std::collections::BTreeSet;
use vengine::gen::idx;

#[derive(Debug, Clone, PartialEq, Eq, Serialize, Deserialize)]
pub enum Tok {
    /// linfa's default expression `\b\w\w+\b` (builder not called)
    Default,
    /// `Tokenizer::Regex(r"\b[^ ][^ ]+\b")`
    RegexNoSpace,
    /// `Tokenizer::Regex(r"\w+")`
    RegexWord1,
    /// `Tokenizer::Function(|s| s.split_whitespace().collect())`
    FnWhitespace,
    /// `Tokenizer::Function(|s| s.split(' ').collect())` (yields empty tokens between adjacent spaces)
    FnSplitSpace,
}

/// A relative document-frequency bound; the f32 value is computed from the number of training documents.
#[derive(Debug, Clone, PartialEq, Eq, Serialize, Deserialize)]
pub enum Df {
    Zero,
    /// `min(k, n) as f32 / n as f32`
    KOverN(u8),
    Lit034,
    Half,
    Lit067,
    One,
}

#[derive(Debug, Clone, PartialEq, Eq, Serialize, Deserialize)]
pub enum Idf {
    Smooth,
    NonSmooth,
    Textbook,
}

#[derive(Debug, Clone, Serialize, Deserialize)]
pub struct Case {
    pub train: Vec<String>,
    pub unseen: Vec<String>,
    pub lowercase: bool,
    pub normalize: bool,
    pub tok: Tok,
    pub ngram: (usize, usize),
    pub stopwords: Option<Vec<String>>,
    /// (min, max) relative document frequency
    pub df: (Df, Df),
    pub max_features: Option<usize>,
    /// `Some` => `fit_vocabulary` is used instead of `fit`
    pub fixed_vocab: Option<Vec<String>>,
    pub method: Idf,
}

/// Words of the alphabet: 2+ letters, mixed case, precomposed / decomposed / compatibility forms whose NFKD
/// differs, a one-letter word (dropped by the default expression, kept by the other tokenizers), a word with
/// digit and underscore.
pub const WORDS: [&str; 17] = [
    "ab",
    "AB",
    "Ab",
    "cd",
    "Cd",
    "ef",
    "caf\u{e9}",    // precomposed e-acute
    "cafe\u{301}",  // e + combining acute
    "CAF\u{c9}",    // upper case precomposed
    "\u{fb01}g",    // ligature fi + g  (NFKD: "fig")
    "fig",
    "x",
    "gh",
    "a_1",
    "\u{2126}m",    // OHM SIGN (NFKD: Greek capital omega)
    "\u{3c9}m",     // Greek small omega
    "\u{2121}x",    // TELEPHONE SIGN: not a word character, NFKD "TEL" (upper case appears only after NFKD)
];
pub const OOV: [&str; 4] = ["zz", "QQ", "never", "z"];
pub const SEPS: [&str; 16] = [" ", " ", " ", " ", " ", " ", " ", " ", " ", "  ", ", ", ";", ". ", "-", "\n", "! "];
pub const TRAILS: [&str; 6] = ["", "", "", " ", ".", " ;"];

pub const NGRAM_RANGES: [(usize, usize); 6] = [(1, 1), (1, 2), (1, 3), (2, 2), (2, 3), (3, 3)];
pub const CAPS: [Option<usize>; 16] = [
    None, None, None, None, None, None, None, Some(1), Some(1), Some(1), Some(2), Some(2), Some(2), Some(5), Some(5), Some(0),
];

/// One document: tokens as (word pick, separator pick) + trailing pick.
pub type DocRecipe = (Vec<(u16, u8)>, u8);

/// Plain integers from which a case is constructed (by proptest and by the byte decoder alike).
#[derive(Debug, Clone, Default)]
pub struct Recipe {
    pub lowercase: bool,
    pub normalize: bool,
    pub tok: u8,
    pub ngram: u8,
    /// 0..=3 => default window (0, 1); otherwise the two picks below are used
    pub df_mode: u8,
    pub df_a: u8,
    pub df_b: u8,
    pub cap: u8,
    pub method: u8,
    /// number of alphabet words in use (2..=WORDS.len()) and rotation of the alphabet
    pub alpha_len: u8,
    pub alpha_rot: u8,
    pub train: Vec<DocRecipe>,
    pub unseen: Vec<DocRecipe>,
    pub stop: Option<Vec<u16>>,
    pub fixed: Option<Vec<u16>>,
}

fn pick_word(w: u16, alpha_len: usize, rot: usize, with_oov: bool) -> &'static str {
    let al = alpha_len.clamp(1, WORDS.len());
    if with_oov {
        let k = idx(w, al + 2);
        if k >= al {
            // two slots of out-of-vocabulary words; the low bits choose which
            return OOV[(w as usize) & 3];
        }
        WORDS[(rot + k) % WORDS.len()]
    } else {
        WORDS[(rot + idx(w, al)) % WORDS.len()]
    }
}

fn render_doc(d: &DocRecipe, alpha_len: usize, rot: usize, with_oov: bool) -> String {
    let mut s = String::new();
    for (i, (w, sep)) in d.0.iter().enumerate() {
        let sp = (*sep as usize) % SEPS.len();
        if i > 0 || sp >= 10 {
            s.push_str(SEPS[sp]);
        }
        s.push_str(pick_word(*w, alpha_len, rot, with_oov));
    }
    s.push_str(TRAILS[(d.1 as usize) % TRAILS.len()]);
    s
}

fn df_pick(p: u8, n: usize) -> Df {
    match p % 9 {
        0 => Df::Zero,
        1 => Df::KOverN(1),
        2 => Df::KOverN(2),
        3 => Df::Lit034,
        4 => Df::Half,
        5 => Df::Lit067,
        6 => Df::KOverN(n.saturating_sub(1).min(255) as u8),
        7 => Df::One,
        _ => Df::KOverN(n.min(255) as u8),
    }
}

pub fn tok_of(t: u8) -> Tok {
    match t % 8 {
        0 | 1 | 2 => Tok::Default,
        3 => Tok::RegexNoSpace,
        4 => Tok::RegexWord1,
        5 | 6 => Tok::FnWhitespace,
        _ => Tok::FnSplitSpace,
    }
}

pub fn method_of(m: u8) -> Idf {
    match m % 3 {
        0 => Idf::Smooth,
        1 => Idf::NonSmooth,
        _ => Idf::Textbook,
    }
}

pub fn build_case(r: &Recipe) -> Case {
    let alpha_len = (r.alpha_len as usize).clamp(2, WORDS.len());
    let rot = r.alpha_rot as usize % WORDS.len();
    let train: Vec<String> = r.train.iter().map(|d| render_doc(d, alpha_len, rot, false)).collect();
    let unseen: Vec<String> = r.unseen.iter().map(|d| render_doc(d, alpha_len, rot, true)).collect();
    let n = train.len();
    let df = if r.df_mode % 10 <= 3 {
        (Df::Zero, Df::One)
    } else {
        let (a, b) = (df_pick(r.df_a, n), df_pick(r.df_b, n));
        if reference::df_value(&a, n) <= reference::df_value(&b, n) {
            (a, b)
        } else {
            (b, a)
        }
    };
    let mut c = Case {
        train,
        unseen,
        lowercase: r.lowercase,
        normalize: r.normalize,
        tok: tok_of(r.tok),
        ngram: NGRAM_RANGES[r.ngram as usize % NGRAM_RANGES.len()],
        stopwords: None,
        df,
        max_features: CAPS[r.cap as usize % CAPS.len()],
        fixed_vocab: None,
        method: method_of(r.method),
    };
    // pools for stop words / fixed vocabulary are read off the corpus itself (sorted => deterministic), so that
    // the picks actually hit vocabulary entries, n-gram strings included
    if let Some(picks) = &r.stop {
        let mut pool: Vec<String> = corpus_ngrams(&c, c.ngram).into_iter().collect();
        pool.extend(WORDS.iter().map(|w| w.to_string()));
        pool.push("zz".to_string());
        c.stopwords = Some(picks.iter().map(|p| pool[idx(*p, pool.len())].clone()).collect());
    }
    if let Some(picks) = &r.fixed {
        let mut pool: Vec<String> = corpus_ngrams(&c, (1, 3)).into_iter().collect();
        pool.extend(["zz", "never seen", "ab cd ef gh", "z"].iter().map(|w| w.to_string()));
        c.fixed_vocab = Some(picks.iter().map(|p| pool[idx(*p, pool.len())].clone()).collect());
    }
    c
}

fn corpus_ngrams(c: &Case, range: (usize, usize)) -> BTreeSet<String> {
    let mut s = BTreeSet::new();
    for d in &c.train {
        s.extend(reference::doc_counts(d, c, range).into_keys());
    }
    s
}

/// Structural validity (what the documented preconditions demand); the check skips anything else.
pub fn valid(c: &Case) -> bool {
    let n = c.train.len();
    let (lo, hi) = (reference::df_value(&c.df.0, n), reference::df_value(&c.df.1, n));
    c.ngram.0 >= 1
        && c.ngram.0 <= c.ngram.1
        && c.ngram.1 <= 3
        && lo >= 0.0
        && lo <= hi
        && hi <= 1.0
        && c.train.len() <= 64
        && c.unseen.len() <= 64
        && c.train.iter().chain(c.unseen.iter()).all(|d| d.len() <= 4096)
}

// ------------------------------------------------------------------------------------------------
// proptest strategy

fn doc_strategy(max_tokens: usize) -> impl Strategy<Value = DocRecipe> {
    prop_oneof![
        1 => (Just(Vec::new()), 0u8..6),
        9 => (proptest::collection::vec((any::<u16>(), 0u8..16), 1..=max_tokens), 0u8..6),
    ]
}

/// `fixed`: generate `fit_vocabulary` cases (true) or learned-vocabulary cases (false).
pub fn case_strategy(max_docs: usize, max_tokens: usize, fixed: bool) -> impl Strategy<Value = Case> {
    let settings = (
        proptest::bool::weighted(0.6),
        proptest::bool::weighted(0.6),
        0u8..8,
        0u8..6,
        0u8..10,
        0u8..9,
        0u8..9,
        0u8..16,
        0u8..3,
    );
    let alpha = (2u8..=(WORDS.len() as u8), 0u8..(WORDS.len() as u8));
    let docs = (
        proptest::collection::vec(doc_strategy(max_tokens), 1..=max_docs),
        proptest::collection::vec(doc_strategy(max_tokens), 0..=(max_docs / 2).max(1)),
    );
    let stop = proptest::option::weighted(0.45, proptest::collection::vec(any::<u16>(), 1..=4));
    let fixed_picks = if fixed {
        proptest::collection::vec(any::<u16>(), 0..=6).prop_map(Some).boxed()
    } else {
        Just(None).boxed()
    };
    (settings, alpha, docs, stop, fixed_picks).prop_map(|(s, a, d, stop, fixed)| {
        build_case(&Recipe {
            lowercase: s.0,
            normalize: s.1,
            tok: s.2,
            ngram: s.3,
            df_mode: s.4,
            df_a: s.5,
            df_b: s.6,
            cap: s.7,
            method: s.8,
            alpha_len: a.0,
            alpha_rot: a.1,
            train: d.0,
            unseen: d.1,
            stop,
            fixed,
        })
    })
}

// ------------------------------------------------------------------------------------------------
// byte decoder (libFuzzer entry): total, never panics

struct Cur<'a> {
    d: &'a [u8],
    p: usize,
}
impl Cur<'_> {
    fn u8(&mut self) -> u8 {
        let v = self.d.get(self.p).copied().unwrap_or(0);
        self.p = self.p.saturating_add(1);
        v
    }
    fn u16(&mut self) -> u16 {
        let a = self.u8() as u16;
        let b = self.u8() as u16;
        (a << 8) | b
    }
    fn left(&self) -> usize {
        self.d.len().saturating_sub(self.p)
    }
}

fn doc_from(cur: &mut Cur, max_tokens: usize) -> DocRecipe {
    let h = cur.u8();
    let len = (h as usize & 0x0f).min(max_tokens);
    let trail = h >> 4;
    let mut toks = Vec::with_capacity(len);
    for _ in 0..len {
        if cur.left() == 0 {
            break;
        }
        let w = cur.u8();
        let s = cur.u8();
        // the word pick takes the high byte so that one input byte moves through the whole alphabet
        toks.push((((w as u16) << 8) | (s as u16 & 0xf0), s & 0x0f));
    }
    (toks, trail)
}

fn raw_doc(cur: &mut Cur) -> String {
    let len = (cur.u8() as usize).min(48).min(cur.left());
    let start = cur.p.min(cur.d.len());
    let end = (start + len).min(cur.d.len());
    cur.p = end;
    String::from_utf8_lossy(cur.d.get(start..end).unwrap_or(&[])).into_owned()
}

/// Decode arbitrary bytes into a valid case. Layout: 8 header bytes (flags, tokenizer, n-gram range, df mode and
/// picks, cap, method, alphabet), one count byte, then stop-word / fixed-vocabulary picks, then documents; bit 7 of the first byte selects *raw* documents
/// (lossy UTF-8 of the input bytes) instead of alphabet recipes. Returns `None` only for inputs shorter than 4 bytes.
pub fn case_from_bytes(data: &[u8]) -> Option<Case> {
    if data.len() < 4 {
        return None;
    }
    let mut cur = Cur { d: data, p: 0 };
    let flags = cur.u8();
    let mut r = Recipe {
        lowercase: flags & 1 != 0,
        normalize: flags & 2 != 0,
        tok: cur.u8(),
        ngram: cur.u8(),
        df_mode: cur.u8(),
        ..Recipe::default()
    };
    let dfp = cur.u8();
    r.df_a = dfp & 0x0f;
    r.df_b = dfp >> 4;
    let cm = cur.u8();
    r.cap = cm & 0x0f;
    r.method = cm >> 4;
    let al = cur.u8();
    r.alpha_len = 2 + (al & 0x0f);
    r.alpha_rot = al >> 4;
    let counts = cur.u8();
    let n_train = 1 + (counts as usize & 0x07);
    let n_unseen = (counts as usize >> 3) & 0x03;
    let n_stop = (counts as usize >> 5) & 0x03;
    let want_fixed = counts & 0x80 != 0;
    let raw = flags & 0x80 != 0;
    // picks come before the documents so that short inputs do not starve them
    let stop: Vec<u16> = (0..n_stop).map(|_| cur.u16()).collect();
    let fixed: Vec<u16> = if want_fixed {
        let k = cur.u8() as usize % 7;
        (0..k).map(|_| cur.u16()).collect()
    } else {
        vec![]
    };
    let mut raw_train = Vec::new();
    let mut raw_unseen = Vec::new();
    if raw {
        for _ in 0..n_train {
            raw_train.push(raw_doc(&mut cur));
        }
        for _ in 0..n_unseen {
            raw_unseen.push(raw_doc(&mut cur));
        }
        r.train = vec![(vec![], 0); n_train];
    } else {
        for _ in 0..n_train {
            r.train.push(doc_from(&mut cur, 10));
        }
        for _ in 0..n_unseen {
            r.unseen.push(doc_from(&mut cur, 10));
        }
    }
    if !raw {
        r.stop = if n_stop > 0 { Some(stop) } else { None };
        r.fixed = if want_fixed { Some(fixed) } else { None };
        let c = build_case(&r);
        return if valid(&c) { Some(c) } else { None };
    }
    // raw documents: settings from the recipe, documents substituted before the pools are read
    let mut c = build_case(&r);
    c.train = raw_train;
    c.unseen = raw_unseen;
    let n = c.train.len();
    // KOverN picks were computed for the same n; recompute pools on the real corpus
    let _ = n;
    if n_stop > 0 {
        let mut pool: Vec<String> = corpus_ngrams(&c, c.ngram).into_iter().collect();
        pool.push("zz".to_string());
        c.stopwords = Some(stop.iter().map(|p| pool[idx(*p, pool.len())].clone()).collect());
    }
    if want_fixed {
        let mut pool: Vec<String> = corpus_ngrams(&c, (1, 3)).into_iter().collect();
        pool.push("zz".to_string());
        c.fixed_vocab = Some(fixed.iter().map(|p| pool[idx(*p, pool.len())].clone()).collect());
    }
    if valid(&c) {
        Some(c)
    } else {
        None
    }
}
