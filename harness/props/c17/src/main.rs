fn main() {
    vengine::main(c17::property())
}
