//! C17 — count and tf-idf vectorisers equal a naive count of the tokenised corpus.
//!
//! Every case is a small corpus plus one tokenisation setting. The oracle (`reference.rs`) recomputes the
//! whole pipeline from the definition: transformed string -> tokens -> n-gram windows -> document frequency
//! -> admitted set -> counts -> idf, and compares vocabulary (as a set), the word <-> column mapping, every
//! entry of the count matrix (training and unseen documents) and every tf-idf entry.

pub mod case;
pub mod reference;

pub use case::{case_from_bytes, Case, Df, Idf, Tok};

use linfa_preprocessing::tf_idf_vectorization::{FittedTfIdfVectorizer, TfIdfMethod, TfIdfVectorizer};
use linfa_preprocessing::{CountVectorizer, CountVectorizerParams, Tokenizer};
use ndarray::Array1;
use reference::Reference;
use serde::{Deserialize, Serialize};
use std::collections::{BTreeMap, BTreeSet};
use vengine::{enum_sub, prop_sub, Obs, Property, Tier};

/// Relative tolerance of a tf-idf entry: 64 eps times the magnitudes entering `count * (ln(..) + 1)` (DESIGN §1.5).
pub const IDF_REL: f64 = 64.0 * f64::EPSILON;
/// Absolute floor of the tf-idf tolerance.
pub const IDF_TINY: f64 = 1e-300;

// ------------------------------------------------------------------------------------------------
// building linfa objects from a case

fn count_params(c: &Case, n_train: usize) -> CountVectorizerParams {
    let mut p = CountVectorizer::params()
        .convert_to_lowercase(c.lowercase)
        .normalize(c.normalize)
        .n_gram_range(c.ngram.0, c.ngram.1)
        .document_frequency(reference::df_value(&c.df.0, n_train), reference::df_value(&c.df.1, n_train))
        .max_features(c.max_features);
    if let Some(s) = &c.stopwords {
        p = p.stopwords(&s[..]);
    }
    match c.tok {
        Tok::Default => p,
        Tok::RegexNoSpace => p.tokenizer(Tokenizer::Regex(reference::RE_NOSPACE.to_string())),
        Tok::RegexWord1 => p.tokenizer(Tokenizer::Regex(reference::RE_WORD1.to_string())),
        Tok::FnWhitespace => p.tokenizer(Tokenizer::Function(reference::tok_whitespace)),
        Tok::FnSplitSpace => p.tokenizer(Tokenizer::Function(reference::tok_split_space)),
    }
}

/// `TfIdfVectorizer` has no builder for its idf method (only `Smooth` is reachable through builders), so the
/// non-default methods are set through the type's serde form. Returns `None` if that route does not work.
fn tfidf_with_method(m: &Idf) -> Option<TfIdfVectorizer> {
    let name = match m {
        Idf::Smooth => return Some(TfIdfVectorizer::default()),
        Idf::NonSmooth => "NonSmooth",
        Idf::Textbook => "Textbook",
    };
    let mut v = serde_json::to_value(TfIdfVectorizer::default()).ok()?;
    *v.get_mut("method")? = serde_json::Value::String(name.to_string());
    serde_json::from_value(v).ok()
}

fn tfidf_params(c: &Case, n_train: usize, base: TfIdfVectorizer) -> TfIdfVectorizer {
    let mut p = base
        .convert_to_lowercase(c.lowercase)
        .normalize(c.normalize)
        .n_gram_range(c.ngram.0, c.ngram.1)
        .document_frequency(reference::df_value(&c.df.0, n_train), reference::df_value(&c.df.1, n_train))
        .max_features(c.max_features);
    if let Some(s) = &c.stopwords {
        p = p.stopwords(&s[..]);
    }
    match c.tok {
        Tok::Default => p,
        Tok::RegexNoSpace => p.tokenizer(Tokenizer::Regex(reference::RE_NOSPACE.to_string())),
        Tok::RegexWord1 => p.tokenizer(Tokenizer::Regex(reference::RE_WORD1.to_string())),
        Tok::FnWhitespace => p.tokenizer(Tokenizer::Function(reference::tok_whitespace)),
        Tok::FnSplitSpace => p.tokenizer(Tokenizer::Function(reference::tok_split_space)),
    }
}

// ------------------------------------------------------------------------------------------------
// oracle pieces

/// Vocabulary learned by `fit`: exactly the admitted set; under a cap a top-`cap` subset by document frequency.
/// Returns true when the vocabulary is well-formed enough to judge the matrices column by column.
fn judge_learned_vocab(c: &Case, r: &Reference, obs: &mut Obs, pre: &str, vocab: &[String], nentries: usize) -> bool {
    let set: BTreeSet<&String> = vocab.iter().collect();
    let mut ok = obs.ensure(set.len() == vocab.len(), &format!("{pre}vocab:duplicate-entry"), || {
        format!("vocabulary() lists an entry twice: {:?}", vocab)
    });
    obs.ensure(nentries == vocab.len(), &format!("{pre}vocab:nentries"), || {
        format!("nentries() = {nentries} but vocabulary() has {} entries", vocab.len())
    });
    // nothing invented
    for w in vocab {
        match r.candidates.get(w) {
            None => {
                ok = false;
                obs.fail(
                    format!("{pre}vocab:not-an-ngram-of-the-corpus"),
                    format!("entry {w:?} is not an n-gram ({:?}) of any training document", c.ngram),
                );
            }
            Some(cand) => {
                if r.stop.contains(w) {
                    obs.fail(format!("{pre}vocab:stop-word-kept"), format!("stop word {w:?} is in the vocabulary"));
                }
                if cand.df < r.window.0 {
                    obs.fail(
                        format!("{pre}vocab:below-min-df"),
                        format!("{w:?} has document frequency {} < floor(min_df*n) = {} (n = {})", cand.df, r.window.0, c.train.len()),
                    );
                }
                if cand.df > r.window.1 {
                    obs.fail(
                        format!("{pre}vocab:above-max-df"),
                        format!("{w:?} has document frequency {} > floor(max_df*n) = {} (n = {})", cand.df, r.window.1, c.train.len()),
                    );
                }
            }
        }
    }
    // nothing dropped
    match c.max_features {
        None => {
            for (w, df) in &r.admitted {
                if !set.contains(w) {
                    obs.fail(
                        format!("{pre}vocab:admitted-entry-missing"),
                        format!(
                            "{w:?} (document frequency {df}, window {:?}, not a stop word) is missing from the vocabulary {:?}",
                            r.window, vocab
                        ),
                    );
                    break;
                }
            }
        }
        Some(cap) => {
            let want = cap.min(r.admitted.len());
            obs.ensure(vocab.len() == want, &format!("{pre}vocab:cap-size"), || {
                format!("max_features = {cap}, {} admitted entries, vocabulary has {} entries", r.admitted.len(), vocab.len())
            });
            let kept_min = vocab.iter().filter_map(|w| r.admitted.get(w)).min();
            let dropped_max = r.admitted.iter().filter(|(w, _)| !set.contains(w)).map(|(_, df)| df).max();
            if let (Some(k), Some(d)) = (kept_min, dropped_max) {
                obs.ensure(k >= d, &format!("{pre}vocab:cap-not-most-frequent"), || {
                    format!("max_features = {cap}: a kept entry has document frequency {k}, a dropped one {d}; vocabulary {:?}", vocab)
                });
            }
        }
    }
    ok
}

fn judge_counts(
    obs: &mut Obs,
    sig_pre: &str,
    which: &str,
    vocab: &[String],
    docs: &[BTreeMap<String, usize>],
    m: &sprs::CsMat<usize>,
) {
    if !obs.ensure(m.rows() == docs.len() && m.cols() == vocab.len(), &format!("{sig_pre}count:shape"), || {
        format!("{which}: count matrix is {}x{}, expected {}x{}", m.rows(), m.cols(), docs.len(), vocab.len())
    }) {
        return;
    }
    for (d, counts) in docs.iter().enumerate() {
        for (j, w) in vocab.iter().enumerate() {
            let want = counts.get(w).copied().unwrap_or(0);
            let got = m.get(d, j).copied().unwrap_or(0);
            if got != want {
                let sig = if got < want { "count:occurrences-missed" } else { "count:occurrences-invented" };
                obs.fail(
                    format!("{sig_pre}{sig}"),
                    format!("{which} document {d}, column {j} = {w:?}: matrix says {got}, the document contains it {want} times"),
                );
            }
        }
    }
}

fn judge_tfidf(
    obs: &mut Obs,
    which: &str,
    method: &Idf,
    vocab: &[String],
    docs: &[BTreeMap<String, usize>],
    m: &sprs::CsMat<f64>,
) {
    if !obs.ensure(m.rows() == docs.len() && m.cols() == vocab.len(), "tfidf:shape", || {
        format!("{which}: tf-idf matrix is {}x{}, expected {}x{}", m.rows(), m.cols(), docs.len(), vocab.len())
    }) {
        return;
    }
    let n = docs.len();
    for (j, w) in vocab.iter().enumerate() {
        let df = docs.iter().filter(|d| d.get(w).copied().unwrap_or(0) > 0).count();
        for (d, counts) in docs.iter().enumerate() {
            let count = counts.get(w).copied().unwrap_or(0);
            let got = m.get(d, j).copied().unwrap_or(0.0);
            if count == 0 {
                if got != 0.0 {
                    obs.fail(
                        "tfidf:nonzero-for-absent-entry",
                        format!("{which} document {d}, column {j} = {w:?}: entry {got} although the document does not contain it"),
                    );
                }
                continue;
            }
            // count > 0 => df >= 1: the documented NonSmooth division by zero cannot arise here
            let (idf, lnmag) = reference::idf(method, n, df);
            let want = count as f64 * idf;
            let tol = IDF_REL * count as f64 * (lnmag + 1.0) + IDF_TINY;
            if !(got == want || (got.is_finite() && (got - want).abs() <= tol)) {
                obs.fail(
                    "tfidf:wrong-entry",
                    format!(
                        "{which} document {d}, column {j} = {w:?}: entry {got}, expected count {count} x idf_{:?}(n = {n}, df = {df}) = {want}",
                        method
                    ),
                );
            }
        }
    }
}

fn arr(v: &[String]) -> Array1<String> {
    Array1::from(v.to_vec())
}

fn classify(c: &Case, r: &Reference, obs: &mut Obs) {
    obs.class(match c.tok {
        Tok::Default => "tok_default_regex",
        Tok::RegexNoSpace => "tok_regex_nospace",
        Tok::RegexWord1 => "tok_regex_word1",
        Tok::FnWhitespace => "tok_fn_whitespace",
        Tok::FnSplitSpace => "tok_fn_split_space",
    });
    obs.class(match c.ngram.1 {
        1 => "ngram_max_1",
        2 => "ngram_max_2",
        _ => "ngram_max_3",
    });
    obs.class_if(c.ngram.0 >= 2, "ngram_min_ge_2");
    obs.class_if(c.ngram.0 < c.ngram.1, "ngram_range_wide");
    obs.class_if(c.lowercase, "lowercase_on");
    obs.class_if(!c.lowercase, "lowercase_off");
    obs.class_if(c.normalize, "normalize_on");
    obs.class_if(!c.normalize, "normalize_off");
    obs.class(match c.method {
        Idf::Smooth => "idf_smooth",
        Idf::NonSmooth => "idf_nonsmooth",
        Idf::Textbook => "idf_textbook",
    });
    obs.class_if(r.train.iter().any(|d| d.is_empty()), "doc_without_ngrams");
    obs.class_if(c.train.iter().any(|d| d.is_empty()), "empty_document");
    obs.class_if(r.train.iter().any(|d| d.values().any(|k| *k >= 2)), "repeated_ngram_in_document");
    obs.class_if(
        c.train.iter().any(|d| reference::transform_string(d, true, false) != *d) && c.normalize,
        "nfkd_changes_text",
    );
    obs.class_if(c.train.iter().any(|d| d.to_lowercase() != *d) && c.lowercase, "lowercase_changes_text");
    obs.class_if(c.unseen.is_empty(), "no_unseen_documents");
    obs.class_if(!c.unseen.is_empty() && c.unseen.len() != c.train.len(), "unseen_corpus_other_size");
    let unseen_oov = r.unseen.iter().any(|d| d.keys().any(|g| !r.candidates.contains_key(g)));
    obs.class_if(unseen_oov, "unseen_has_oov_ngram");
    if c.fixed_vocab.is_some() {
        obs.class("fixed_vocabulary");
        return;
    }
    // learned vocabulary: which filters bite
    let n = c.train.len();
    obs.class_if(r.candidates.is_empty(), "no_candidates");
    if let Some(s) = &c.stopwords {
        obs.class("stopwords_given");
        let hit: Vec<&String> = s.iter().filter(|w| r.candidates.contains_key(*w)).collect();
        obs.class_if(!hit.is_empty(), "stopword_removes_candidate");
        obs.class_if(hit.iter().any(|w| w.contains(' ')), "stopword_is_multi_token_ngram");
        obs.class_if(
            hit.iter().any(|w| !w.contains(' ') && r.admitted.keys().any(|g| g.split(' ').any(|t| t == w.as_str()) && g.contains(' '))),
            "stopword_token_survives_inside_ngram",
        );
    }
    let default_window = r.window.0 == 0 && r.window.1 >= n;
    obs.class_if(default_window, "df_window_open");
    obs.class_if(r.candidates.values().any(|cd| cd.df < r.window.0), "df_min_removes_candidate");
    obs.class_if(r.candidates.values().any(|cd| cd.df > r.window.1), "df_max_removes_candidate");
    obs.class_if(r.candidates.values().any(|cd| cd.df == r.window.0 && r.window.0 > 0), "df_exactly_at_min");
    obs.class_if(r.candidates.values().any(|cd| cd.df == r.window.1 && r.window.1 < n), "df_exactly_at_max");
    // observational: floor() admits an entry whose exact relative frequency is below min_df
    let lo = reference::df_value(&c.df.0, n) as f64;
    obs.class_if(
        n > 0 && r.admitted.values().any(|df| (*df as f64) / (n as f64) < lo),
        "observed_floor_admits_relative_df_below_min",
    );
    let mut removed = r.candidates.len() - r.admitted.len();
    if let Some(cap) = c.max_features {
        obs.class("cap_given");
        if cap < r.admitted.len() {
            obs.class("cap_binding");
            removed += r.admitted.len() - cap;
            let mut dfs: Vec<usize> = r.admitted.values().copied().collect();
            dfs.sort_unstable_by(|a, b| b.cmp(a));
            if cap > 0 && dfs.get(cap - 1) == dfs.get(cap) {
                obs.class("cap_tie_at_boundary");
            }
        }
    }
    obs.class_if(removed > 0, "filter_removes_candidate");
    obs.class_if(removed == r.candidates.len() && removed > 0, "vocabulary_filtered_to_empty");
    obs.nontrivial_if(c.ngram.1 >= 2 && removed > 0);
}

/// observational class: under a binding cap the kept set is a top set by document frequency (what the code and
/// DESIGN use) but not by total term count (what the builder's doc comment says)
fn observe_cap_order(c: &Case, r: &Reference, obs: &mut Obs, vocab: &[String]) {
    if let Some(cap) = c.max_features {
        if cap < r.admitted.len() {
            let set: BTreeSet<&String> = vocab.iter().collect();
            let total = |w: &String| r.candidates.get(w).map(|cd| cd.total).unwrap_or(0);
            let kept_min = vocab.iter().map(total).min();
            let dropped_max = r.admitted.keys().filter(|w| !set.contains(w)).map(total).max();
            if let (Some(k), Some(d)) = (kept_min, dropped_max) {
                obs.class_if(k < d, "observed_cap_order_differs_from_term_count_order");
            }
        }
    }
}

// ------------------------------------------------------------------------------------------------
// the check

/// Judge one case (learned or fixed vocabulary, count and tf-idf vectoriser, training and unseen documents).
pub fn check(c: &Case, obs: &mut Obs) {
    if !case::valid(c) {
        obs.skip("invalid_case_not_judged");
        return;
    }
    let r = Reference::new(c);
    classify(c, &r, obs);
    let n_train = c.train.len();
    let train = arr(&c.train);
    let unseen = arr(&c.unseen);

    // ---- count vectoriser
    let params = count_params(c, n_train);
    let fitted = match &c.fixed_vocab {
        None => obs.call("count_fit", || params.fit(&train)),
        Some(v) => obs.call("count_fit_vocabulary", || params.fit_vocabulary(&v[..])),
    };
    match fitted {
        None => {}
        Some(Err(e)) => obs.fail("count:fit-error-on-valid-settings", format!("fit returned Err({e})")),
        Some(Ok(cv)) => {
            let vocab: Vec<String> = cv.vocabulary().clone();
            let judge = match &c.fixed_vocab {
                None => {
                    observe_cap_order(c, &r, obs, &vocab);
                    judge_learned_vocab(c, &r, obs, "", &vocab, cv.nentries())
                }
                Some(v) => judge_fixed_vocab(obs, "", v, &vocab, cv.nentries()),
            };
            if judge {
                if let Some(res) = obs.call("count_transform", || cv.transform(&train)) {
                    match res {
                        Ok(m) => judge_counts(obs, "", "training", &vocab, &r.train, &m),
                        Err(e) => obs.fail("count:transform-error", format!("transform(training) returned Err({e})")),
                    }
                }
                if let Some(res) = obs.call("count_transform", || cv.transform(&unseen)) {
                    match res {
                        Ok(m) => judge_counts(obs, "", "unseen", &vocab, &r.unseen, &m),
                        Err(e) => obs.fail("count:transform-error", format!("transform(unseen) returned Err({e})")),
                    }
                }
            }
        }
    }

    // ---- tf-idf vectoriser (own fit, own column order)
    let (base, method) = match tfidf_with_method(&c.method) {
        Some(b) => (b, c.method.clone()),
        None => {
            obs.class("idf_method_not_constructible_fell_back_to_smooth");
            (TfIdfVectorizer::default(), Idf::Smooth)
        }
    };
    let tparams = tfidf_params(c, n_train, base);
    let tfitted: Option<Result<FittedTfIdfVectorizer, _>> = match &c.fixed_vocab {
        None => obs.call("tfidf_fit", || tparams.fit(&train)),
        Some(v) => obs.call("tfidf_fit_vocabulary", || tparams.fit_vocabulary(&v[..])),
    };
    match tfitted {
        None => {}
        Some(Err(e)) => obs.fail("tfidf:fit-error-on-valid-settings", format!("fit returned Err({e})")),
        Some(Ok(tv)) => {
            let want_method = match method {
                Idf::Smooth => TfIdfMethod::Smooth,
                Idf::NonSmooth => TfIdfMethod::NonSmooth,
                Idf::Textbook => TfIdfMethod::Textbook,
            };
            obs.ensure(*tv.method() == want_method, "tfidf:method-not-kept", || {
                format!("fitted vectoriser reports method {:?}, configured {:?}", tv.method(), want_method)
            });
            let vocab: Vec<String> = tv.vocabulary().clone();
            let judge = match &c.fixed_vocab {
                None => judge_learned_vocab(c, &r, obs, "tfidf:", &vocab, tv.nentries()),
                Some(v) => judge_fixed_vocab(obs, "tfidf:", v, &vocab, tv.nentries()),
            };
            if judge {
                if let Some(res) = obs.call("tfidf_transform", || tv.transform(&train)) {
                    match res {
                        Ok(m) => judge_tfidf(obs, "training", &method, &vocab, &r.train, &m),
                        Err(e) => obs.fail("tfidf:transform-error", format!("transform(training) returned Err({e})")),
                    }
                }
                if let Some(res) = obs.call("tfidf_transform", || tv.transform(&unseen)) {
                    match res {
                        Ok(m) => judge_tfidf(obs, "unseen", &method, &vocab, &r.unseen, &m),
                        Err(e) => obs.fail("tfidf:transform-error", format!("transform(unseen) returned Err({e})")),
                    }
                }
            }
        }
    }
}

/// `fit_vocabulary(words)`: the vocabulary is the set of the given words (settings are documented to be ignored).
fn judge_fixed_vocab(obs: &mut Obs, pre: &str, given: &[String], vocab: &[String], nentries: usize) -> bool {
    let want: BTreeSet<&String> = given.iter().collect();
    let got: BTreeSet<&String> = vocab.iter().collect();
    let ok = obs.ensure(got.len() == vocab.len(), &format!("{pre}fixed:duplicate-entry"), || {
        format!("vocabulary() lists an entry twice: {:?}", vocab)
    });
    obs.ensure(got == want, &format!("{pre}fixed:vocabulary-differs"), || {
        format!("fit_vocabulary({:?}) produced vocabulary {:?}", given, vocab)
    });
    obs.ensure(nentries == vocab.len(), &format!("{pre}fixed:nentries"), || {
        format!("nentries() = {nentries}, vocabulary() has {} entries", vocab.len())
    });
    obs.class_if(want.len() < given.len(), "fixed_vocabulary_with_duplicates");
    obs.class_if(given.is_empty(), "fixed_vocabulary_empty");
    ok
}

// ------------------------------------------------------------------------------------------------
// idf formula on its own (all three methods are public through `TfIdfMethod::compute_idf`)

#[derive(Debug, Clone, Serialize, Deserialize)]
pub struct IdfCase {
    pub method: Idf,
    pub n: usize,
    pub df: usize,
}

pub fn check_idf(c: &IdfCase, obs: &mut Obs) {
    if c.n == 0 || (c.method == Idf::NonSmooth && c.df == 0) {
        // n = 0: no documents, no entries; NonSmooth with df = 0: documented division by zero
        obs.skip("idf_outside_documented_domain");
        return;
    }
    obs.class(match c.method {
        Idf::Smooth => "idf_smooth",
        Idf::NonSmooth => "idf_nonsmooth",
        Idf::Textbook => "idf_textbook",
    });
    obs.class_if(c.df == c.n, "df_equals_n");
    obs.class_if(c.df == 0, "df_zero");
    obs.nontrivial_if(c.df != c.n);
    let m = match c.method {
        Idf::Smooth => TfIdfMethod::Smooth,
        Idf::NonSmooth => TfIdfMethod::NonSmooth,
        Idf::Textbook => TfIdfMethod::Textbook,
    };
    if let Some(got) = obs.call("compute_idf", || m.compute_idf(c.n, c.df)) {
        let (want, lnmag) = reference::idf(&c.method, c.n, c.df);
        let tol = IDF_REL * (lnmag + 1.0) + IDF_TINY;
        obs.ensure(got == want || (got.is_finite() && (got - want).abs() <= tol), "idf:formula", || {
            format!("compute_idf({:?}, n = {}, df = {}) = {got}, documented formula gives {want}", c.method, c.n, c.df)
        });
    }
}

fn idf_cases(t: Tier) -> Vec<IdfCase> {
    let max_n = t.pick(24, 80);
    let mut v = vec![];
    for method in [Idf::Smooth, Idf::NonSmooth, Idf::Textbook] {
        for n in 1..=max_n {
            for df in 0..=n {
                v.push(IdfCase { method: method.clone(), n, df });
            }
        }
    }
    v
}

// ------------------------------------------------------------------------------------------------
// enumerations

fn word(k: usize) -> String {
    format!("w{}", (b'a' + (k % 26) as u8) as char)
}

fn plain_case(train: Vec<String>) -> Case {
    Case {
        train,
        unseen: vec![],
        lowercase: true,
        normalize: true,
        tok: Tok::Default,
        ngram: (1, 1),
        stopwords: None,
        df: (Df::Zero, Df::One),
        max_features: None,
        fixed_vocab: None,
        method: Idf::Smooth,
    }
}

/// For n documents, word k (1..=n) occurs in exactly the first k documents (and (d+1) times in document d), so every
/// document frequency 1..=n is present; every valid (min, max) pair of the window values is tried.
fn df_grid(t: Tier) -> Vec<Case> {
    let mut out = vec![];
    let max_n = t.pick(8, 12);
    for n in 1..=max_n {
        let docs: Vec<String> = (0..n)
            .map(|d| {
                let mut s = String::new();
                for k in 1..=n {
                    if d < k {
                        for _ in 0..=(d % 3) {
                            s.push_str(&word(k));
                            s.push(' ');
                        }
                    }
                }
                s
            })
            .collect();
        let mut vals = vec![Df::Zero, Df::Lit034, Df::Half, Df::Lit067, Df::One];
        for k in 1..=n {
            vals.push(Df::KOverN(k as u8));
        }
        for a in &vals {
            for b in &vals {
                if reference::df_value(a, n) > reference::df_value(b, n) {
                    continue;
                }
                for (gi, ngram) in [(1usize, 1usize), (1, 2)].iter().enumerate() {
                    let mut c = plain_case(docs.clone());
                    c.df = (a.clone(), b.clone());
                    c.ngram = *ngram;
                    c.method = case::method_of((n + gi) as u8);
                    c.unseen = vec![docs[0].clone(), "wa zz wb".to_string()];
                    out.push(c);
                }
            }
        }
    }
    out
}

/// Every n-gram range against documents of 0..=6 tokens (distinct / identical / alternating tokens), two tokenizers,
/// with and without a stop word that is itself a bigram.
fn ngram_grid(t: Tier) -> Vec<Case> {
    let mut out = vec![];
    let max_len = t.pick(6, 9);
    for range in case::NGRAM_RANGES {
        for len in 0..=max_len {
            for pattern in 0..3 {
                let toks: Vec<String> = (0..len)
                    .map(|i| match pattern {
                        0 => word(i),
                        1 => word(0),
                        _ => word(i % 2),
                    })
                    .collect();
                let doc = toks.join(" ");
                for tok in [Tok::Default, Tok::FnWhitespace] {
                    for stop in [false, true] {
                        let mut c = plain_case(vec![doc.clone(), "wa wb".to_string(), String::new()]);
                        c.ngram = range;
                        c.tok = tok.clone();
                        c.unseen = vec![format!("{doc} wa"), "wb wa wb".to_string()];
                        if stop {
                            c.stopwords = Some(vec!["wa wb".to_string(), "wb".to_string()]);
                        }
                        c.method = case::method_of((len + pattern) as u8);
                        out.push(c);
                    }
                }
            }
        }
    }
    out
}

/// Deterministic pseudo-random byte strings pushed through `case_from_bytes` (the libFuzzer entry): exercises the
/// decoder's totality and adds raw (lossy UTF-8) documents outside the word alphabet.
fn byte_cases(t: Tier) -> Vec<Case> {
    const SNIPPETS: [&[u8]; 20] = [
        b" ", b" ", b"a", b"b", b"A", b"B", b"ab", b"ba", b".", b", ", b"-", b"\n", b"x",
        "\u{e9}".as_bytes(), "e\u{301}".as_bytes(), "\u{fb01}".as_bytes(), "\u{130}".as_bytes(), "\u{2121}".as_bytes(), b"\xff", b"_1",
    ];
    let mut out = vec![];
    for i in 0..t.pick(4000u64, 40000u64) {
        let mut rng = vengine::gen::SplitMix(0xC17_0000 + i);
        let len = 60 + rng.below(240);
        let mut bytes: Vec<u8> = Vec::with_capacity(len + 8);
        // header: free bytes; body: snippets mixed with free bytes
        for _ in 0..9 {
            bytes.push(rng.next_u64() as u8);
        }
        if i % 2 == 0 {
            bytes[0] |= 0x80; // raw documents
        } else {
            bytes[0] &= 0x7f;
        }
        while bytes.len() < len {
            if rng.below(5) == 0 {
                bytes.push(rng.next_u64() as u8);
            } else {
                bytes.extend_from_slice(SNIPPETS[rng.below(SNIPPETS.len())]);
            }
        }
        if let Some(c) = case_from_bytes(&bytes) {
            out.push(c);
        }
    }
    out
}

pub fn property() -> Property {
    Property {
        id: "C17",
        rule: "cases = (training documents, unseen documents, lower-casing, NFKD, tokenizer (default regex | 2 other regexes | 2 function pointers), \
               n-gram range, stop words, relative df window, max_features, fixed vocabulary, idf method); documents are built from a 17-word \
               alphabet (mixed case, precomposed/decomposed/compatibility forms, a symbol whose NFKD is upper-case letters, a one-letter word) with space/punctuation separators, stop words \
               and fixed vocabularies are picked from the corpus' own n-grams plus out-of-vocabulary strings; plus enumerated grids over every \
               document frequency x window pair and every n-gram range x document length. Non-trivial = n-gram max >= 2 together with a filter \
               (stop words, df window or cap) that removes >= 1 candidate n-gram (idf grid: df != n); distinct = distinct canonical JSON of the case"
            .into(),
        assumptions: vec![
            "trusted base of the reference: unicode-normalization (NFKD), regex (find_iter with the same expression), str::to_lowercase; order NFKD then lower-case as in the documented settings list".into(),
            "an n-gram is its tokens joined by one space; occurrences are counted per window position".into(),
            "df window: an entry is admitted iff floor(min_df*n) <= df <= floor(max_df*n), products in f32 (DESIGN C17: conversion documented by behaviour and the crate's tests); min_df, max_df in [0,1], min <= max (documented domain)".into(),
            "stop words exclude whole vocabulary entries (documented: 'entries to be excluded'), not tokens before n-gram formation".into(),
            "max_features: any subset of the admitted set of size min(cap, |admitted|) whose smallest document frequency >= largest dropped one is accepted (ties may be broken arbitrarily); 'most frequent' is read as document frequency (DESIGN C17)".into(),
            "fit_vocabulary: the vocabulary is the set of the given words, all filters ignored (documented)".into(),
            format!("tf-idf entry = count * idf(n, df) over the transformed corpus, natural logarithm; tolerance {IDF_REL:e} * count * (|ln part| + 1) + {IDF_TINY:e}; entries with count 0 must be exactly 0 (so NonSmooth with df = 0 never enters)"),
            "idf methods other than Smooth are configured through the serde form of TfIdfVectorizer (no builder exists); if that fails the case is judged with Smooth and labelled".into(),
            "n-gram range 1 <= min <= max <= 3; 1..=8 (thorough 12) training documents of 0..=8 (12) tokens; fit_files/transform_files are not exercised".into(),
        ],
        subs: vec![
            prop_sub("learned_vocabulary", 30000, 300000, |t: Tier| case::case_strategy(t.pick(8, 12), t.pick(8, 12), false), check)
                .chunks(16)
                .require(&["cap_binding", "stopword_removes_candidate", "df_exactly_at_min", "df_exactly_at_max", "unseen_has_oov_ngram"]),
            prop_sub("fixed_vocabulary", 8000, 80000, |t: Tier| case::case_strategy(t.pick(8, 12), t.pick(8, 12), true), check)
                .require(&["fixed_vocabulary"]),
            enum_sub("df_window_grid", df_grid, check),
            enum_sub("ngram_window_grid", ngram_grid, check),
            enum_sub("byte_decoded_cases", byte_cases, check),
            enum_sub("idf_formula_grid", idf_cases, check_idf),
        ],
    }
}
