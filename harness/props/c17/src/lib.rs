//! C17 — stub (to be written; see /verif/harness/AUTHORING.md and DESIGN.md §3 C17)
use vengine::Property;

pub fn property() -> Property {
    Property { id: "C17", rule: "", assumptions: vec![], subs: vec![] }
}
