//! Independent reference pipeline for C17 (deliberately naive).
//!
//! transform string (NFKD, then lower-case) -> tokens (regex `find_iter` / function) -> n-grams by
//! explicit windowing -> per-document sets -> document frequency -> admission -> counts / idf.
//! Trusted base: `unicode-normalization`, `regex`, `str::to_lowercase`.

use crate::case::{Case, Df, Idf, Tok};
use regex::Regex;
use std::collections::{BTreeMap, BTreeSet};
use std::sync::OnceLock;
use unicode_normalization::UnicodeNormalization;

pub const RE_DEFAULT: &str = r"\b\w\w+\b";
pub const RE_NOSPACE: &str = r"\b[^ ][^ ]+\b";
pub const RE_WORD1: &str = r"\w+";

fn re(which: usize) -> &'static Regex {
    static R: [OnceLock<Regex>; 3] = [OnceLock::new(), OnceLock::new(), OnceLock::new()];
    let src = [RE_DEFAULT, RE_NOSPACE, RE_WORD1];
    let k = which.min(2);
    // the three literals above are valid expressions
    R[k].get_or_init(|| Regex::new(src[k]).expect("literal regex"))
}

/// Function tokenizers handed to linfa as function pointers (and used by the reference itself:
/// a user-supplied function *is* the definition of a token).
pub fn tok_whitespace(s: &str) -> Vec<&str> {
    s.split_whitespace().collect()
}
pub fn tok_split_space(s: &str) -> Vec<&str> {
    s.split(' ').collect()
}

pub fn transform_string(s: &str, normalize: bool, lowercase: bool) -> String {
    let mut t: String = s.to_string();
    if normalize {
        t = t.chars().nfkd().collect::<String>();
    }
    if lowercase {
        t = t.to_lowercase();
    }
    t
}

pub fn tokens(s: &str, tok: &Tok) -> Vec<String> {
    match tok {
        Tok::Default => re(0).find_iter(s).map(|m| m.as_str().to_string()).collect(),
        Tok::RegexNoSpace => re(1).find_iter(s).map(|m| m.as_str().to_string()).collect(),
        Tok::RegexWord1 => re(2).find_iter(s).map(|m| m.as_str().to_string()).collect(),
        Tok::FnWhitespace => tok_whitespace(s).into_iter().map(|x| x.to_string()).collect(),
        Tok::FnSplitSpace => tok_split_space(s).into_iter().map(|x| x.to_string()).collect(),
    }
}

/// All n-grams with `a <= n <= b`: for each n, every window of n consecutive tokens joined by one space.
pub fn ngrams(toks: &[String], a: usize, b: usize) -> Vec<String> {
    let mut out = Vec::new();
    if a == 0 {
        return out;
    }
    for n in a..=b {
        if toks.len() < n {
            continue;
        }
        for start in 0..=(toks.len() - n) {
            let mut s = String::new();
            for (k, t) in toks.iter().skip(start).take(n).enumerate() {
                if k > 0 {
                    s.push(' ');
                }
                s.push_str(t);
            }
            out.push(s);
        }
    }
    out
}

/// n-gram occurrence counts of one document under the case's settings.
pub fn doc_counts(doc: &str, c: &Case, range: (usize, usize)) -> BTreeMap<String, usize> {
    let t = transform_string(doc, c.normalize, c.lowercase);
    let toks = tokens(&t, &c.tok);
    let mut m = BTreeMap::new();
    for g in ngrams(&toks, range.0, range.1) {
        *m.entry(g).or_insert(0usize) += 1;
    }
    m
}

pub fn df_value(d: &Df, n: usize) -> f32 {
    match d {
        Df::Zero => 0.0,
        Df::One => 1.0,
        Df::Lit034 => 0.34,
        Df::Half => 0.5,
        Df::Lit067 => 0.67,
        Df::KOverN(k) => {
            if n == 0 {
                1.0
            } else {
                let k = (*k as usize).min(n);
                k as f32 / n as f32
            }
        }
    }
}

/// Absolute document-frequency window `floor(min_df * n) ..= floor(max_df * n)`, products taken in f32
/// (DESIGN C17: the conversion documented by behaviour and the crate's own tests).
pub fn abs_window(lo: f32, hi: f32, n: usize) -> (usize, usize) {
    let nf = n as f32;
    ((lo * nf).floor() as usize, (hi * nf).floor() as usize)
}

#[derive(Debug, Clone, Default)]
pub struct Cand {
    /// number of training documents containing the n-gram
    pub df: usize,
    /// total number of occurrences over the training corpus
    pub total: usize,
}

pub struct Reference {
    pub train: Vec<BTreeMap<String, usize>>,
    pub unseen: Vec<BTreeMap<String, usize>>,
    pub candidates: BTreeMap<String, Cand>,
    pub window: (usize, usize),
    pub stop: BTreeSet<String>,
    /// candidates that pass the df window and are not stop words -> df
    pub admitted: BTreeMap<String, usize>,
}

impl Reference {
    pub fn new(c: &Case) -> Reference {
        let train: Vec<_> = c.train.iter().map(|d| doc_counts(d, c, c.ngram)).collect();
        let unseen: Vec<_> = c.unseen.iter().map(|d| doc_counts(d, c, c.ngram)).collect();
        let mut candidates: BTreeMap<String, Cand> = BTreeMap::new();
        for d in &train {
            for (g, k) in d {
                let e = candidates.entry(g.clone()).or_default();
                e.df += 1;
                e.total += *k;
            }
        }
        let n = c.train.len();
        let window = abs_window(df_value(&c.df.0, n), df_value(&c.df.1, n), n);
        let stop: BTreeSet<String> = c.stopwords.clone().unwrap_or_default().into_iter().collect();
        let admitted = candidates
            .iter()
            .filter(|(g, cand)| cand.df >= window.0 && cand.df <= window.1 && !stop.contains(*g))
            .map(|(g, cand)| (g.clone(), cand.df))
            .collect();
        Reference { train, unseen, candidates, window, stop, admitted }
    }
}

/// Documented inverse document frequency (natural logarithm; the crate's unit test pins ln).
///   Smooth    ln((1+n)/(1+df)) + 1
///   NonSmooth ln(n/df) + 1
///   Textbook  ln(n/(1+df))
/// Returns (idf, magnitude of the logarithm part) — the latter scales the tolerance.
pub fn idf(method: &Idf, n: usize, df: usize) -> (f64, f64) {
    let (n, df) = (n as f64, df as f64);
    match method {
        Idf::Smooth => {
            let l = ((1.0 + n) / (1.0 + df)).ln();
            (l + 1.0, l.abs())
        }
        Idf::NonSmooth => {
            let l = (n / df).ln();
            (l + 1.0, l.abs())
        }
        Idf::Textbook => {
            let l = (n / (1.0 + df)).ln();
            (l, l.abs())
        }
    }
}
