//! LinearScaler: standard (4 variants), min-max, max-abs.

use crate::common::*;
use linfa::dataset::DatasetBase;
use linfa::traits::Fit;
use linfa_preprocessing::error::PreprocessingError;
use linfa_preprocessing::linear_scaling::{LinearScaler, LinearScalerParams, ScalingMethod};
use ndarray::{Array1, Array2};
use serde::{Deserialize, Serialize};
use vengine::Obs;

#[derive(Debug, Clone, Copy, PartialEq, Serialize, Deserialize)]
pub enum LinMethod {
    Standard { with_mean: bool, with_std: bool },
    MinMax { lo: f64, hi: f64 },
    MaxAbs,
}

#[derive(Debug, Clone, Serialize, Deserialize)]
pub struct LinearCase {
    pub method: LinMethod,
    pub c: Common,
}

/// A column whose spread measure (standard deviation / range / max |.|) is positive but not above
/// this multiple of the element type's epsilon is neither "constant" nor safely "non-constant" for
/// linfa's `abs_diff_eq!(spread, 0)` guard; its normalisation post-condition is not judged.
pub const GUARD_FACTOR: f64 = 4.0;

pub fn params<F: Elem>(m: LinMethod) -> LinearScalerParams<F> {
    LinearScalerParams::new(match m {
        LinMethod::Standard { with_mean, with_std } => ScalingMethod::Standard(with_mean, with_std),
        LinMethod::MinMax { lo, hi } => ScalingMethod::MinMax(F::n(lo), F::n(hi)),
        LinMethod::MaxAbs => ScalingMethod::MaxAbs,
    })
}

pub fn fit<F: Elem>(m: LinMethod, x: &Array2<F>, view: bool) -> Result<LinearScaler<F>, PreprocessingError> {
    let t: Array1<f64> = Array1::zeros(x.nrows());
    if view {
        params::<F>(m).fit(&DatasetBase::new(x.view(), t.view()))
    } else {
        params::<F>(m).fit(&DatasetBase::new(x.clone(), t))
    }
}

pub fn check(case: &LinearCase, obs: &mut Obs) {
    if !case.c.well_formed() || case.c.x.is_empty() {
        obs.skip("malformed_case");
        return;
    }
    if case.c.f32 {
        run::<f32>(case, obs)
    } else {
        run::<f64>(case, obs)
    }
}

fn run<F: Elem>(case: &LinearCase, obs: &mut Obs) {
    let c = &case.c;
    let p = c.p;
    classify_matrices(c, obs);
    let x: Array2<F> = build(&c.x, p, c.fortran);
    let y: Array2<F> = build(&c.y, p, c.fortran);
    let n = x.nrows();
    obs.class_if(n == 1, "single_training_row");
    obs.class(match case.method {
        LinMethod::Standard { with_mean: true, with_std: true } => "method_standard",
        LinMethod::Standard { with_mean: false, with_std: true } => "method_standard_no_mean",
        LinMethod::Standard { with_mean: true, with_std: false } => "method_standard_no_std",
        LinMethod::Standard { with_mean: false, with_std: false } => "method_standard_neither",
        LinMethod::MinMax { .. } => "method_min_max",
        LinMethod::MaxAbs => "method_max_abs",
    });
    let distinct_rows = c.x.iter().any(|r| r != &c.x[0]);
    obs.class_if(n >= 2 && !distinct_rows, "all_training_rows_equal");
    obs.class_if(distinct_rows, "two_distinct_training_rows");

    // ---- fit
    let fitted = match obs.call("fit", || fit::<F>(case.method, &x, c.meta.view)) {
        Some(f) => f,
        None => return,
    };
    let (lo, hi) = match case.method {
        LinMethod::MinMax { lo, hi } => (F::n(lo).w(), F::n(hi).w()),
        _ => (0.0, 0.0),
    };
    if let LinMethod::MinMax { .. } = case.method {
        obs.class_if(lo == hi, "minmax_degenerate_range");
        if lo > hi {
            obs.class("minmax_flipped_range");
            obs.nontrivial();
            match fitted {
                Err(PreprocessingError::FlippedMinMaxRange) => {}
                Err(e) => obs.fail(
                    "minmax:flipped-range-wrong-error",
                    format!("range ({lo}, {hi}) rejected with {e:?}, expected FlippedMinMaxRange"),
                ),
                Ok(_) => obs.fail("minmax:flipped-range-accepted", format!("range ({lo}, {hi}) was accepted by fit")),
            }
            return;
        }
    }
    let scaler = match fitted {
        Ok(s) => s,
        Err(e) => {
            obs.fail("linear:fit-error", format!("fit on {n} rows failed: {e:?}"));
            return;
        }
    };
    let off: Vec<f64> = scaler.offsets().iter().map(|v| v.w()).collect();
    let sc: Vec<f64> = scaler.scales().iter().map(|v| v.w()).collect();
    if !obs.ensure(off.len() == p && sc.len() == p, "linear:parameter-shape", || {
        format!("offsets/scales have lengths {}/{} for {p} features", off.len(), sc.len())
    }) {
        return;
    }
    if !obs.ensure(off.iter().chain(sc.iter()).all(|v| v.is_finite()), "linear:parameter-non-finite", || {
        format!("offsets {:?} scales {:?}", off, sc)
    }) {
        return;
    }
    obs.ensure(sc.iter().all(|s| *s > 0.0), "linear:scale-not-positive", || {
        format!("scales {:?}: a scaler multiplies by the inverse of a positive spread", sc)
    });

    // ---- post-conditions on the training data
    let zx = match obs.call("transform-training", || scaler.arr(x.clone())) {
        Some(z) => z,
        None => return,
    };
    if !obs.ensure(zx.dim() == (n, p), "linear:output-shape", || format!("shape {:?}", zx.dim())) {
        return;
    }
    let xw = widen(&x);
    let zw = widen(&zx);
    obs.ensure(zw.iter().flatten().all(|v| v.is_finite()), "linear:non-finite-output", || {
        "transform of the training data contains a non-finite value".to_string()
    });
    let eps = F::EPS;
    let guard = GUARD_FACTOR * eps;
    let mut degenerate = false;
    for j in 0..p {
        let xs = col_stats(&column(&xw, j));
        let zs = col_stats(&column(&zw, j));
        let zmag = column(&zw, j).iter().fold(0.0f64, |a, v| a.max(v.abs()));
        let constant = xs.min == xs.max;
        obs.class_if(constant && xs.maxabs == 0.0, "zero_column");
        obs.class_if(constant && xs.maxabs != 0.0, "constant_nonzero_column");
        degenerate |= constant;
        match case.method {
            LinMethod::Standard { with_mean, with_std } => {
                if constant {
                    // only centred: scale exactly one, output 0 (or the value itself without centring)
                    obs.ensure(sc[j] == 1.0, "standard:constant-column-scaled", || {
                        format!("column {j} is constant ({}) but its scale is {}", xs.min, sc[j])
                    });
                    let want = if with_mean { 0.0 } else { xs.min };
                    let tol = K_TOL * eps * xs.maxabs + F::TINY;
                    let worst = column(&zw, j).iter().fold(0.0f64, |a, v| a.max((v - want).abs()));
                    obs.ensure(worst <= tol, "standard:constant-column-not-centred", || {
                        format!("constant column {j} (value {}) maps to values up to {worst} away from {want} (tol {tol})", xs.min)
                    });
                } else if xs.std > guard {
                    // kappa: magnitude of the input expressed in output units
                    let kappa = xs.maxabs * sc[j].abs();
                    let tol = K_TOL * eps * (kappa + zmag + if with_mean { 0.0 } else { xs.maxabs }) + F::TINY;
                    obs.class_if(tol > 1e-3, "column_tolerance_above_1e-3");
                    obs.class_if(xs.maxabs > 50.0 * xs.std, "offset_column");
                    let want_mean = if with_mean { 0.0 } else { xs.mean };
                    obs.ensure((zs.mean - want_mean).abs() <= tol, "standard:mean", || {
                        format!(
                            "column {j} (with_mean={with_mean}, with_std={with_std}): output mean {} expected {want_mean} (tol {tol}, n={n})",
                            zs.mean
                        )
                    });
                    let want_std = if with_std { 1.0 } else { xs.std };
                    obs.ensure((zs.std - want_std).abs() <= tol, "standard:spread", || {
                        format!(
                            "column {j} (with_mean={with_mean}, with_std={with_std}): output population std {} expected {want_std} (tol {tol}, n={n})",
                            zs.std
                        )
                    });
                } else {
                    obs.class("column_spread_in_guard_band");
                }
            }
            LinMethod::MinMax { .. } => {
                let tol = K_TOL * eps * (lo.abs() + hi.abs() + (hi - lo).abs()) + F::TINY;
                if constant {
                    let worst = column(&zw, j).iter().fold(0.0f64, |a, v| a.max((v - lo).abs()));
                    obs.ensure(worst <= tol, "minmax:constant-column", || {
                        format!("constant column {j} maps up to {worst} away from the range minimum {lo}")
                    });
                } else if xs.max - xs.min > guard {
                    obs.ensure((zs.min - lo).abs() <= tol, "minmax:lower-end", || {
                        format!("column {j}: output minimum {} for requested range ({lo}, {hi}) (tol {tol})", zs.min)
                    });
                    obs.ensure((zs.max - hi).abs() <= tol, "minmax:upper-end", || {
                        format!("column {j}: output maximum {} for requested range ({lo}, {hi}) (tol {tol})", zs.max)
                    });
                } else {
                    obs.class("column_spread_in_guard_band");
                }
            }
            LinMethod::MaxAbs => {
                if xs.maxabs == 0.0 {
                    obs.ensure(zs.maxabs == 0.0, "maxabs:zero-column", || {
                        format!("all-zero column {j} maps to values up to {}", zs.maxabs)
                    });
                } else if xs.maxabs > guard {
                    obs.ensure((zs.maxabs - 1.0).abs() <= K_TOL * eps, "maxabs:not-one", || {
                        format!("column {j}: output max |.| = {} (input max |.| = {})", zs.maxabs, xs.maxabs)
                    });
                } else {
                    obs.class("column_spread_in_guard_band");
                }
            }
        }
    }
    obs.class_if(degenerate, "has_constant_or_zero_column");
    let zero_row = c.x.iter().any(|r| r.iter().all(|v| *v == 0.0));
    obs.class_if(zero_row, "zero_row_in_training");
    obs.nontrivial_if(degenerate || zero_row || (!c.y.is_empty() && c.y != c.x));

    // ---- the fitted transform is the affine map given by offsets()/scales(), on any matrix
    let reference = |v: f64, j: usize| -> (f64, f64) {
        let d = v - off[j];
        match case.method {
            LinMethod::Standard { with_mean: true, .. } | LinMethod::MaxAbs => {
                let r = d * sc[j];
                (r, r.abs())
            }
            LinMethod::Standard { with_mean: false, .. } => {
                let r = d * sc[j];
                (r + off[j], r.abs() + off[j].abs())
            }
            LinMethod::MinMax { .. } => {
                let r = d * sc[j] * (hi - lo);
                (r + lo, r.abs() + lo.abs())
            }
        }
    };
    let zy = match obs.call("transform-other", || scaler.arr(y.clone())) {
        Some(z) => z,
        None => return,
    };
    if !obs.ensure(zy.dim() == y.dim(), "linear:output-shape", || format!("shape {:?} for input {:?}", zy.dim(), y.dim())) {
        return;
    }
    for (name, inp, out) in [("training", &x, &zx), ("other", &y, &zy)] {
        let mut bad: Option<String> = None;
        for i in 0..inp.nrows() {
            for j in 0..p {
                let (want, mag) = reference(inp[(i, j)].w(), j);
                let got = out[(i, j)].w();
                let tol = K_TOL * eps * mag + F::TINY;
                if !((got - want).abs() <= tol) && bad.is_none() {
                    bad = Some(format!(
                        "{name} matrix entry ({i},{j}) = {:?}: transform gives {got}, the map from offsets()/scales() ({}, {}) gives {want} (tol {tol})",
                        inp[(i, j)],
                        off[j],
                        sc[j]
                    ));
                }
            }
        }
        if let Some(b) = bad {
            obs.fail("linear:not-the-affine-map", b);
        }
    }
    let exact = |_: usize, _: usize, a: f64, b: f64| (a.is_nan() && b.is_nan()) || a.to_bits() == b.to_bits();
    rowwise_and_dataset(&scaler, "linear", c, &y, &zy, &exact, obs);
}
