//! Shared pieces of the C16 sub-checks: element types, case data, array construction, the
//! row-selection and dataset pass-through obligations that every transformer has to meet.

use linfa::dataset::{AsTargets, DatasetBase};
use linfa::traits::Transformer;
use linfa_preprocessing::linear_scaling::LinearScaler;
use linfa_preprocessing::norm_scaling::NormScaler;
use linfa_preprocessing::whitening::FittedWhitener;
use ndarray::{Array1, Array2, ArrayView2, ShapeBuilder};
use serde::{Deserialize, Serialize};
use vengine::gen::{idx, perm_from_keys};
use vengine::Obs;

/// Multiplier of `eps * scale` in every float comparison of this property (DESIGN §1.5).
pub const K_TOL: f64 = 64.0;

pub trait Elem: linfa::Float {
    const EPS: f64;
    /// absolute floor of every tolerance (64 × smallest positive normal number)
    const TINY: f64;
    /// smallest positive normal number / largest finite number of the element type
    const MIN_POS: f64;
    const MAX: f64;
    fn w(self) -> f64;
    fn n(x: f64) -> Self;
}
impl Elem for f64 {
    const EPS: f64 = f64::EPSILON;
    const TINY: f64 = 64.0 * f64::MIN_POSITIVE;
    const MIN_POS: f64 = f64::MIN_POSITIVE;
    const MAX: f64 = f64::MAX;
    fn w(self) -> f64 {
        self
    }
    fn n(x: f64) -> Self {
        x
    }
}
impl Elem for f32 {
    const EPS: f64 = f32::EPSILON as f64;
    const TINY: f64 = 64.0 * f32::MIN_POSITIVE as f64;
    const MIN_POS: f64 = f32::MIN_POSITIVE as f64;
    const MAX: f64 = f32::MAX as f64;
    fn w(self) -> f64 {
        self as f64
    }
    fn n(x: f64) -> Self {
        x as f32
    }
}

#[derive(Debug, Clone, Copy, PartialEq, Eq, Serialize, Deserialize)]
pub enum TargetKind {
    /// `Array1<f64>`
    Float1,
    /// `Array2<f64>` with this many columns (1..=3)
    Float2(usize),
    /// `Array1<usize>`
    Labels,
}

#[derive(Debug, Clone, Serialize, Deserialize)]
pub struct Meta {
    pub targets: TargetKind,
    pub weights: bool,
    pub feature_names: bool,
    pub target_names: bool,
    /// hand the transformer a dataset whose records are an `ArrayView2`
    pub view: bool,
}

/// What every case carries besides the transformer configuration.
#[derive(Debug, Clone, Serialize, Deserialize)]
pub struct Common {
    /// element type f32 (values below are already rounded to f32) or f64
    pub f32: bool,
    /// column-major storage of the arrays handed to linfa
    pub fortran: bool,
    pub p: usize,
    /// training matrix (n × p); empty for the norm scaler, which is not fitted
    pub x: Vec<Vec<f64>>,
    /// the matrix to transform (m × p), in general not the training matrix
    pub y: Vec<Vec<f64>>,
    /// row selection out of `y` (mapped monotonically into 0..m, repeats allowed) ...
    pub sel: Vec<u16>,
    /// ... or, when set, a permutation of all rows of `y` decoded from `sel` as sort keys
    pub sel_perm: bool,
    pub meta: Meta,
}

impl Common {
    pub fn well_formed(&self) -> bool {
        self.p >= 1
            && self.p <= 8
            && self.x.iter().chain(self.y.iter()).all(|r| r.len() == self.p && r.iter().all(|v| v.is_finite()))
            && matches!(self.meta.targets, TargetKind::Float1 | TargetKind::Labels | TargetKind::Float2(1..=4))
    }
    pub fn selection(&self) -> Vec<usize> {
        let m = self.y.len();
        if m == 0 {
            return vec![];
        }
        if self.sel_perm {
            perm_from_keys(&self.sel, m)
        } else {
            self.sel.iter().map(|&k| idx(k, m)).collect()
        }
    }
}

pub fn build<F: Elem>(rows: &[Vec<f64>], p: usize, fortran: bool) -> Array2<F> {
    let n = rows.len();
    let get = |i: usize, j: usize| F::n(rows.get(i).and_then(|r| r.get(j)).copied().unwrap_or(0.0));
    if fortran {
        Array2::from_shape_fn((n, p).f(), |(i, j)| get(i, j))
    } else {
        Array2::from_shape_fn((n, p), |(i, j)| get(i, j))
    }
}

pub fn select_rows<F: Elem>(a: &Array2<F>, sel: &[usize], fortran: bool) -> Array2<F> {
    let p = a.ncols();
    let f = |(i, j): (usize, usize)| a[(sel[i], j)];
    if fortran {
        Array2::from_shape_fn((sel.len(), p).f(), f)
    } else {
        Array2::from_shape_fn((sel.len(), p), f)
    }
}

pub fn widen<F: Elem>(a: &Array2<F>) -> Vec<Vec<f64>> {
    a.rows().into_iter().map(|r| r.iter().map(|v| v.w()).collect()).collect()
}

/// equal as IEEE values with all NaNs identified (used where both sides run the same arithmetic)
pub fn same_bits<F: Elem>(a: F, b: F) -> bool {
    let (a, b) = (a.w(), b.w());
    (a.is_nan() && b.is_nan()) || a.to_bits() == b.to_bits()
}

/// The three fitted transformers behind one interface.
pub trait RowMap<F: Elem> {
    fn arr(&self, x: Array2<F>) -> Array2<F>;
    fn ds<T: AsTargets>(&self, d: DatasetBase<Array2<F>, T>) -> DatasetBase<Array2<F>, T>;
    fn ds_view<'a, T: AsTargets>(&self, d: DatasetBase<ArrayView2<'a, F>, T>) -> DatasetBase<Array2<F>, T>;
}

macro_rules! impl_rowmap {
    ($ty:ty) => {
        impl<F: Elem> RowMap<F> for $ty {
            fn arr(&self, x: Array2<F>) -> Array2<F> {
                self.transform(x)
            }
            fn ds<T: AsTargets>(&self, d: DatasetBase<Array2<F>, T>) -> DatasetBase<Array2<F>, T> {
                self.transform(d)
            }
            fn ds_view<'a, T: AsTargets>(&self, d: DatasetBase<ArrayView2<'a, F>, T>) -> DatasetBase<Array2<F>, T> {
                self.transform(d)
            }
        }
    };
}
impl_rowmap!(LinearScaler<F>);
impl_rowmap!(NormScaler);
impl_rowmap!(FittedWhitener<F>);

fn feature_names(p: usize) -> Vec<String> {
    (0..p).map(|j| format!("feature-{j}")).collect()
}
fn target_names(t: usize) -> Vec<String> {
    (0..t).map(|j| format!("target-{j}")).collect()
}
fn weights(m: usize) -> Array1<f32> {
    Array1::from_shape_fn(m, |i| 0.5 + i as f32)
}

/// `cmp(row of y, column, a, b)`: are two outputs for that entry the same?
pub type Cmp<'a> = &'a dyn Fn(usize, usize, f64, f64) -> bool;

fn dataset_with_targets<F, M, T>(
    map: &M,
    fam: &str,
    c: &Common,
    y: &Array2<F>,
    zy: &Array2<F>,
    targets: T,
    ntargets: usize,
    cmp: Cmp,
    obs: &mut Obs,
) where
    F: Elem,
    M: RowMap<F>,
    T: AsTargets + Clone + PartialEq,
{
    let (m, p) = y.dim();
    let w = weights(m);
    let out = if c.meta.view {
        let mut d = DatasetBase::new(y.view(), targets.clone());
        if c.meta.weights {
            d = d.with_weights(w.clone());
        }
        if c.meta.feature_names {
            d = d.with_feature_names(feature_names(p));
        }
        if c.meta.target_names {
            d = d.with_target_names(target_names(ntargets));
        }
        obs.call("transform-dataset", || map.ds_view(d))
    } else {
        let mut d = DatasetBase::new(y.clone(), targets.clone());
        if c.meta.weights {
            d = d.with_weights(w.clone());
        }
        if c.meta.feature_names {
            d = d.with_feature_names(feature_names(p));
        }
        if c.meta.target_names {
            d = d.with_target_names(target_names(ntargets));
        }
        obs.call("transform-dataset", || map.ds(d))
    };
    let Some(out) = out else { return };
    let r = out.records();
    if obs.ensure(r.dim() == zy.dim(), &format!("{fam}:dataset-records"), || {
        format!("dataset form returned records of shape {:?}, array form {:?}", r.dim(), zy.dim())
    }) {
        let mut bad = None;
        for i in 0..m {
            for j in 0..p {
                if !cmp(i, j, r[(i, j)].w(), zy[(i, j)].w()) && bad.is_none() {
                    bad = Some((i, j));
                }
            }
        }
        obs.ensure(bad.is_none(), &format!("{fam}:dataset-records"), || {
            let (i, j) = bad.unwrap_or((0, 0));
            format!(
                "records of the transformed dataset differ from transform(array) at ({i},{j}): {:?} vs {:?}",
                r[(i, j)],
                zy[(i, j)]
            )
        });
    }
    obs.ensure(out.targets() == &targets, &format!("{fam}:dataset-targets"), || {
        "targets changed by the dataset transform".to_string()
    });
    let want_w: Option<Vec<f32>> = if c.meta.weights && m > 0 { Some(w.to_vec()) } else { None };
    let got_w = out.weights().map(|s| s.to_vec());
    obs.ensure(got_w == want_w, &format!("{fam}:dataset-weights"), || {
        format!("weights after the dataset transform {:?}, before {:?}", got_w, want_w)
    });
    let want_f = if c.meta.feature_names { feature_names(p) } else { vec![] };
    obs.ensure(out.feature_names() == want_f.as_slice(), &format!("{fam}:dataset-feature-names"), || {
        format!("feature names after the dataset transform {:?}, before {:?}", out.feature_names(), want_f)
    });
    let want_t = if c.meta.target_names { target_names(ntargets) } else { vec![] };
    obs.ensure(out.target_names() == want_t.as_slice(), &format!("{fam}:dataset-target-names"), || {
        format!("target names after the dataset transform {:?}, before {:?}", out.target_names(), want_t)
    });
}

/// Obligations common to all transformers, on the matrix `y` (not the training matrix in general):
/// the map commutes with row selection / reordering, and the dataset form applies the same map to
/// the records while targets, weights, feature and target names pass through unchanged.
/// `zy` = `transform(y)` in array form, already computed by the caller.
pub fn rowwise_and_dataset<F: Elem, M: RowMap<F>>(
    map: &M,
    fam: &str,
    c: &Common,
    y: &Array2<F>,
    zy: &Array2<F>,
    cmp: Cmp,
    obs: &mut Obs,
) {
    let (m, p) = y.dim();
    // (1) selection / permutation
    let sel = c.selection();
    obs.class_if(sel.is_empty(), "selection_empty");
    obs.class_if(c.sel_perm && m >= 2, "selection_is_permutation");
    {
        let mut seen = vec![false; m];
        let mut rep = false;
        for &s in &sel {
            if let Some(f) = seen.get_mut(s) {
                rep |= *f;
                *f = true;
            }
        }
        obs.class_if(rep, "selection_repeats_rows");
    }
    if sel.iter().all(|&s| s < m) {
        let ys = select_rows(y, &sel, c.fortran);
        if let Some(zs) = obs.call("transform-selection", || map.arr(ys)) {
            if obs.ensure(zs.dim() == (sel.len(), p), &format!("{fam}:row-selection"), || {
                format!("transform of {} selected rows has shape {:?}", sel.len(), zs.dim())
            }) {
                let mut bad = None;
                for (r, &s) in sel.iter().enumerate() {
                    for j in 0..p {
                        if !cmp(s, j, zs[(r, j)].w(), zy[(s, j)].w()) && bad.is_none() {
                            bad = Some((r, s, j));
                        }
                    }
                }
                obs.ensure(bad.is_none(), &format!("{fam}:row-selection"), || {
                    let (r, s, j) = bad.unwrap_or((0, 0, 0));
                    format!(
                        "transform(select(Y, {:?}))[{r},{j}] = {:?} but transform(Y)[{s},{j}] = {:?}",
                        sel,
                        zs[(r, j)],
                        zy[(s, j)]
                    )
                });
            }
        }
    }
    // (2) dataset form
    obs.class_if(c.meta.view, "dataset_view_backed");
    obs.class_if(c.meta.weights, "dataset_weights");
    obs.class_if(c.meta.feature_names, "dataset_feature_names");
    obs.class_if(c.meta.target_names, "dataset_target_names");
    match c.meta.targets {
        TargetKind::Float1 => {
            obs.class("targets_float_1d");
            let t = Array1::from_shape_fn(m, |i| 100.0 + i as f64);
            dataset_with_targets(map, fam, c, y, zy, t, 1, cmp, obs);
        }
        TargetKind::Float2(k) => {
            obs.class("targets_float_2d");
            let t = Array2::from_shape_fn((m, k), |(i, c)| 100.0 * (c as f64 + 1.0) + i as f64);
            dataset_with_targets(map, fam, c, y, zy, t, k, cmp, obs);
        }
        TargetKind::Labels => {
            obs.class("targets_labels");
            let t: Array1<usize> = Array1::from_shape_fn(m, |i| (i * 7 + 3) % 5);
            dataset_with_targets(map, fam, c, y, zy, t, 1, cmp, obs);
        }
    }
}

/// corrected two-pass mean and population standard deviation, min, max, max |.|
#[derive(Debug, Clone, Copy)]
pub struct ColStats {
    pub mean: f64,
    pub std: f64,
    pub min: f64,
    pub max: f64,
    pub maxabs: f64,
}

pub fn col_stats(v: &[f64]) -> ColStats {
    let n = v.len().max(1) as f64;
    let m0 = v.iter().sum::<f64>() / n;
    let mean = m0 + v.iter().map(|x| x - m0).sum::<f64>() / n;
    let s1: f64 = v.iter().map(|x| x - mean).sum();
    let s2: f64 = v.iter().map(|x| (x - mean) * (x - mean)).sum();
    let var = ((s2 - s1 * s1 / n) / n).max(0.0);
    ColStats {
        mean,
        std: var.sqrt(),
        min: v.iter().copied().fold(f64::INFINITY, f64::min),
        max: v.iter().copied().fold(f64::NEG_INFINITY, f64::max),
        maxabs: v.iter().fold(0.0, |a, x| a.max(x.abs())),
    }
}

pub fn column(m: &[Vec<f64>], j: usize) -> Vec<f64> {
    m.iter().map(|r| r.get(j).copied().unwrap_or(0.0)).collect()
}

/// labels shared by all sub-checks, derived from the data itself
pub fn classify_matrices(c: &Common, obs: &mut Obs) {
    obs.class_if(c.f32, "elem_f32");
    obs.class_if(!c.f32, "elem_f64");
    obs.class_if(c.fortran, "layout_column_major");
    obs.class_if(c.y.is_empty(), "transform_empty_matrix");
    obs.class_if(c.y != c.x && !c.y.is_empty(), "transform_other_than_training");
    obs.class_if(c.y.iter().any(|r| !c.x.contains(r)), "transform_has_unseen_rows");
    obs.class_if(c.y.iter().any(|r| r.iter().all(|v| *v == 0.0)), "zero_row_in_transform_input");
    obs.class_if(c.p == 1, "p_eq_1");
}
