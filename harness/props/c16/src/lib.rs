//! C16 — scalers and whiteners achieve their normalisation and act as fixed row-wise maps.
//!
//! Four sub-checks: `whiten` (PCA / ZCA / Cholesky on full-rank data), `linear` (standard ×4,
//! min-max, max-abs), `norm` (L1 / L2 / Max row normalisation) and the finite enumeration `rejects`
//! (empty training data, flipped min-max range). Every case fits on one matrix, transforms it and a
//! second matrix, and compares against reference statistics computed in f64 by the harness' own
//! naive code; the selection / dataset pass-through obligations are shared (`common.rs`).

pub mod common;
pub mod gens;
pub mod linear;
pub mod norm;
pub mod rejects;
pub mod whiten;

use vengine::{enum_sub, prop_sub, Property, Tier};

pub fn property() -> Property {
    Property {
        id: "C16",
        rule: "case = (element type f32|f64, row- or column-major storage, transformer configuration, training matrix X (n 1..=40, p 1..=5; \
               columns drawn per column as gaussian*scale(10^-6..10^6)+offset, small-integer grid, constant, or all-zero; all-zero and repeated rows), \
               a second matrix Y to transform (copies of training rows, unseen rows up to ten times wider, all-zero rows, possibly empty), a row \
               selection or permutation of Y, dataset metadata (target kind, weights, feature names, target names, view-backed records)). \
               Whitening cases construct full-rank X = (G*d)R + mu with n >= p+2. Non-trivial = X has a constant or all-zero column or an all-zero row, \
               or the transformed matrix is non-empty and not the training matrix (norm scaler: any non-empty matrix); every enumerated rejection case \
               is non-trivial; distinct = distinct canonical JSON of the case",
        assumptions: vec![
            format!("float comparisons against the harness' f64 reference use |a-b| <= {}*eps*scale + tiny, eps = machine epsilon of the element type, scale = sum of the magnitudes entering the expression (for column statistics: input magnitude in output units + output magnitude)", common::K_TOL),
            format!("a column whose spread (population std / range / max|.|) is positive but <= {}*eps in absolute terms falls into linfa's abs_diff_eq!(spread, 0) guard and is not judged for its normalisation post-condition (domain limit, DESIGN C16 R); exactly constant columns are judged as constant", linear::GUARD_FACTOR),
            "constant columns: standard scaling must use scale exactly 1 (centred only), min-max must map them to the range minimum, max-abs must leave an all-zero column zero (linfa doc comments and unit tests)".into(),
            "scales() of a fitted linear scaler must be positive (documented as the inverse of a standard deviation / range / max |.|)".into(),
            "generated entries are 0 or have magnitude within about 3e-13..7e12 (f32: ..7e9); the norm sub-check additionally scales about a third of the rows of 40 % of its cases down to the subnormal range and its borders (largest |entry| around MIN_POSITIVE, around 1/MAX where a reciprocal of the norm overflows, 1e-310, 1e-320, 5e-324; f32 1e-38..1.4e-45) and to the square root of MIN_POSITIVE. Finite output is demanded for every row. Unit norm and row/norm are demanded with the ordinary tolerance for every non-zero row under L1 and Max (sums and maxima of subnormals are exact, the quotient of two exact operands is correctly rounded and normal, so no extra slack is needed) and under L2 only where sum(y^2) >= 8*MIN_POSITIVE of the element type: below that the squares underflow (the computed norm loses relative accuracy and reaches exactly 0 for subnormal rows, which linfa treats like an all-zero row), the L2 norm is not representable by the arithmetic and only finiteness is demanded. Large magnitudes near overflow are not generated".into(),
            format!("whitening is judged only on training data with sample-covariance eigenvalues lambda_min > 0, sqrt((n-1) lambda_min) >= {:e} and lambda_max <= {:e} (linfa clamps singular values / inverse roots at the absolute value 1e-8; data near the clamp are a stated domain limit), and only where the covariance tolerance {}*eps*(n+p)*p*cond + 4*(32*eps*max|x|/sqrt(lambda_min))^2 is <= {:e}; other cases are counted as not judged", whiten::CLAMP_SINGULAR_MIN, whiten::CLAMP_EIGEN_MAX, whiten::K_COV, whiten::COV_TOL_MAX),
            "a covariance deviation of PCA/ZCA whitening is attributed to the known sporadic non-convergence of linfa-linalg's SVD (signature whiten:svd-sporadic-inaccuracy) only if the returned matrix still has the form the formula guarantees whatever the SVD returns (ZCA symmetric, PCA rows mutually orthogonal) and a fresh fit on at least one re-presentation of the same data (features rotated by 1..p-1 or reversed, rows reversed, other storage order; never re-centred or rescaled) whitens within tolerance. Argument: a wrong formula (n for n-1, missing rotation, missing or wrong centring) yields a transform that is a function of the exact sample covariance, equivariant under these permutations, so its deviation is the same on every presentation and can never be cured by one; every other deviation, all Cholesky and all p = 1 deviations are whiten:covariance-not-identity".into(),
            format!("whiten_pca_batch: a case is a batch of {} independent tall (n >= 10 p, p 2..=5, n <= 120) full-rank data sets derived from one seed, spread ratio between the principal directions 1e3..1e4 in f64 (covariance condition 1e6..1e8) and 1e2..10^2.5 in f32; the verdict is on the MEDIAN over the batch of s = max|cov(Z) - I| / (eps * sqrt(cond)), which must be <= {} (an SVD of the centred records is accurate to eps*sqrt(cond); measured on the unchanged tree: median s 0.4..0.5, s > 30 in 0.47 % of single fits because of the heavy-tailed error of linfa-linalg's SVD, hence the median and a false-alarm probability below 2e-8 per case); a single inaccurate fit inside a batch is counted (class pca_batch_has_an_outlier_fit), not reported", whiten::BATCH, whiten::MEDIAN_S_MAX),
            "row selection must commute bit-for-bit for the element-wise scalers (same arithmetic on both sides, NaNs identified); for whitening (a matrix product) within twice the dot-product tolerance".into(),
            "an all-zero row given to the norm scaler must come back finite and, being a rescaling of the zero vector, all-zero".into(),
            "trusted base: ndarray, vengine::num (covariance, Jacobi eigenvalues), proptest".into(),
        ],
        subs: vec![
            prop_sub("whiten", 100_000, 1_000_000, |t: Tier| gens::whiten_cases(t), whiten::check)
                .chunks(16)
                .require(&["method_pca", "method_zca", "method_cholesky", "elem_f32", "elem_f64", "transform_has_unseen_rows"]),
            prop_sub("whiten_pca_batch", 6_000, 60_000, |_t: Tier| whiten::pca_batch_cases(), whiten::check_pca_batch)
                .chunks(8)
                .require(&["pca_batch_tall_ill_conditioned", "pca_batch_cond_ge_1e6", "elem_f32", "elem_f64"]),
            prop_sub("linear", 160_000, 1_600_000, |t: Tier| gens::linear_cases(t), linear::check)
                .chunks(16)
                .require(&[
                    "zero_column",
                    "constant_nonzero_column",
                    "minmax_flipped_range",
                    "minmax_degenerate_range",
                    "single_training_row",
                    "transform_has_unseen_rows",
                    "elem_f32",
                    "elem_f64",
                ]),
            prop_sub("norm", 80_000, 800_000, |t: Tier| gens::norm_cases(t), norm::check)
                .chunks(8)
                .require(&["has_zero_row", "norm_l1", "norm_l2", "norm_max", "elem_f32", "elem_f64", "reciprocal_of_row_norm_overflows", "row_norm_subnormal", "l2_squares_underflow_unit_norm_not_judged"]),
            enum_sub("rejects", |_t: Tier| rejects::cases(), rejects::check).chunks(1),
        ],
    }
}
