//! C16 — stub (to be written; see /verif/harness/AUTHORING.md and DESIGN.md §3 C16)
use vengine::Property;

pub fn property() -> Property {
    Property { id: "C16", rule: "", assumptions: vec![], subs: vec![] }
}
