fn main() {
    vengine::main(c16::property())
}
