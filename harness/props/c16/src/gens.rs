//! Generators. Every case is *constructed* from a small spec (column kinds, raw gaussians, flags);
//! the strategy maps the spec to concrete matrices so replay files hold plain numbers.

use crate::common::{Common, Meta, TargetKind};
use crate::linear::{LinMethod, LinearCase};
use crate::norm::{NormCase, NormKind};
use crate::whiten::{WhKind, WhitenCase};
use proptest::prelude::*;
use vengine::gen::{gauss, idx};
use vengine::Tier;

const MAXP: usize = 5;

/// offsets in units of the column scale; f32 cases use the first `F32_OFFSETS` only
const OFFSETS: [f64; 10] = [0.0, 1.0, -1.0, 3.5, -20.0, 100.0, -1000.0, 1.0e4, -1.0e5, 1.0e6];
const F32_OFFSETS: usize = 7;
const MANTISSAS: [f64; 4] = [1.0, 2.5, 7.0, 0.3];
const CONSTANTS: [f64; 8] = [1.0, -1.0, 0.1, 3.3, -7.0, 1000.3, 0.5, 123456.7];

/// 0 -> 0, 1 -> -1, 2 -> 1, 3 -> -2 ... so that shrinking moves towards scale 10^0
fn centred(e: u8) -> i32 {
    let k = (e as i32 + 1) / 2;
    if e % 2 == 1 {
        -k
    } else {
        k
    }
}

#[derive(Debug, Clone)]
struct ColSpec {
    /// 0..=9 gaussian, 10..=13 integer grid, 14..=16 constant, 17..=19 all-zero
    kind: u8,
    exp: u8,
    mant: u8,
    off: u16,
    cval: u16,
}

fn colspec() -> impl Strategy<Value = ColSpec> {
    (0u8..20, 0u8..=12, 0u8..4, any::<u16>(), any::<u16>())
        .prop_map(|(kind, exp, mant, off, cval)| ColSpec { kind, exp, mant, off, cval })
}

impl ColSpec {
    fn scale(&self) -> f64 {
        MANTISSAS[self.mant as usize % 4] * 10f64.powi(centred(self.exp))
    }
    fn offset(&self, f32_: bool) -> f64 {
        OFFSETS[idx(self.off, if f32_ { F32_OFFSETS } else { OFFSETS.len() })]
    }
    /// value of this column in a training row with raw gaussian `g`
    fn train(&self, g: f64, f32_: bool) -> f64 {
        match self.kind {
            0..=9 => self.scale() * (self.offset(f32_) + g),
            10..=13 => self.scale() * (self.offset(f32_) + (2.0 * g).round().clamp(-4.0, 4.0)),
            14..=16 => self.scale() * CONSTANTS[idx(self.cval, CONSTANTS.len())],
            _ => 0.0,
        }
    }
    /// value in an unseen row: `spread` widens the gaussian; constant / zero columns vary when `vary`
    fn fresh(&self, g: f64, f32_: bool, spread: f64, vary: bool) -> f64 {
        match self.kind {
            0..=9 => self.scale() * (self.offset(f32_) + spread * g),
            10..=13 => self.scale() * (self.offset(f32_) + (2.0 * spread * g).round()),
            14..=16 => self.scale() * (CONSTANTS[idx(self.cval, CONSTANTS.len())] + if vary { g } else { 0.0 }),
            _ => {
                if vary {
                    g
                } else {
                    0.0
                }
            }
        }
    }
}

pub fn round_elem(v: f64, f32_: bool) -> f64 {
    if f32_ {
        (v as f32) as f64
    } else {
        v
    }
}

fn meta() -> impl Strategy<Value = Meta> {
    (0u8..5, any::<bool>(), any::<bool>(), any::<bool>(), any::<bool>()).prop_map(|(t, weights, feature_names, target_names, view)| Meta {
        targets: match t {
            0 | 1 => TargetKind::Float1,
            2 => TargetKind::Labels,
            k => TargetKind::Float2(k as usize - 1), // 2 or 3 columns
        },
        weights,
        feature_names,
        target_names,
        view,
    })
}

/// raw row: five gaussians + a flag (0 = all-zero row, 1..=2 = copy of the previous row) + a key
type RawRow = (Vec<f64>, u8, u16);

fn raw_rows(min: usize, max: usize) -> impl Strategy<Value = Vec<RawRow>> {
    proptest::collection::vec((proptest::collection::vec(gauss(), MAXP), 0u8..24, any::<u16>()), min..=max)
}

fn training_matrix(cols: &[ColSpec], raw: &[RawRow], p: usize, f32_: bool) -> Vec<Vec<f64>> {
    let mut x: Vec<Vec<f64>> = Vec::with_capacity(raw.len());
    for (i, (g, flag, _)) in raw.iter().enumerate() {
        let row = match *flag {
            0 => vec![0.0; p],
            1 | 2 if i > 0 => x[i - 1].clone(),
            _ => (0..p).map(|j| round_elem(cols[j].train(g[j], f32_), f32_)).collect(),
        };
        x.push(row);
    }
    x
}

/// rows to transform: all-zero rows, copies of training rows, fresh rows from the same columns
/// (some ten times wider than the training spread, constant columns no longer constant)
fn other_matrix(cols: &[ColSpec], raw: &[RawRow], x: &[Vec<f64>], p: usize, f32_: bool) -> Vec<Vec<f64>> {
    raw.iter()
        .map(|(g, flag, key)| match flag % 12 {
            0 => vec![0.0; p],
            1..=3 if !x.is_empty() => x[idx(*key, x.len())].clone(),
            4..=8 => (0..p).map(|j| round_elem(cols[j].fresh(g[j], f32_, 1.0, key % 2 == 0), f32_)).collect(),
            _ => (0..p).map(|j| round_elem(cols[j].fresh(g[j], f32_, 10.0, true), f32_)).collect(),
        })
        .collect()
}

fn selection() -> impl Strategy<Value = (Vec<u16>, bool)> {
    (proptest::collection::vec(any::<u16>(), 0..=8), proptest::bool::weighted(0.3))
}

fn lin_method() -> impl Strategy<Value = LinMethod> {
    let lows = [0.0, -1.0, 5.0, -3.5, 0.1, 100.0, 1e-3];
    let widths = [1.0, 5.0, 0.5, 2000.0, 0.0, 1e-2, -1.0, -1e-3];
    prop_oneof![
        3 => Just(LinMethod::Standard { with_mean: true, with_std: true }),
        2 => Just(LinMethod::Standard { with_mean: false, with_std: true }),
        2 => Just(LinMethod::Standard { with_mean: true, with_std: false }),
        1 => Just(LinMethod::Standard { with_mean: false, with_std: false }),
        5 => (0usize..7, 0usize..8).prop_map(move |(a, w)| LinMethod::MinMax { lo: lows[a], hi: lows[a] + widths[w] }),
        2 => Just(LinMethod::MaxAbs),
    ]
}

pub fn linear_cases(tier: Tier) -> impl Strategy<Value = LinearCase> {
    let max_n = tier.pick(40, 40);
    (
        (any::<bool>(), proptest::bool::weighted(0.3), 1usize..=MAXP),
        proptest::collection::vec(colspec(), MAXP),
        raw_rows(1, max_n),
        raw_rows(0, 12),
        selection(),
        meta(),
        lin_method(),
    )
        .prop_map(|((f32_, fortran, p), cols, rx, ry, (sel, sel_perm), meta, method)| {
            let x = training_matrix(&cols, &rx, p, f32_);
            let y = other_matrix(&cols, &ry, &x, p, f32_);
            let method = match method {
                LinMethod::MinMax { lo, hi } => LinMethod::MinMax { lo: round_elem(lo, f32_), hi: round_elem(hi, f32_) },
                m => m,
            };
            LinearCase { method, c: Common { f32: f32_, fortran, p, x, y, sel, sel_perm, meta } }
        })
}

/// targets for the largest |entry| of a scaled-down row: around the smallest normal number, around
/// the point where 1/norm overflows, deep subnormal, the smallest subnormal; and around the square
/// root of the smallest normal number (where the squares of the L2 norm start to underflow)
const TINY_F64: [f64; 12] = [2.3e-308, 2.2250738585072014e-308, 1.0e-308, 5.7e-309, 5.5e-309, 1.0e-310, 1.0e-320, 5.0e-324, 1.0e-150, 1.5e-154, 1.0e-160, 2.0e-162];
const TINY_F32: [f64; 12] = [1.2e-38, 1.1754944e-38, 1.0e-38, 3.0e-39, 2.9e-39, 1.0e-40, 1.0e-43, 1.4e-45, 1.0e-18, 1.1e-19, 1.0e-22, 4.0e-23];

pub fn norm_cases(_tier: Tier) -> impl Strategy<Value = NormCase> {
    (
        (any::<bool>(), proptest::bool::weighted(0.3), 1usize..=MAXP, proptest::bool::weighted(0.4)),
        proptest::collection::vec(colspec(), MAXP),
        raw_rows(0, 40),
        selection(),
        meta(),
        prop_oneof![Just(NormKind::L2), Just(NormKind::L1), Just(NormKind::Max)],
    )
        .prop_map(|((f32_, fortran, p, tiny), cols, ry, (sel, sel_perm), meta, norm)| {
            // the matrix is built like a training matrix (zero rows, repeated rows, constant and zero columns)
            let mut y = training_matrix(&cols, &ry, p, f32_);
            if tiny {
                // tiny-magnitude stratum: about a third of the rows are scaled down so that their largest
                // |entry| lands on one of the targets above (rounded to the element type, so entries
                // become subnormal or flush to zero), next to ordinary rows of the same batch
                for (row, (_, _, key)) in y.iter_mut().zip(ry.iter()) {
                    let k = idx(*key, 16);
                    if k < 11 {
                        continue;
                    }
                    let big = row.iter().fold(0.0f64, |a, v| a.max(v.abs()));
                    if big == 0.0 {
                        continue;
                    }
                    let targets = if f32_ { &TINY_F32 } else { &TINY_F64 };
                    let t = targets[idx(key.wrapping_shl(4), targets.len())];
                    for v in row.iter_mut() {
                        *v = round_elem(*v / big * t, f32_);
                    }
                }
            }
            NormCase { norm, c: Common { f32: f32_, fortran, p, x: vec![], y, sel, sel_perm, meta } }
        })
}

/// Full-rank training data: X = (G ∘ d) · R + μ with G gaussian (or a small-integer grid), d the
/// per-direction spreads (ratio up to 10^r), R a product of Givens rotations, μ the column offsets.
pub fn whiten_cases(_tier: Tier) -> impl Strategy<Value = WhitenCase> {
    (
        (any::<bool>(), proptest::bool::weighted(0.3), 1usize..=MAXP, proptest::bool::weighted(0.15)),
        (0u8..=12, 0u8..4, proptest::collection::vec(0u8..=10, MAXP), 0u8..=4),
        proptest::collection::vec(0u8..16, MAXP * (MAXP - 1) / 2),
        proptest::collection::vec(any::<u16>(), MAXP),
        raw_rows(3, 40),
        raw_rows(0, 12),
        selection(),
        meta(),
        prop_oneof![Just(WhKind::Pca), Just(WhKind::Zca), Just(WhKind::Cholesky)],
    )
        .prop_map(|((f32_, fortran, p_raw, grid), (exp, mant, spreads, r), angles, offs, rx, ry, (sel, sel_perm), meta, method)| {
            let n = rx.len();
            let p = p_raw.min(n.saturating_sub(2)).max(1);
            let s = MANTISSAS[mant as usize % 4] * 10f64.powi(centred(exp));
            // log10 of the largest spread ratio: f64 up to 2 (covariance condition 1e4), f32 up to 0.3
            let rmax = if f32_ { 0.075 * r as f64 } else { 0.5 * r as f64 };
            let d: Vec<f64> = (0..p).map(|k| 10f64.powf(-rmax * spreads[k] as f64 / 10.0)).collect();
            // rotation
            let mut rot = vec![vec![0.0; p]; p];
            for (k, row) in rot.iter_mut().enumerate() {
                row[k] = 1.0;
            }
            let mut a_idx = 0;
            for a in 0..MAXP {
                for b in a + 1..MAXP {
                    let th = angles[a_idx] as f64 * std::f64::consts::PI / 8.0;
                    a_idx += 1;
                    if b < p && !grid {
                        let (sn, cs) = th.sin_cos();
                        for row in rot.iter_mut() {
                            let (ra, rb) = (row[a], row[b]);
                            row[a] = cs * ra - sn * rb;
                            row[b] = sn * ra + cs * rb;
                        }
                    }
                }
            }
            let mu: Vec<f64> = (0..p).map(|k| OFFSETS[idx(offs[k], if f32_ { 5 } else { 8 })]).collect();
            let make = |g: &[f64], spread: f64| -> Vec<f64> {
                let t: Vec<f64> = (0..p)
                    .map(|k| if grid { (2.0 * spread * g[k]).round() } else { spread * g[k] * d[k] })
                    .collect();
                (0..p)
                    .map(|j| {
                        let v: f64 = (0..p).map(|k| t[k] * rot[k][j]).sum();
                        round_elem(s * (v + mu[j]), f32_)
                    })
                    .collect()
            };
            let x: Vec<Vec<f64>> = rx.iter().map(|(g, _, _)| make(g, 1.0)).collect();
            let y: Vec<Vec<f64>> = ry
                .iter()
                .map(|(g, flag, key)| match flag % 12 {
                    0 => vec![0.0; p],
                    1..=3 => x[idx(*key, x.len())].clone(),
                    4..=8 => make(g, 1.0),
                    _ => make(g, 10.0),
                })
                .collect();
            WhitenCase { method, c: Common { f32: f32_, fortran, p, x, y, sel, sel_perm, meta } }
        })
}
