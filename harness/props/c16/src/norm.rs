//! NormScaler (L1 / L2 / Max): stateless row normalisation.

use crate::common::*;
use linfa_preprocessing::norm_scaling::NormScaler;
use ndarray::Array2;
use serde::{Deserialize, Serialize};
use vengine::Obs;

#[derive(Debug, Clone, Copy, PartialEq, Eq, Serialize, Deserialize)]
pub enum NormKind {
    L1,
    L2,
    Max,
}

#[derive(Debug, Clone, Serialize, Deserialize)]
pub struct NormCase {
    pub norm: NormKind,
    pub c: Common,
}

pub fn scaler(k: NormKind) -> NormScaler {
    match k {
        NormKind::L1 => NormScaler::l1(),
        NormKind::L2 => NormScaler::l2(),
        NormKind::Max => NormScaler::max(),
    }
}

fn norm_of(k: NormKind, r: &[f64]) -> f64 {
    match k {
        NormKind::L1 => r.iter().map(|v| v.abs()).sum(),
        NormKind::L2 => r.iter().map(|v| v * v).sum::<f64>().sqrt(),
        NormKind::Max => r.iter().fold(0.0, |a, v| a.max(v.abs())),
    }
}

pub fn check(case: &NormCase, obs: &mut Obs) {
    if !case.c.well_formed() {
        obs.skip("malformed_case");
        return;
    }
    if case.c.f32 {
        run::<f32>(case, obs)
    } else {
        run::<f64>(case, obs)
    }
}

fn run<F: Elem>(case: &NormCase, obs: &mut Obs) {
    let c = &case.c;
    let p = c.p;
    classify_matrices(c, obs);
    obs.class(match case.norm {
        NormKind::L1 => "norm_l1",
        NormKind::L2 => "norm_l2",
        NormKind::Max => "norm_max",
    });
    let y: Array2<F> = build(&c.y, p, c.fortran);
    let m = y.nrows();
    let sc = scaler(case.norm);
    let zy = match obs.call("transform", || sc.arr(y.clone())) {
        Some(z) => z,
        None => return,
    };
    if !obs.ensure(zy.dim() == (m, p), "norm:output-shape", || format!("shape {:?} for input {:?}", zy.dim(), y.dim())) {
        return;
    }
    let yw = widen(&y);
    let zw = widen(&zy);
    let eps = F::EPS;
    let mut zero_rows = 0;
    for i in 0..m {
        let (yr, zr) = (&yw[i], &zw[i]);
        let nrm = norm_of(case.norm, yr);
        if yr.iter().all(|v| *v == 0.0) {
            zero_rows += 1;
            // "keeps all output finite"
            if zr.iter().all(|v| v.is_nan()) {
                // the one recognised defect: 0 / 0 for every entry of an all-zero row
                obs.fail(
                    "norm:zero-row-nan",
                    format!("all-zero row {i} of a {m}x{p} matrix is mapped to {:?} ({:?} norm)", zr, case.norm),
                );
            } else if !zr.iter().all(|v| v.is_finite()) {
                obs.fail("norm:non-finite-output", format!("all-zero row {i} is mapped to {:?}", zr));
            } else {
                obs.ensure(zr.iter().all(|v| *v == 0.0), "norm:zero-row-not-zero", || {
                    format!("all-zero row {i} is rescaled to the non-zero row {:?}", zr)
                });
            }
            continue;
        }
        obs.class_if(yr.iter().filter(|v| **v != 0.0).count() == 1, "row_with_single_non_zero");
        obs.class_if(nrm < F::MIN_POS, "row_norm_subnormal");
        obs.class_if(nrm > 0.0 && nrm < 1.0 / F::MAX, "reciprocal_of_row_norm_overflows");
        // "keeps all output finite" holds for every finite input row, whatever its magnitude
        if !obs.ensure(zr.iter().all(|v| v.is_finite()), "norm:non-finite-output", || {
            format!("row {i} = {:?} ({:?} norm {nrm:e}) is mapped to {:?}", yr, case.norm, zr)
        }) {
            continue;
        }
        // Unit norm is demanded where the norm is representable by the element type's arithmetic.
        // L1 and Max norms of any finite row are (sums / maxima of subnormals are exact, the quotient
        // of two exact operands is correctly rounded and lies in the normal range), so they are judged
        // down to the smallest subnormal with the ordinary tolerance. The L2 norm goes through the
        // squares: below sum(y²) = 8·MIN_POSITIVE the squares underflow (each loses up to half a
        // subnormal spacing, relative error > eps; the sum reaches exactly 0 for subnormal rows, which
        // linfa then treats like a zero row) — there only finiteness is demanded.
        if case.norm == NormKind::L2 && yr.iter().map(|v| v * v).sum::<f64>() < 8.0 * F::MIN_POS {
            obs.class("l2_squares_underflow_unit_norm_not_judged");
            continue;
        }
        let zn = norm_of(case.norm, zr);
        obs.ensure((zn - 1.0).abs() <= K_TOL * eps, "norm:not-unit", || {
            format!("row {i} = {:?}: output {:?} has {:?} norm {zn}", yr, zr, case.norm)
        });
        let mut bad = None;
        for j in 0..p {
            let want = yr[j] / nrm;
            if !((zr[j] - want).abs() <= K_TOL * eps * want.abs() + F::TINY) && bad.is_none() {
                bad = Some((j, want));
            }
        }
        obs.ensure(bad.is_none(), "norm:not-row-over-norm", || {
            let (j, want) = bad.unwrap_or((0, 0.0));
            format!("row {i} = {:?}: entry {j} is {} but row/norm gives {want}", yr, zr[j])
        });
    }
    obs.class_if(zero_rows > 0, "has_zero_row");
    obs.class_if(zero_rows == m && m > 0, "only_zero_rows");
    obs.class_if(c.y.iter().flatten().any(|v| *v != 0.0 && v.abs() < 1e-4), "has_tiny_entries");
    obs.class_if(c.y.iter().flatten().any(|v| *v != 0.0 && v.abs() < F::MIN_POS), "has_subnormal_entries");
    obs.class_if(c.y.iter().flatten().any(|v| v.abs() > 1e4), "has_huge_entries");
    obs.nontrivial_if(zero_rows > 0 || m > 0);
    let exact = |_: usize, _: usize, a: f64, b: f64| (a.is_nan() && b.is_nan()) || a.to_bits() == b.to_bits();
    rowwise_and_dataset(&sc, "norm", c, &y, &zy, &exact, obs);
}
