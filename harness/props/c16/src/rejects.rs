//! Finite enumeration: empty training data and flipped min-max ranges must be answered with an error.

use crate::common::{build, Elem};
use crate::linear::{self, LinMethod};
use crate::whiten::{self, WhKind};
use linfa_preprocessing::error::PreprocessingError;
use ndarray::Array2;
use serde::{Deserialize, Serialize};
use vengine::Obs;

#[derive(Debug, Clone, Copy, PartialEq, Serialize, Deserialize)]
pub enum Fitter {
    Linear(LinMethod),
    Whiten(WhKind),
}

#[derive(Debug, Clone, Serialize, Deserialize)]
pub struct RejectCase {
    pub f32: bool,
    pub fortran: bool,
    pub view: bool,
    pub fitter: Fitter,
    /// training matrix: `rows` × `p`, entries i + 2 j (irrelevant for the answer)
    pub rows: usize,
    pub p: usize,
}

pub fn cases() -> Vec<RejectCase> {
    let mut fitters = vec![];
    for (with_mean, with_std) in [(true, true), (false, true), (true, false), (false, false)] {
        fitters.push(Fitter::Linear(LinMethod::Standard { with_mean, with_std }));
    }
    for (lo, hi) in [(0.0, 1.0), (2.0, 2.0), (-5.0, 10.0)] {
        fitters.push(Fitter::Linear(LinMethod::MinMax { lo, hi }));
    }
    fitters.push(Fitter::Linear(LinMethod::MaxAbs));
    for k in [WhKind::Pca, WhKind::Zca, WhKind::Cholesky] {
        fitters.push(Fitter::Whiten(k));
    }
    let mut v = vec![];
    // (a) no training rows
    for &fitter in &fitters {
        for p in [0usize, 1, 2, 5] {
            for f32_ in [false, true] {
                for (fortran, view) in [(false, false), (true, true)] {
                    v.push(RejectCase { f32: f32_, fortran, view, fitter, rows: 0, p });
                }
            }
        }
    }
    // (b) min-max range with min > max on non-empty data
    for (lo, hi) in [(1.0, 0.0), (0.0, -1.0e-3), (5.0, -5.0), (1.5, 1.25), (0.0, -1.0e6)] {
        for (rows, p) in [(1usize, 1usize), (3, 2), (10, 5)] {
            for f32_ in [false, true] {
                v.push(RejectCase {
                    f32: f32_,
                    fortran: rows == 3,
                    view: rows == 10,
                    fitter: Fitter::Linear(LinMethod::MinMax { lo, hi }),
                    rows,
                    p,
                });
            }
        }
    }
    v
}

pub fn check(c: &RejectCase, obs: &mut Obs) {
    if c.p > 8 || c.rows > 64 {
        obs.skip("malformed_case");
        return;
    }
    if c.f32 {
        run::<f32>(c, obs)
    } else {
        run::<f64>(c, obs)
    }
}

fn run<F: Elem>(c: &RejectCase, obs: &mut Obs) {
    let rows: Vec<Vec<f64>> = (0..c.rows).map(|i| (0..c.p).map(|j| (i + 2 * j) as f64).collect()).collect();
    let x: Array2<F> = build(&rows, c.p, c.fortran);
    obs.nontrivial();
    obs.class_if(c.rows == 0, "empty_training_data");
    obs.class_if(c.rows > 0, "flipped_range_on_data");
    obs.class_if(c.p == 0, "zero_features");
    let flipped = matches!(c.fitter, Fitter::Linear(LinMethod::MinMax { lo, hi }) if lo > hi);
    let answer: Option<Result<(), PreprocessingError>> = match c.fitter {
        Fitter::Linear(m) => obs.call("fit", || linear::fit::<F>(m, &x, c.view).map(|_| ())),
        Fitter::Whiten(k) => obs.call("fit", || whiten::fit::<F>(k, &x, c.view).map(|_| ())),
    };
    let Some(answer) = answer else { return };
    match answer {
        Ok(()) => {
            if c.rows == 0 {
                obs.fail("reject:empty-training-data-accepted", format!("{:?} fitted on a 0x{} matrix", c.fitter, c.p));
            } else {
                obs.ensure(!flipped, "minmax:flipped-range-accepted", || format!("{:?} fitted although min > max", c.fitter));
            }
        }
        Err(PreprocessingError::NotEnoughSamples) => {
            obs.ensure(c.rows == 0, "reject:spurious-not-enough-samples", || {
                format!("{:?} on {} rows answered NotEnoughSamples", c.fitter, c.rows)
            });
        }
        Err(PreprocessingError::FlippedMinMaxRange) => {
            obs.ensure(flipped, "reject:spurious-flipped-range", || format!("{:?} answered FlippedMinMaxRange", c.fitter));
        }
        Err(e) => {
            if c.rows == 0 {
                obs.fail("reject:empty-training-data-wrong-error", format!("{:?} on a 0x{} matrix answered {e:?}, expected NotEnoughSamples", c.fitter, c.p));
            } else {
                obs.fail("minmax:flipped-range-wrong-error", format!("{:?} answered {e:?}", c.fitter));
            }
        }
    }
}
