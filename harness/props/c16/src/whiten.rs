//! Whitener (PCA / ZCA / Cholesky) on full-rank training data.

use crate::common::*;
use linfa::dataset::DatasetBase;
use linfa::traits::Fit;
use linfa_preprocessing::error::PreprocessingError;
use linfa_preprocessing::whitening::{FittedWhitener, Whitener};
use ndarray::{Array1, Array2};
use serde::{Deserialize, Serialize};
use vengine::num::{covariance, jacobi_eigh};
use vengine::Obs;

#[derive(Debug, Clone, Copy, PartialEq, Eq, Serialize, Deserialize)]
pub enum WhKind {
    Pca,
    Zca,
    Cholesky,
}

#[derive(Debug, Clone, Serialize, Deserialize)]
pub struct WhitenCase {
    pub method: WhKind,
    pub c: Common,
}

/// Tolerance of the covariance post-condition, |cov(transform(X)) − I| (largest entry):
///   direct part  = K_COV · eps · (n + p) · p · cond(cov X)  +  4 · (32 · eps · max|x| / sqrt(λ_min))²
///     (forming and factorising the covariance in working precision, amplified by its condition
///     number; second-order effect of the rounding of the column means) — used alone for Cholesky;
///   PCA and ZCA go through linfa-linalg's iterative SVD, whose deflation leaves residuals far above
///     working precision: for them the tolerance is at least SVD_REL · cond, SVD_REL = 1e-6 for f64
///     (DESIGN C16: "I ± 1e-6·cond") and 2e-3 for f32.
pub const K_COV: f64 = 8.0;
pub const SVD_REL_F64: f64 = 1e-6;
pub const SVD_REL_F32: f64 = 2e-3;
/// the covariance post-condition is judged only where its tolerance is below this value
pub const COV_TOL_MAX: f64 = 2e-2;
/// linfa clamps singular values of the centred data below 1e-8 (PCA) and inverse square roots of
/// covariance eigenvalues below 1e-8 (ZCA) to that absolute value; data within a factor 10 of
/// either clamp are outside the judged domain.
pub const CLAMP_SINGULAR_MIN: f64 = 1e-7;
pub const CLAMP_EIGEN_MAX: f64 = 1e14;

pub fn whitener(k: WhKind) -> Whitener {
    match k {
        WhKind::Pca => Whitener::pca(),
        WhKind::Zca => Whitener::zca(),
        WhKind::Cholesky => Whitener::cholesky(),
    }
}

pub fn fit<F: Elem>(k: WhKind, x: &Array2<F>, view: bool) -> Result<FittedWhitener<F>, PreprocessingError> {
    let t: Array1<f64> = Array1::zeros(x.nrows());
    if view {
        whitener(k).fit(&DatasetBase::new(x.view(), t.view()))
    } else {
        whitener(k).fit(&DatasetBase::new(x.clone(), t))
    }
}

/// largest |cov(Z) − I| entry (sample covariance, divisor n − 1) and its position
fn deviation_from_identity(z: &[Vec<f64>], p: usize) -> (f64, usize, usize) {
    let zc = covariance(&z.to_vec(), 1.0);
    let mut worst = (0.0f64, 0usize, 0usize);
    for a in 0..p {
        for b in 0..p {
            let d = (zc[a][b] - if a == b { 1.0 } else { 0.0 }).abs();
            if d > worst.0 || d.is_nan() {
                worst = (d, a, b);
            }
        }
    }
    worst
}

pub fn check(case: &WhitenCase, obs: &mut Obs) {
    if !case.c.well_formed() || case.c.x.len() < case.c.p + 2 {
        obs.skip("malformed_case");
        return;
    }
    if case.c.f32 {
        run::<f32>(case, obs)
    } else {
        run::<f64>(case, obs)
    }
}

fn run<F: Elem>(case: &WhitenCase, obs: &mut Obs) {
    let c = &case.c;
    let p = c.p;
    classify_matrices(c, obs);
    obs.class(match case.method {
        WhKind::Pca => "method_pca",
        WhKind::Zca => "method_zca",
        WhKind::Cholesky => "method_cholesky",
    });
    let x: Array2<F> = build(&c.x, p, c.fortran);
    let y: Array2<F> = build(&c.y, p, c.fortran);
    let n = x.nrows();
    let xw = widen(&x);
    let eps = F::EPS;

    // ---- is the training matrix inside the judged domain (full rank, moderately conditioned)?
    let cov = covariance(&xw, 1.0);
    let (lam, _) = jacobi_eigh(&cov);
    let (lmax, lmin) = (lam.first().copied().unwrap_or(0.0), lam.last().copied().unwrap_or(0.0));
    let maxabs = xw.iter().flatten().fold(0.0f64, |a, v| a.max(v.abs()));
    if !(lmin > 0.0) || !lmax.is_finite() {
        obs.skip("training_data_rank_deficient");
        return;
    }
    let cond = lmax / lmin;
    let smin = ((n - 1) as f64 * lmin).sqrt();
    if smin < CLAMP_SINGULAR_MIN || lmax > CLAMP_EIGEN_MAX {
        obs.skip("training_data_in_absolute_clamp_zone");
        return;
    }
    let kw = maxabs / lmin.sqrt();
    let direct = K_COV * eps * ((n + p) * p) as f64 * cond + 4.0 * (32.0 * eps * kw).powi(2);
    let svd_rel = if c.f32 { SVD_REL_F32 } else { SVD_REL_F64 };
    let cov_tol = match case.method {
        WhKind::Cholesky => direct,
        WhKind::Pca | WhKind::Zca => direct.max(svd_rel * cond),
    };
    if cov_tol > COV_TOL_MAX {
        obs.skip("training_data_ill_conditioned");
        return;
    }
    obs.class_if(cond > 100.0, "cond_above_100");
    obs.class_if(cond <= 10.0, "cond_up_to_10");
    obs.class_if(n <= p + 3, "few_rows");
    obs.class_if(kw > 100.0, "offset_data");
    obs.nontrivial_if(!c.y.is_empty() && c.y != c.x);

    // ---- fit
    let w = match obs.call("fit", || fit::<F>(case.method, &x, c.meta.view)) {
        Some(Ok(w)) => w,
        Some(Err(e)) => {
            obs.fail("whiten:fit-error", format!("{:?} fit on full-rank {n}x{p} data (cond {cond:.3e}) failed: {e:?}", case.method));
            return;
        }
        None => return,
    };
    let wm: Vec<Vec<f64>> = w.transformation_matrix().rows().into_iter().map(|r| r.iter().map(|v| v.w()).collect()).collect();
    let mu: Vec<f64> = w.mean().iter().map(|v| v.w()).collect();
    if !obs.ensure(wm.len() == p && wm.iter().all(|r| r.len() == p) && mu.len() == p, "whiten:parameter-shape", || {
        format!("transformation matrix {}x?, mean of length {} for {p} features", wm.len(), mu.len())
    }) {
        return;
    }
    if !obs.ensure(wm.iter().flatten().chain(mu.iter()).all(|v| v.is_finite()), "whiten:parameter-non-finite", || {
        format!("transformation matrix {:?} mean {:?}", wm, mu)
    }) {
        return;
    }

    // ---- identity sample covariance on the training data
    let zx = match obs.call("transform-training", || w.arr(x.clone())) {
        Some(z) => z,
        None => return,
    };
    if !obs.ensure(zx.dim() == (n, p), "whiten:output-shape", || format!("shape {:?}", zx.dim())) {
        return;
    }
    let zw = widen(&zx);
    if obs.ensure(zw.iter().flatten().all(|v| v.is_finite()), "whiten:non-finite-output", || {
        "whitened training data contain a non-finite value".to_string()
    }) {
        let worst = deviation_from_identity(&zw, p);
        if !(worst.0 <= cov_tol) {
            let detail = format!(
                "{:?}: sample covariance of the whitened training data ({n}x{p}, {}, cond {cond:.3e}) deviates from I by {:.3e} at ({},{}) (tol {:.3e})",
                case.method,
                if c.f32 { "f32" } else { "f64" },
                worst.0,
                worst.1,
                worst.2,
                cov_tol
            );
            // PCA and ZCA rest on linfa-linalg's iterative SVD, which sporadically stops with an
            // unconverged singular pair. Such a failure is chaotic in the floating-point path; a wrong
            // whitening formula is a function of the exact sample covariance and therefore behaves
            // the same (up to the permutation) on every equivalent presentation of the same data.
            // Recognise the former by (1) the transform still having the shape the formula guarantees
            // whatever the SVD returns (ZCA: symmetric matrix; PCA: mutually orthogonal rows) and
            // (2) at least one re-presentation of the *same* data (features rotated or reversed, rows
            // reversed, other storage order — never re-centred or rescaled) being whitened within
            // tolerance by a fresh fit.
            let shape_ok = match case.method {
                WhKind::Zca => {
                    let big = wm.iter().flatten().fold(0.0f64, |a, v| a.max(v.abs()));
                    (0..p).all(|a| (0..p).all(|b| (wm[a][b] - wm[b][a]).abs() <= 1e3 * eps * big))
                }
                WhKind::Pca => (0..p).all(|a| {
                    (0..p).all(|b| {
                        a == b || {
                            let d: f64 = (0..p).map(|k| wm[a][k] * wm[b][k]).sum();
                            let na: f64 = (0..p).map(|k| wm[a][k] * wm[a][k]).sum::<f64>().sqrt();
                            let nb: f64 = (0..p).map(|k| wm[b][k] * wm[b][k]).sum::<f64>().sqrt();
                            d.abs() <= 1e3 * eps * na * nb
                        }
                    })
                }),
                WhKind::Cholesky => false,
            };
            let mut cured: Option<String> = None;
            if shape_ok && p >= 2 {
                let mut presentations: Vec<(String, Vec<Vec<f64>>, bool)> = vec![];
                for k in 1..p {
                    presentations.push((
                        format!("features rotated by {k}"),
                        c.x.iter().map(|r| { let mut q = r.clone(); q.rotate_left(k); q }).collect(),
                        c.fortran,
                    ));
                }
                presentations.push(("features reversed".into(), c.x.iter().map(|r| r.iter().rev().copied().collect()).collect(), c.fortran));
                presentations.push(("rows reversed".into(), c.x.iter().rev().cloned().collect(), c.fortran));
                presentations.push(("other storage order".into(), c.x.clone(), !c.fortran));
                for (name, rows, fortran) in presentations {
                    let xr: Array2<F> = build(&rows, p, fortran);
                    let ok = match vengine::guard(|| fit::<F>(case.method, &xr, c.meta.view).map(|wr| wr.arr(xr.clone()))) {
                        Ok(Ok(zr)) if zr.dim() == (n, p) => deviation_from_identity(&widen(&zr), p).0 <= cov_tol,
                        _ => false,
                    };
                    if ok {
                        cured = Some(name);
                        break;
                    }
                }
            }
            if let Some(how) = cured {
                obs.class("svd_sporadic_failure");
                obs.fail(
                    "whiten:svd-sporadic-inaccuracy",
                    format!("{detail}; a fresh fit on the same data presented with {how} whitens within tolerance, so the deviation stems from the SVD iteration (linfa-linalg), not from the whitening formula"),
                );
            } else {
                obs.fail("whiten:covariance-not-identity", detail);
            }
        }
    }

    // ---- the fitted transform is (Y − mean) · Wᵀ on any matrix
    let zy = match obs.call("transform-other", || w.arr(y.clone())) {
        Some(z) => z,
        None => return,
    };
    if !obs.ensure(zy.dim() == y.dim(), "whiten:output-shape", || format!("shape {:?} for input {:?}", zy.dim(), y.dim())) {
        return;
    }
    let yw = widen(&y);
    // reference value and tolerance for output entry j of an input row
    let reference = |row: &[f64], j: usize| -> (f64, f64) {
        let mut s = 0.0;
        let mut mag = 0.0;
        for k in 0..p {
            let t = (row[k] - mu[k]) * wm[j][k];
            s += t;
            mag += t.abs();
        }
        (s, K_TOL * eps * mag + F::TINY)
    };
    for (name, inp, out) in [("training", &xw, &zx), ("other", &yw, &zy)] {
        let mut bad: Option<String> = None;
        for (i, row) in inp.iter().enumerate() {
            for j in 0..p {
                let (want, tol) = reference(row, j);
                let got = out[(i, j)].w();
                if !((got - want).abs() <= tol) && bad.is_none() {
                    bad = Some(format!(
                        "{name} matrix row {i} = {:?}: output entry {j} is {got}, (row − mean())·transformation_matrix()ᵀ gives {want} (tol {tol:.3e})",
                        row
                    ));
                }
            }
        }
        if let Some(b) = bad {
            obs.fail("whiten:not-the-affine-map", b);
        }
    }
    // two evaluations of the same row may differ by the rounding of a p-term dot product each
    let close = |i: usize, j: usize, a: f64, b: f64| {
        let tol = yw.get(i).map(|r| reference(r, j).1).unwrap_or(0.0);
        (a - b).abs() <= 2.0 * tol
    };
    rowwise_and_dataset(&w, "whiten", c, &y, &zy, &close, obs);
}

// ------------------------------------------------------------------------------------------------
// PCA whitening of tall, badly conditioned data: a batch statistic
//
// linfa-linalg's iterative SVD has a heavy-tailed error (about 1 fit in 200 is off by far more than working
// precision warrants, see the known finding), so a single fit cannot be held to the accuracy of an SVD of the centred
// records, eps * sqrt(cond(cov)). The *typical* fit can: over 3 600 probe fits of this stratum on the unchanged tree
// the statistic s = |cov(Z) - I|_max / (eps * sqrt(cond)) had median 0.4 (f64) / 0.5 (f32), s > 30 in 0.47 % of the
// fits. A case is therefore a batch of BATCH independent data sets (derived from one seed) and the verdict is on the
// MEDIAN of s over the batch: it must not exceed MEDIAN_S_MAX. For the unchanged code the chance of a false alarm is
// C(7,4) * 0.0047^4 < 2e-8 per case. An implementation that works on the Gram matrix X^T X (condition squared) has
// s ~ sqrt(cond) >= 100 on every data set of the stratum.

pub const BATCH: usize = 7;
pub const MEDIAN_S_MAX: f64 = 30.0;

#[derive(Debug, Clone, Serialize, Deserialize)]
pub struct PcaBatchCase {
    pub seed: u64,
    pub f32: bool,
    pub fortran: bool,
    pub view: bool,
    /// features 2..=5
    pub p: usize,
    /// rows, at least 10 p
    pub n: usize,
    /// log10 of the spread ratio between the first and the last principal direction, in tenths
    /// (f64: 30..=40, i.e. cond 1e6..1e8; f32: 20..=25, i.e. cond 1e4..1e5)
    pub ratio_tenths: u8,
}

pub fn pca_batch_cases() -> impl proptest::strategy::Strategy<Value = PcaBatchCase> {
    use proptest::prelude::*;
    (any::<u64>(), any::<bool>(), any::<bool>(), any::<bool>(), 2usize..=5, 0usize..=70, 0u8..=10).prop_map(|(seed, f32, fortran, view, p, extra, r)| {
        PcaBatchCase { seed, f32, fortran, view, p, n: 10 * p + extra, ratio_tenths: if f32 { 20 + r / 2 } else { 30 + r } }
    })
}

fn batch_dataset(c: &PcaBatchCase, k: usize) -> Vec<Vec<f64>> {
    use vengine::gen::SplitMix;
    let mut rng = SplitMix(c.seed ^ (0x9e37_79b9_7f4a_7c15u64.wrapping_mul(k as u64 + 1)));
    let p = c.p;
    let r = c.ratio_tenths as f64 / 10.0;
    let d: Vec<f64> = (0..p).map(|j| 10f64.powf(-r * j as f64 / (p - 1) as f64)).collect();
    let mut rot = vec![vec![0.0; p]; p];
    for (j, row) in rot.iter_mut().enumerate() {
        row[j] = 1.0;
    }
    for a in 0..p {
        for b in a + 1..p {
            let th = rng.unit() * std::f64::consts::PI;
            let (sn, cs) = th.sin_cos();
            for row in rot.iter_mut() {
                let (ra, rb) = (row[a], row[b]);
                row[a] = cs * ra - sn * rb;
                row[b] = sn * ra + cs * rb;
            }
        }
    }
    let mu: Vec<f64> = (0..p).map(|_| [0.0, 1.0, -3.5][rng.below(3)]).collect();
    (0..c.n)
        .map(|_| {
            let t: Vec<f64> = (0..p).map(|j| rng.gauss() * d[j]).collect();
            (0..p).map(|j| crate::gens::round_elem((0..p).map(|q| t[q] * rot[q][j]).sum::<f64>() + mu[j], c.f32)).collect()
        })
        .collect()
}

pub fn check_pca_batch(c: &PcaBatchCase, obs: &mut Obs) {
    if !(2..=8).contains(&c.p) || c.n < 10 * c.p || c.n > 400 || c.ratio_tenths > 45 {
        obs.skip("malformed_case");
        return;
    }
    obs.class(if c.f32 { "elem_f32" } else { "elem_f64" });
    obs.class("pca_batch_tall_ill_conditioned");
    if c.f32 {
        run_pca_batch::<f32>(c, obs)
    } else {
        run_pca_batch::<f64>(c, obs)
    }
}

fn run_pca_batch<F: Elem>(c: &PcaBatchCase, obs: &mut Obs) {
    let p = c.p;
    let eps = F::EPS;
    let mut stats: Vec<(f64, f64, f64)> = vec![]; // (s, deviation, cond)
    for k in 0..BATCH {
        let rows = batch_dataset(c, k);
        let x: Array2<F> = build(&rows, p, c.fortran);
        let xw = widen(&x);
        let cov = covariance(&xw, 1.0);
        let (lam, _) = jacobi_eigh(&cov);
        let (lmax, lmin) = (lam.first().copied().unwrap_or(0.0), lam.last().copied().unwrap_or(0.0));
        if !(lmin > 0.0) || !lmax.is_finite() {
            continue;
        }
        let cond = lmax / lmin;
        let fitted = match vengine::guard(|| fit::<F>(WhKind::Pca, &x, c.view).map(|w| w.arr(x.clone()))) {
            Ok(Ok(z)) if z.dim() == (c.n, p) => z,
            Ok(Ok(z)) => {
                obs.fail("whiten:output-shape", format!("shape {:?}", z.dim()));
                return;
            }
            Ok(Err(e)) => {
                obs.fail("whiten:fit-error", format!("Pca fit on full-rank {}x{p} data (cond {cond:.3e}) failed: {e:?}", c.n));
                return;
            }
            Err(m) => {
                obs.fail("panic:whiten-fit", m);
                return;
            }
        };
        let dev = deviation_from_identity(&widen(&fitted), p).0;
        let s = if dev.is_nan() { f64::INFINITY } else { dev / (eps * cond.sqrt()) };
        stats.push((s, dev, cond));
    }
    if stats.len() < BATCH {
        obs.skip("batch_with_rank_deficient_data_set");
        return;
    }
    let min_cond = stats.iter().map(|t| t.2).fold(f64::INFINITY, f64::min);
    obs.class_if(min_cond >= 1e6, "pca_batch_cond_ge_1e6");
    obs.class_if(stats.iter().any(|t| t.0 > MEDIAN_S_MAX), "pca_batch_has_an_outlier_fit");
    obs.nontrivial_if(min_cond >= 1e3);
    let mut sorted: Vec<f64> = stats.iter().map(|t| t.0).collect();
    sorted.sort_by(|a, b| a.partial_cmp(b).unwrap_or(std::cmp::Ordering::Equal));
    let median = sorted[BATCH / 2];
    obs.ensure(median <= MEDIAN_S_MAX, "whiten:pca-accuracy-below-svd-of-records", || {
        format!(
            "Pca whitening of {BATCH} independent {}x{p} data sets ({}, covariance condition {:.1e}..): median of |cov(Z) - I| / (eps sqrt(cond)) is {:.3e} (allowed {MEDIAN_S_MAX}); per data set (statistic, deviation, cond): {:?}",
            c.n,
            if c.f32 { "f32" } else { "f64" },
            min_cond,
            median,
            stats
        )
    });
}
