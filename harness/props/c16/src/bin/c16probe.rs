use c16::common::*;
use c16::whiten::*;
use ndarray::Array2;
fn main() {
    let path = std::env::args().nth(1).unwrap();
    let v: serde_json::Value = serde_json::from_str(&std::fs::read_to_string(path).unwrap()).unwrap();
    let case: WhitenCase = serde_json::from_value(v["case"].clone()).unwrap();
    let c = &case.c;
    let x: Array2<f64> = build(&c.x, c.p, c.fortran);
    let w = fit::<f64>(case.method, &x, false).unwrap();
    println!("W = {:?}", w.transformation_matrix());
    println!("mean = {:?}", w.mean());
    let z = w.arr(x.clone());
    let zw = widen(&z);
    let zc = vengine::num::covariance(&zw, 1.0);
    println!("cov z = {:?}", zc);
    // W Sigma W^T with oracle sigma
    let xw = widen(&x);
    let s = vengine::num::covariance(&xw, 1.0);
    let wm: Vec<Vec<f64>> = w.transformation_matrix().rows().into_iter().map(|r| r.to_vec()).collect();
    let t = vengine::num::matmul(&vengine::num::matmul(&wm, &s), &vengine::num::transpose(&wm));
    println!("W S W^T = {:?}", t);
    println!("col means of x {:?}", vengine::num::col_means(&xw));
    let (lam, vecs) = vengine::num::jacobi_eigh(&s);
    println!("eig cov {:?}", lam);
    println!("sing vals {:?}", lam.iter().map(|l| (l * (xw.len() - 1) as f64).sqrt()).collect::<Vec<_>>());
    println!("eigvecs {:?}", vecs);
    let norms: Vec<f64> = wm.iter().map(|r| vengine::num::norm2(r)).collect();
    println!("row norms of W {:?} -> s = {:?}", norms, norms.iter().map(|n| ((xw.len() - 1) as f64).sqrt() / n).collect::<Vec<_>>());
    let v: Vec<Vec<f64>> = wm.iter().zip(&norms).map(|(r, n)| r.iter().map(|x| x / n).collect()).collect();
    println!("V = {:?}", v);
    println!("V V^T = {:?}", vengine::num::matmul(&v, &vengine::num::transpose(&v)));
    println!("V S V^T = {:?}", vengine::num::matmul(&vengine::num::matmul(&v, &s), &vengine::num::transpose(&v)));
}
#[allow(dead_code)]
fn unused() {}
