//! Per-case process isolation with a time limit.
//!
//! argmin's More–Thuente line search has no iteration limit of its own: when the cost function
//! returns NaN it can loop forever, so a `fit` may never return. A check function cannot interrupt a
//! thread, therefore every linfa-facing case of C12 is evaluated in a short-lived child process of the
//! same binary (`c12 --c12-child <sub>`, case on stdin, observations on stdout). A child that does not
//! finish within `case_timeout_s(sub)` seconds is killed and the case is reported as failure `hang:<sub>`.
//!
//! Failing cases are remembered (hash of the case JSON -> observations) so that re-evaluating the same
//! case is instant, and once a failure with a signature that is not a known finding has been seen the
//! process spends at most `SHRINK_BUDGET_S` more seconds on further (shrinking) evaluations: after that,
//! unseen cases are passed over and remembered ones answer from memory. This bounds the time proptest
//! can spend shrinking an expensive or hanging counter-example; it never changes whether a run fails.

use serde::{Deserialize, Serialize};
use std::collections::{HashMap, HashSet};
use std::io::{Read, Write};
use std::process::{Command, Stdio};
use std::sync::Mutex;
use std::time::{Duration, Instant};
use vengine::{Fail, Obs};

/// time limit of one case (two fits, possibly two re-fits, predictions); ordinary cases take milliseconds,
/// the slowest legitimate ones (iteration cap reached four times with six classes) a few seconds
pub fn case_timeout_s(sub: &str) -> u64 {
    match sub {
        "glm" => 6,
        "binary" => 10,
        _ => 20,
    }
}
pub const SHRINK_BUDGET_S: u64 = 90;
pub const CHILD_FLAG: &str = "--c12-child";

#[derive(Serialize, Deserialize, Default, Clone, Debug)]
pub struct ChildObs {
    pub classes: Vec<String>,
    pub nontrivial: bool,
    pub skipped: bool,
    pub fails: Vec<(String, String)>,
}

struct State {
    remembered: HashMap<u64, ChildObs>,
    first_unknown_failure: Option<Instant>,
    known: Option<HashSet<String>>,
    names: HashMap<String, &'static str>,
}

static STATE: Mutex<Option<State>> = Mutex::new(None);

fn with_state<T>(f: impl FnOnce(&mut State) -> T) -> T {
    let mut g = STATE.lock().unwrap_or_else(|e| e.into_inner());
    if g.is_none() {
        *g = Some(State { remembered: HashMap::new(), first_unknown_failure: None, known: None, names: HashMap::new() });
    }
    f(g.as_mut().unwrap())
}

fn load_known() -> HashSet<String> {
    let root = std::path::PathBuf::from(std::env::var("VERIF_ROOT").unwrap_or_else(|_| "/verif".into()));
    let mut files = vec![root.join("known_findings.json")];
    if let Ok(dir) = std::fs::read_dir(root.join("known_findings.d")) {
        for e in dir.flatten() {
            if e.path().extension().and_then(|x| x.to_str()) == Some("json") {
                files.push(e.path());
            }
        }
    }
    let mut out = HashSet::new();
    for f in files {
        let Ok(txt) = std::fs::read_to_string(&f) else { continue };
        let Ok(v) = serde_json::from_str::<serde_json::Value>(&txt) else { continue };
        let Some(arr) = v.get("findings").and_then(|a| a.as_array()) else { continue };
        for e in arr {
            let prop = e.get("property").and_then(|s| s.as_str()).unwrap_or("");
            let status = e.get("status").and_then(|s| s.as_str()).unwrap_or("");
            if prop == "C12" && status == "known" {
                if let Some(k) = e.get("key").and_then(|s| s.as_str()) {
                    out.insert(k.to_string());
                }
            }
        }
    }
    out
}

fn intern(st: &mut State, s: &str) -> &'static str {
    if let Some(v) = st.names.get(s) {
        return v;
    }
    let leaked: &'static str = Box::leak(s.to_string().into_boxed_str());
    st.names.insert(s.to_string(), leaked);
    leaked
}

fn apply(st: &mut State, r: &ChildObs, obs: &mut Obs) {
    for c in &r.classes {
        let name = intern(st, c);
        obs.class(name);
    }
    if r.nontrivial {
        obs.nontrivial();
    }
    if r.skipped {
        obs.skipped = true;
    }
    for (sig, msg) in &r.fails {
        obs.fails.push(Fail { sig: sig.clone(), msg: msg.clone() });
    }
}

enum ChildResult {
    Done(ChildObs),
    Hang,
    Broken(String),
}

fn run_child(sub: &str, json: &str) -> ChildResult {
    let exe = vengine::self_exe();
    let mut child = match Command::new(exe)
        .arg(CHILD_FLAG)
        .arg(sub)
        .stdin(Stdio::piped())
        .stdout(Stdio::piped())
        .stderr(Stdio::null())
        .spawn()
    {
        Ok(c) => c,
        Err(e) => return ChildResult::Broken(format!("spawn: {e}")),
    };
    if let Some(mut si) = child.stdin.take() {
        let _ = si.write_all(json.as_bytes());
    }
    let mut so = child.stdout.take();
    let reader = std::thread::spawn(move || {
        let mut buf = String::new();
        if let Some(s) = so.as_mut() {
            let _ = s.read_to_string(&mut buf);
        }
        buf
    });
    let t0 = Instant::now();
    let mut nap = Duration::from_micros(200);
    let status = loop {
        match child.try_wait() {
            Ok(Some(st)) => break Some(st),
            Ok(None) => {}
            Err(_) => break None,
        }
        if t0.elapsed() > Duration::from_secs(case_timeout_s(sub)) {
            let _ = child.kill();
            let _ = child.wait();
            let _ = reader.join();
            return ChildResult::Hang;
        }
        std::thread::sleep(nap);
        if nap < Duration::from_millis(5) {
            nap *= 2;
        }
    };
    let out = reader.join().unwrap_or_default();
    match status {
        Some(st) if st.success() => match serde_json::from_str::<ChildObs>(&out) {
            Ok(r) => ChildResult::Done(r),
            Err(e) => ChildResult::Broken(format!("child output not decodable: {e}")),
        },
        Some(st) => ChildResult::Broken(format!("child died: {st}")),
        None => ChildResult::Broken("wait failed".into()),
    }
}

/// Evaluate `case` of sub-check `sub` in a child process and merge what it observed into `obs`.
pub fn isolated<C: Serialize>(sub: &'static str, case: &C, obs: &mut Obs, hang_suffix: &str) {
    isolated_with(sub, case, obs, &|| hang_suffix.to_string())
}

/// like `isolated`; the suffix of the `hang:<sub>` signature is computed only when a case was killed
pub fn isolated_with<C: Serialize>(sub: &'static str, case: &C, obs: &mut Obs, hang_suffix: &dyn Fn() -> String) {
    let json = serde_json::to_string(case).unwrap_or_else(|_| "null".into());
    let h = vengine::fnv64(json.as_bytes());
    let shortcut = with_state(|st| {
        if let Some(r) = st.remembered.get(&h).cloned() {
            apply(st, &r, obs);
            return true;
        }
        if let Some(t) = st.first_unknown_failure {
            if t.elapsed() > Duration::from_secs(SHRINK_BUDGET_S) {
                obs.skip("shrink_time_budget_exhausted");
                return true;
            }
        }
        false
    });
    if shortcut {
        return;
    }
    let r = match run_child(sub, &json) {
        ChildResult::Done(r) => r,
        ChildResult::Hang => ChildObs {
            classes: vec![format!("{sub}_case_killed_after_timeout")],
            nontrivial: false,
            skipped: false,
            fails: vec![(
                format!("hang:{sub}{}", hang_suffix()),
                format!("evaluating the case (fit + predictions) did not finish within {} s; the child process was killed", case_timeout_s(sub)),
            )],
        },
        ChildResult::Broken(why) => {
            if why.starts_with("child died") {
                // abort / stack overflow inside the code under test
                ChildObs { classes: vec![], nontrivial: false, skipped: false, fails: vec![(format!("crash:{sub}-case"), why)] }
            } else {
                // infrastructure problem (cannot spawn / undecodable output): not a verdict about linfa. The case is
                // counted as not judged; the engine's generator-health rule turns a run in which this happens to more
                // than a fifth of the cases into INCONCLUSIVE (exit 2)
                let _ = why;
                ChildObs { classes: vec!["harness_child_process_unavailable".into()], nontrivial: false, skipped: true, fails: vec![] }
            }
        }
    };
    with_state(|st| {
        if !r.fails.is_empty() {
            if st.known.is_none() {
                st.known = Some(load_known());
            }
            let known = st.known.as_ref().unwrap();
            if r.fails.iter().any(|(sig, _)| !known.contains(sig)) && st.first_unknown_failure.is_none() {
                st.first_unknown_failure = Some(Instant::now());
            }
            st.remembered.insert(h, r.clone());
        }
        apply(st, &r, obs);
    });
}

thread_local! {
    static CHILD_PANIC_LOC: std::cell::RefCell<String> = const { std::cell::RefCell::new(String::new()) };
}

/// Entry point of the child mode; returns `Some(exit code)` when the process was started as a child.
pub fn child_main(run: &dyn Fn(&str, &str, &mut Obs) -> Result<(), String>) -> Option<i32> {
    let args: Vec<String> = std::env::args().collect();
    if args.get(1).map(|s| s.as_str()) != Some(CHILD_FLAG) {
        return None;
    }
    let sub = args.get(2).cloned().unwrap_or_default();
    std::panic::set_hook(Box::new(|info| {
        let loc = info.location().map(|l| format!("{}:{}", l.file(), l.line())).unwrap_or_default();
        CHILD_PANIC_LOC.with(|p| *p.borrow_mut() = loc);
    }));
    let mut json = String::new();
    if std::io::stdin().read_to_string(&mut json).is_err() {
        return Some(3);
    }
    let mut obs = Obs::default();
    let res = std::panic::catch_unwind(std::panic::AssertUnwindSafe(|| run(&sub, &json, &mut obs)));
    match res {
        Ok(Ok(())) => {}
        Ok(Err(e)) => {
            eprintln!("{e}");
            return Some(3);
        }
        Err(_) => {
            let loc = CHILD_PANIC_LOC.with(|p| p.borrow().clone());
            obs.fail(format!("panic:uncaught:{loc}"), format!("uncaught panic at {loc}"));
        }
    }
    let out = ChildObs {
        classes: obs.classes.iter().map(|s| s.to_string()).collect(),
        nontrivial: obs.nontrivial,
        skipped: obs.skipped,
        fails: obs.fails.iter().map(|f| (f.sig.clone(), f.msg.clone())).collect(),
    };
    let txt = serde_json::to_string(&out).unwrap_or_else(|_| "{}".into());
    let _ = std::io::stdout().write_all(txt.as_bytes());
    Some(0)
}
