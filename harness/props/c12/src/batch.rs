//! Stopping rule of the L-BFGS fits: a batch statistic.
//!
//! A single fit cannot be held to `|grad| <= gradient_tolerance` (L-BFGS may also stop on cost stagnation or the
//! iteration limit; 7 % of the fits of the ordinary sub-checks end between tol and 10 tol), but on benign problems -
//! overlapping classes, unit-scale features, alpha = 1, a generous iteration limit - practically every fit of the
//! unchanged code ends on the gradient criterion, i.e. with a Euclidean gradient norm below the tolerance. A case is
//! a batch of BATCH such multinomial problems with many parameters (K classes x (p + 1) rows, 40..=78 parameters)
//! derived from one seed; the verdict is on the MEDIAN over the batch of |grad|_2 / gradient_tolerance at the
//! returned point (the harness' own analytic gradient of the documented objective): it must not exceed MEDIAN_MAX.
//! A stopping rule that is looser by a factor depending on the number of parameters (largest component instead of
//! the Euclidean norm, a forgotten square root, ...) moves every fit of the batch, hence the median, above 1.

use crate::model::{Multi, Objective};
use linfa::prelude::*;
use linfa_logistic::MultiLogisticRegression;
use ndarray::{Array1, Array2};
use serde::{Deserialize, Serialize};
use vengine::gen::SplitMix;
use vengine::Obs;

pub const BATCH: usize = 7;
pub const MEDIAN_MAX: f64 = 1.0 + 1e-6;

#[derive(Debug, Clone, Serialize, Deserialize)]
pub struct BatchCase {
    pub seed: u64,
    /// features 7..=12
    pub p: usize,
    /// classes 5..=6
    pub k: usize,
    /// samples per class 12..=30
    pub per_class: usize,
    /// gradient tolerance 1e-4 or 1e-3
    pub tight: bool,
}

pub fn cases() -> impl proptest::strategy::Strategy<Value = BatchCase> {
    use proptest::prelude::*;
    (any::<u64>(), 7usize..=12, 5usize..=6, 12usize..=30, any::<bool>()).prop_map(|(seed, p, k, per_class, tight)| BatchCase { seed, p, k, per_class, tight })
}

pub fn check(c: &BatchCase, obs: &mut Obs) {
    if !(2..=16).contains(&c.p) || !(2..=8).contains(&c.k) || !(4..=64).contains(&c.per_class) {
        obs.skip("malformed_case");
        return;
    }
    obs.class("logistic_batch_many_parameters");
    // (1e-6 was tried and dropped: at that scale a third of the unchanged fits end on cost stagnation above the tolerance)
    let tol = if c.tight { 1e-3 } else { 1e-4 };
    let alpha = 1.0;
    let n = c.k * c.per_class;
    let mut ratios: Vec<f64> = vec![];
    for b in 0..BATCH {
        let mut rng = SplitMix(c.seed ^ (0x9e37_79b9_7f4a_7c15u64.wrapping_mul(b as u64 + 1)));
        // overlapping classes: class centres one unit apart per coordinate at most, unit noise
        let centres: Vec<Vec<f64>> = (0..c.k).map(|_| (0..c.p).map(|_| rng.gauss() * 0.7).collect()).collect();
        let mut x: Vec<Vec<f64>> = Vec::with_capacity(n);
        let mut cl: Vec<usize> = Vec::with_capacity(n);
        for i in 0..n {
            let class = i % c.k;
            x.push((0..c.p).map(|j| centres[class][j] + rng.gauss()).collect());
            cl.push(class);
        }
        let xa = Array2::from_shape_fn((n, c.p), |(i, j)| x[i][j]);
        let ya: Array1<usize> = Array1::from(cl.clone());
        let ds = DatasetBase::new(xa, ya);
        let fitted = vengine::guard(|| {
            MultiLogisticRegression::<f64>::default().alpha(alpha).with_intercept(true).gradient_tolerance(tol).max_iterations(2000).fit(&ds)
        });
        let model = match fitted {
            Ok(Ok(m)) => m,
            Ok(Err(_)) => {
                obs.class("logistic_batch_fit_error");
                continue;
            }
            Err(m) => {
                obs.fail("panic:multi:fit", m);
                return;
            }
        };
        // classes() is sorted for usize labels 0..k: column kk belongs to class kk
        if model.classes().to_vec() != (0..c.k).collect::<Vec<_>>() {
            obs.skip("logistic_batch_unexpected_class_order");
            return;
        }
        let (w, bias) = (model.params(), model.intercept());
        if w.dim() != (c.p, c.k) || bias.len() != c.k {
            obs.fail("multi:shape", format!("params() is {:?}, intercept() has {} entries", w.dim(), bias.len()));
            return;
        }
        let mut theta = Vec::with_capacity((c.p + 1) * c.k);
        for r in 0..c.p {
            for kk in 0..c.k {
                theta.push(w[[r, kk]]);
            }
        }
        for kk in 0..c.k {
            theta.push(bias[kk]);
        }
        let obj = Multi { x: &x, c: &cl, p: c.p, k: c.k, intercept: true, alpha };
        let g = obj.grad(&theta);
        let gnorm = g.iter().map(|v| v * v).sum::<f64>().sqrt();
        ratios.push(if gnorm.is_finite() { gnorm / tol } else { f64::INFINITY });
    }
    if ratios.len() < BATCH {
        obs.skip("logistic_batch_incomplete");
        return;
    }
    obs.nontrivial();
    obs.class_if(ratios.iter().any(|r| *r > MEDIAN_MAX), "logistic_batch_has_a_fit_above_tol");
    let mut sorted = ratios.clone();
    sorted.sort_by(|a, b| a.partial_cmp(b).unwrap_or(std::cmp::Ordering::Equal));
    let median = sorted[BATCH / 2];
    obs.ensure(median <= MEDIAN_MAX, "multi:batch-median-gradient-above-tolerance", || {
        format!(
            "{BATCH} independent multinomial fits ({} classes x {} features + intercept = {} parameters, n = {n}, alpha = 1, gradient tolerance {tol:e}): the median of |grad|_2 / tolerance at the returned points is {median:.4}; all ratios {:?}",
            c.k,
            c.p,
            (c.p + 1) * c.k,
            ratios
        )
    });
}
