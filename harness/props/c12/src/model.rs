//! The harness' own objectives (value, analytic gradient, analytic Hessian) for the three models of
//! C12, a damped Newton "polish" used as an independent reference minimiser, and the stationarity
//! verdict shared by all sub-checks. Nothing here calls into linfa.
//!
//! Parameter layouts (`theta`):
//! * binary logistic      `[w_0 .. w_{p-1}, (b)]`
//! * multinomial logistic row-major `(p (+1)) x K`, the intercept row last
//! * Tweedie GLM          `[w_0 .. w_{p-1}, (b)]`

use vengine::num;

pub const EPS: f64 = f64::EPSILON;

/// `‖∇‖₂ <= GRAD_SLACK * gradient_tolerance + RESOLUTION_FACTOR * sqrt(curv * max(1, M))`, M = magnitude of the pieces summed into F (>= |F|)
pub const GRAD_SLACK: f64 = 10.0;
/// 1e-7 ≈ sqrt(2 * 22 eps): a point whose objective is within 22 eps |F| of the minimum of a
/// function with largest curvature `curv` has a gradient of at most this size.
pub const RESOLUTION_FACTOR: f64 = 1e-7;
/// a run whose returned objective value is within this relative distance of the polished local
/// minimum stopped at the floating-point resolution of its own cost function (argmin's
/// `|prev_cost - cost| < eps` rule / `best_param` = last strictly better cost): not judged.
pub const STALL_REL: f64 = 4096.0 * EPS;

pub trait Objective {
    fn dim(&self) -> usize;
    fn value(&self, t: &[f64]) -> f64;
    fn grad(&self, t: &[f64]) -> Vec<f64>;
    fn hess(&self, t: &[f64]) -> Vec<Vec<f64>>;
    /// upper bound of the largest curvature at `t` (trace of a positive semi-definite curvature matrix)
    fn curv(&self, t: &[f64]) -> f64;
    /// sum of the magnitudes of the pieces that are added and subtracted to form `value` (DESIGN §1.5: the scale
    /// of a float sum is the largest magnitude entering it). Equal to |value| when all pieces have one sign.
    fn mag(&self, t: &[f64]) -> f64 {
        self.value(t).abs()
    }
}

pub fn sigmoid(z: f64) -> f64 {
    if z >= 0.0 {
        1.0 / (1.0 + (-z).exp())
    } else {
        let e = z.exp();
        e / (1.0 + e)
    }
}

/// ln(1 + exp(t))
pub fn softplus(t: f64) -> f64 {
    t.max(0.0) + (-t.abs()).exp().ln_1p()
}

pub fn softmax(h: &[f64]) -> Vec<f64> {
    let m = h.iter().cloned().fold(f64::NEG_INFINITY, f64::max);
    let e: Vec<f64> = h.iter().map(|v| (v - m).exp()).collect();
    let s: f64 = e.iter().sum();
    e.iter().map(|v| v / s).collect()
}

fn row_dot(x: &[f64], w: &[f64]) -> f64 {
    x.iter().zip(w).map(|(a, b)| a * b).sum()
}

// ------------------------------------------------------------------------------------------------
// binary logistic:  F(w,b) = sum_i ln(1 + exp(-y_i (x_i.w + b))) + alpha/2 |w|^2 ,  y_i in {-1,+1}

pub struct Binary<'a> {
    pub x: &'a [Vec<f64>],
    pub y: &'a [f64],
    pub p: usize,
    pub intercept: bool,
    pub alpha: f64,
}

impl Binary<'_> {
    pub fn z(&self, t: &[f64], i: usize) -> f64 {
        let b = if self.intercept { t.get(self.p).copied().unwrap_or(0.0) } else { 0.0 };
        row_dot(&self.x[i], &t[..self.p.min(t.len())]) + b
    }
}

impl Objective for Binary<'_> {
    fn dim(&self) -> usize {
        self.p + self.intercept as usize
    }
    fn value(&self, t: &[f64]) -> f64 {
        let mut f = 0.0;
        for i in 0..self.x.len() {
            f += softplus(-self.y[i] * self.z(t, i));
        }
        f + 0.5 * self.alpha * t.iter().take(self.p).map(|v| v * v).sum::<f64>()
    }
    fn grad(&self, t: &[f64]) -> Vec<f64> {
        let mut g = vec![0.0; self.dim()];
        for i in 0..self.x.len() {
            let r = -self.y[i] * sigmoid(-self.y[i] * self.z(t, i));
            for j in 0..self.p {
                g[j] += r * self.x[i][j];
            }
            if self.intercept {
                g[self.p] += r;
            }
        }
        for j in 0..self.p {
            g[j] += self.alpha * t[j];
        }
        g
    }
    fn hess(&self, t: &[f64]) -> Vec<Vec<f64>> {
        let d = self.dim();
        let mut h = num::zeros(d, d);
        for i in 0..self.x.len() {
            let s = sigmoid(self.z(t, i));
            let c = s * (1.0 - s);
            for a in 0..d {
                let xa = if a < self.p { self.x[i][a] } else { 1.0 };
                for b in 0..d {
                    let xb = if b < self.p { self.x[i][b] } else { 1.0 };
                    h[a][b] += c * xa * xb;
                }
            }
        }
        for j in 0..self.p {
            h[j][j] += self.alpha;
        }
        h
    }
    fn curv(&self, t: &[f64]) -> f64 {
        let h = self.hess(t);
        (0..self.dim()).map(|i| h[i][i]).sum()
    }
}

// ------------------------------------------------------------------------------------------------
// multinomial:  F(W,b) = -sum_i ln softmax(x_i W + b)[c_i] + alpha/2 |W|_F^2

pub struct Multi<'a> {
    pub x: &'a [Vec<f64>],
    /// class column of every sample
    pub c: &'a [usize],
    pub p: usize,
    pub k: usize,
    pub intercept: bool,
    pub alpha: f64,
}

impl Multi<'_> {
    pub fn scores(&self, t: &[f64], i: usize) -> Vec<f64> {
        let mut h = vec![0.0; self.k];
        for (kk, hk) in h.iter_mut().enumerate() {
            let mut s = 0.0;
            for j in 0..self.p {
                s += self.x[i][j] * t[j * self.k + kk];
            }
            if self.intercept {
                s += t[self.p * self.k + kk];
            }
            *hk = s;
        }
        h
    }
    fn rows(&self) -> usize {
        self.p + self.intercept as usize
    }
    fn xt(&self, i: usize, r: usize) -> f64 {
        if r < self.p {
            self.x[i][r]
        } else {
            1.0
        }
    }
}

impl Multi<'_> {
    /// The multinomial loss as linfa's `log_sum_exp` computes it on the unchanged tree: shift by the maximum of
    /// the whole score matrix, clamp each row sum at 1e-15. Used only to attribute a failure to that defect.
    pub fn value_global_max_clamped(&self, t: &[f64]) -> f64 {
        let hs: Vec<Vec<f64>> = (0..self.x.len()).map(|i| self.scores(t, i)).collect();
        let gmax = hs.iter().flatten().cloned().fold(f64::NEG_INFINITY, f64::max);
        let mut f = 0.0;
        for (i, h) in hs.iter().enumerate() {
            let s: f64 = h.iter().map(|v| (v - gmax).exp()).sum();
            let lse = s.max(1e-15).ln() + gmax;
            f += lse - h[self.c[i]];
        }
        f + 0.5 * self.alpha * t.iter().take(self.p * self.k).map(|v| v * v).sum::<f64>()
    }
}

impl Multi<'_> {
    /// global maximum of all scores minus the smallest row log-sum-exp (linfa's clamp acts when this exceeds 34.54)
    pub fn max_row_deficit(&self, t: &[f64]) -> f64 {
        let hs: Vec<Vec<f64>> = (0..self.x.len()).map(|i| self.scores(t, i)).collect();
        let g = hs.iter().flatten().cloned().fold(f64::NEG_INFINITY, f64::max);
        let mut worst = 0.0f64;
        for h in &hs {
            let m = h.iter().cloned().fold(f64::NEG_INFINITY, f64::max);
            let lse = m + h.iter().map(|v| (v - m).exp()).sum::<f64>().ln();
            worst = worst.max(g - lse);
        }
        worst
    }
}

impl Objective for Multi<'_> {
    fn dim(&self) -> usize {
        self.rows() * self.k
    }
    fn value(&self, t: &[f64]) -> f64 {
        let mut f = 0.0;
        for i in 0..self.x.len() {
            let h = self.scores(t, i);
            let m = h.iter().cloned().fold(f64::NEG_INFINITY, f64::max);
            let lse = m + h.iter().map(|v| (v - m).exp()).sum::<f64>().ln();
            f += lse - h[self.c[i]];
        }
        f + 0.5 * self.alpha * t.iter().take(self.p * self.k).map(|v| v * v).sum::<f64>()
    }
    fn grad(&self, t: &[f64]) -> Vec<f64> {
        let mut g = vec![0.0; self.dim()];
        for i in 0..self.x.len() {
            let pr = softmax(&self.scores(t, i));
            for r in 0..self.rows() {
                let xr = self.xt(i, r);
                for kk in 0..self.k {
                    let y = if self.c[i] == kk { 1.0 } else { 0.0 };
                    g[r * self.k + kk] += (pr[kk] - y) * xr;
                }
            }
        }
        for j in 0..self.p * self.k {
            g[j] += self.alpha * t[j];
        }
        g
    }
    fn hess(&self, t: &[f64]) -> Vec<Vec<f64>> {
        let d = self.dim();
        let mut h = num::zeros(d, d);
        for i in 0..self.x.len() {
            let pr = softmax(&self.scores(t, i));
            for r in 0..self.rows() {
                let xr = self.xt(i, r);
                for r2 in 0..self.rows() {
                    let xx = xr * self.xt(i, r2);
                    for a in 0..self.k {
                        for b in 0..self.k {
                            let w = if a == b { pr[a] * (1.0 - pr[a]) } else { -pr[a] * pr[b] };
                            h[r * self.k + a][r2 * self.k + b] += w * xx;
                        }
                    }
                }
            }
        }
        for j in 0..self.p * self.k {
            h[j][j] += self.alpha;
        }
        h
    }
    fn curv(&self, t: &[f64]) -> f64 {
        let mut c = self.alpha * (self.p * self.k) as f64;
        for i in 0..self.x.len() {
            let pr = softmax(&self.scores(t, i));
            let s: f64 = pr.iter().map(|q| q * (1.0 - q)).sum();
            let xx: f64 = (0..self.rows()).map(|r| self.xt(i, r) * self.xt(i, r)).sum();
            c += s * xx;
        }
        c
    }
}

// ------------------------------------------------------------------------------------------------
// Tweedie GLM:  F(w,b) = 1/2 ( sum_i d_p(y_i, mu_i) + alpha |w|^2 ),  mu_i = h(x_i.w + b)

#[derive(Clone, Copy, Debug, PartialEq)]
pub enum Lk {
    Identity,
    Log,
    Logit,
}

impl Lk {
    pub fn inv(self, eta: f64) -> f64 {
        match self {
            Lk::Identity => eta,
            Lk::Log => eta.exp(),
            Lk::Logit => sigmoid(eta),
        }
    }
    pub fn inv_d1(self, eta: f64) -> f64 {
        match self {
            Lk::Identity => 1.0,
            Lk::Log => eta.exp(),
            Lk::Logit => {
                let s = sigmoid(eta);
                s * (1.0 - s)
            }
        }
    }
    pub fn inv_d2(self, eta: f64) -> f64 {
        match self {
            Lk::Identity => 0.0,
            Lk::Log => eta.exp(),
            Lk::Logit => {
                let s = sigmoid(eta);
                s * (1.0 - s) * (1.0 - 2.0 * s)
            }
        }
    }
}

/// textbook unit deviance d_p(y, mu)
pub fn unit_deviance(power: f64, y: f64, mu: f64) -> f64 {
    if power == 0.0 {
        (y - mu) * (y - mu)
    } else if power == 1.0 {
        let t = if y == 0.0 { 0.0 } else { y * (y / mu).ln() };
        2.0 * (t - y + mu)
    } else if power == 2.0 {
        2.0 * ((mu / y).ln() + y / mu - 1.0)
    } else {
        let p = power;
        2.0 * (y.powf(2.0 - p) / ((1.0 - p) * (2.0 - p)) - y * mu.powf(1.0 - p) / (1.0 - p)
            + mu.powf(2.0 - p) / (2.0 - p))
    }
}

pub struct Tweedie<'a> {
    pub x: &'a [Vec<f64>],
    pub y: &'a [f64],
    pub p: usize,
    pub intercept: bool,
    pub alpha: f64,
    pub power: f64,
    pub link: Lk,
}

impl Tweedie<'_> {
    pub fn eta(&self, t: &[f64], i: usize) -> f64 {
        let b = if self.intercept { t.get(self.p).copied().unwrap_or(0.0) } else { 0.0 };
        row_dot(&self.x[i], &t[..self.p.min(t.len())]) + b
    }
    /// true when every mean lies in the open domain of the unit deviance
    pub fn in_domain(&self, t: &[f64]) -> bool {
        (0..self.x.len()).all(|i| {
            let mu = self.link.inv(self.eta(t, i));
            mu.is_finite() && (self.power == 0.0 || mu > 0.0)
        })
    }
    fn xt(&self, i: usize, r: usize) -> f64 {
        if r < self.p {
            self.x[i][r]
        } else {
            1.0
        }
    }
}

impl Objective for Tweedie<'_> {
    fn dim(&self) -> usize {
        self.p + self.intercept as usize
    }
    fn value(&self, t: &[f64]) -> f64 {
        let mut f = 0.0;
        for i in 0..self.x.len() {
            let mu = self.link.inv(self.eta(t, i));
            if self.power != 0.0 && !(mu > 0.0) {
                return f64::NAN;
            }
            f += unit_deviance(self.power, self.y[i], mu);
        }
        0.5 * (f + self.alpha * t.iter().take(self.p).map(|v| v * v).sum::<f64>())
    }
    fn grad(&self, t: &[f64]) -> Vec<f64> {
        let d = self.dim();
        let mut g = vec![0.0; d];
        for i in 0..self.x.len() {
            let eta = self.eta(t, i);
            let mu = self.link.inv(eta);
            // d(1/2 d_p)/d mu = -(y - mu) / mu^p
            let r = -(self.y[i] - mu) / mu.powf(self.power) * self.link.inv_d1(eta);
            for a in 0..d {
                g[a] += r * self.xt(i, a);
            }
        }
        for j in 0..self.p {
            g[j] += self.alpha * t[j];
        }
        g
    }
    fn hess(&self, t: &[f64]) -> Vec<Vec<f64>> {
        let d = self.dim();
        let mut h = num::zeros(d, d);
        let p = self.power;
        for i in 0..self.x.len() {
            let eta = self.eta(t, i);
            let mu = self.link.inv(eta);
            let y = self.y[i];
            let r = -(y - mu) / mu.powf(p);
            let dr = 1.0 / mu.powf(p) + if p == 0.0 { 0.0 } else { p * (y - mu) / mu.powf(p + 1.0) };
            let h1 = self.link.inv_d1(eta);
            let c = dr * h1 * h1 + r * self.link.inv_d2(eta);
            for a in 0..d {
                for b in 0..d {
                    h[a][b] += c * self.xt(i, a) * self.xt(i, b);
                }
            }
        }
        for j in 0..self.p {
            h[j][j] += self.alpha;
        }
        h
    }
    /// The unit deviances are differences of large pieces when y is close to mu or far from 1 (e.g. the power-3
    /// deviance of targets ~1e-8 is a difference of terms ~1e8): the float resolution of the cost is eps times this.
    fn mag(&self, t: &[f64]) -> f64 {
        let p = self.power;
        let mut m = 0.0;
        for i in 0..self.x.len() {
            let mu = self.link.inv(self.eta(t, i));
            let y = self.y[i];
            m += if p == 0.0 {
                (y.abs() + mu.abs()) * (y.abs() + mu.abs())
            } else if p == 1.0 {
                2.0 * (if y == 0.0 { 0.0 } else { (y * (y / mu).ln()).abs() } + y.abs() + mu.abs())
            } else if p == 2.0 {
                2.0 * ((mu / y).ln().abs() + (y / mu).abs() + 1.0)
            } else {
                2.0 * ((y.powf(2.0 - p) / ((1.0 - p) * (2.0 - p))).abs() + (y * mu.powf(1.0 - p) / (1.0 - p)).abs() + (mu.powf(2.0 - p) / (2.0 - p)).abs())
            };
        }
        0.5 * (m + self.alpha * t.iter().take(self.p).map(|v| v * v).sum::<f64>())
    }
    /// trace of the expected (Fisher) curvature plus the absolute size of the residual term
    fn curv(&self, t: &[f64]) -> f64 {
        let p = self.power;
        let mut c = self.alpha * self.p as f64;
        for i in 0..self.x.len() {
            let eta = self.eta(t, i);
            let mu = self.link.inv(eta);
            let y = self.y[i];
            let h1 = self.link.inv_d1(eta);
            // arranged so that tiny means (mu^p or mu^(p+1) underflowing) do not produce inf * 0
            let a = h1 / mu.powf(0.5 * p);
            let rel = if p == 0.0 { 0.0 } else { (p * (y - mu) / mu).abs() };
            let w = a * a * (1.0 + rel) + ((y - mu) * (self.link.inv_d2(eta) / mu.powf(p))).abs();
            let xx: f64 = (0..self.dim()).map(|a| self.xt(i, a) * self.xt(i, a)).sum();
            c += w * xx;
        }
        c
    }
}

// ------------------------------------------------------------------------------------------------
// Newton polish

pub struct Polished {
    pub theta: Vec<f64>,
    pub f: f64,
    pub gnorm: f64,
    pub iters: usize,
}

/// Damped (Levenberg-regularised) Newton iteration on the harness' own objective, started at `t0`.
/// Returns the last accepted point; `gnorm` tells how far it got.
pub fn polish(obj: &dyn Objective, t0: &[f64], max_iter: usize) -> Option<Polished> {
    let d = obj.dim();
    if t0.len() != d {
        return None;
    }
    let mut t = t0.to_vec();
    let mut f = obj.value(&t);
    if !f.is_finite() {
        return None;
    }
    let mut g = obj.grad(&t);
    let mut gn = num::norm2(&g);
    let mut lambda = 0.0f64;
    let mut iters = 0;
    while iters < max_iter {
        if !gn.is_finite() {
            return None;
        }
        if gn == 0.0 {
            break;
        }
        let h = obj.hess(&t);
        let tr: f64 = (0..d).map(|i| h[i][i].abs()).sum::<f64>().max(1e-300);
        let base = 1e-13 * tr / d as f64;
        let mut accepted = false;
        for _try in 0..60 {
            let lam = lambda.max(base);
            let mut hl = h.clone();
            for (i, row) in hl.iter_mut().enumerate() {
                row[i] += lam;
            }
            let step = num::solve(&hl, &g.iter().map(|v| -v).collect::<Vec<_>>());
            if let Some(s) = step {
                let slope = num::dot(&g, &s);
                if slope < 0.0 && s.iter().all(|v| v.is_finite()) {
                    let tn: Vec<f64> = t.iter().zip(&s).map(|(a, b)| a + b).collect();
                    let fnew = obj.value(&tn);
                    if fnew.is_finite() {
                        let gnew = obj.grad(&tn);
                        let gnn = num::norm2(&gnew);
                        let decrease = fnew <= f + 1e-4 * slope;
                        let flat = fnew <= f + 64.0 * EPS * f.abs().max(1.0) && gnn <= 0.5 * gn;
                        if gnn.is_finite() && (decrease || flat) {
                            t = tn;
                            f = fnew;
                            g = gnew;
                            gn = gnn;
                            lambda = if lambda > base { lambda * 0.2 } else { 0.0 };
                            accepted = true;
                            break;
                        }
                    }
                }
            }
            lambda = (lam * 8.0).max(1e-9 * tr / d as f64);
        }
        iters += 1;
        if !accepted {
            break;
        }
    }
    Some(Polished { theta: t, f, gnorm: gn, iters })
}

// ------------------------------------------------------------------------------------------------
// verdict

#[derive(Debug, Clone, PartialEq)]
pub enum Verdict {
    /// gradient within the bound
    Stationary,
    /// gradient above the bound but the objective value is at floating-point resolution of the local minimum
    Stalled,
    /// neither
    NotStationary,
    /// not stationary, and the fit returns something else when allowed twice as many iterations:
    /// the run was stopped by `max_iterations`, i.e. it did not converge (set by the callers)
    IterationCap,
    /// gradient above the plain tolerance and the curvature needed for the resolution term is not representable: not judged
    CurvatureOverflow,
    /// the objective cannot be evaluated at the returned point (outside the deviance domain / non-finite)
    Undefined,
}

pub struct Judged {
    pub verdict: Verdict,
    pub gnorm: f64,
    pub bound: f64,
    pub f: f64,
    /// F(returned) - F(polished) when a polish was run
    pub gap: Option<f64>,
}

pub fn grad_bound(tol: f64, curv: f64, f: f64) -> f64 {
    GRAD_SLACK * tol + RESOLUTION_FACTOR * (curv.max(0.0) * f.abs().max(1.0)).sqrt()
}

/// where inside the bound a stationary verdict landed
pub fn grad_class(gnorm: f64, tol: f64) -> &'static str {
    if gnorm < tol {
        "stationary_grad_below_tol"
    } else if gnorm <= GRAD_SLACK * tol {
        "stationary_grad_below_10_tol"
    } else {
        "stationary_grad_within_resolution_term"
    }
}

pub fn judge(obj: &dyn Objective, theta: &[f64], tol: f64) -> Judged {
    if theta.len() != obj.dim() || theta.iter().any(|v| !v.is_finite()) {
        return Judged { verdict: Verdict::Undefined, gnorm: f64::NAN, bound: 0.0, f: f64::NAN, gap: None };
    }
    let f = obj.value(theta);
    let g = obj.grad(theta);
    let gn = num::norm2(&g);
    let curv = obj.curv(theta);
    if !f.is_finite() || !gn.is_finite() {
        return Judged { verdict: Verdict::Undefined, gnorm: gn, bound: 0.0, f, gap: None };
    }
    if !curv.is_finite() {
        // value and gradient are fine, only the curvature estimate overflowed: without it only the plain tolerance applies
        let bound = GRAD_SLACK * tol;
        let verdict = if gn <= bound { Verdict::Stationary } else { Verdict::CurvatureOverflow };
        return Judged { verdict, gnorm: gn, bound, f, gap: None };
    }
    let mag = obj.mag(theta);
    let mag = if mag.is_finite() { mag.max(f.abs()) } else { f.abs() };
    let bound = grad_bound(tol, curv, mag);
    if gn <= bound {
        return Judged { verdict: Verdict::Stationary, gnorm: gn, bound, f, gap: None };
    }
    // not within the bound: is the value nevertheless at the resolution of the cost function?
    if let Some(p) = polish(obj, theta, 200) {
        let gap = f - p.f;
        let pol_curv = obj.curv(&p.theta);
        let converged = p.gnorm <= grad_bound(0.0, pol_curv, mag).max(1e-12);
        if converged && gap <= STALL_REL * mag.max(1.0) {
            return Judged { verdict: Verdict::Stalled, gnorm: gn, bound, f, gap: Some(gap) };
        }
        return Judged { verdict: Verdict::NotStationary, gnorm: gn, bound, f, gap: Some(gap) };
    }
    Judged { verdict: Verdict::NotStationary, gnorm: gn, bound, f, gap: None }
}

/// condition number of the harness Hessian at `t` (largest / smallest eigenvalue magnitude); inf when singular or not finite
pub fn hessian_condition(obj: &dyn Objective, t: &[f64]) -> f64 {
    let h = obj.hess(t);
    if h.iter().flatten().any(|v| !v.is_finite()) {
        return f64::INFINITY;
    }
    let (ev, _) = num::jacobi_eigh(&h);
    let mx = ev.iter().fold(0.0f64, |a, b| a.max(b.abs()));
    let mn = ev.iter().fold(f64::INFINITY, |a, b| a.min(b.abs()));
    if mn > 0.0 && mx.is_finite() {
        mx / mn
    } else {
        f64::INFINITY
    }
}

// ------------------------------------------------------------------------------------------------
// finite-difference self test of the analytic derivatives above

/// largest error of the analytic gradient against central differences of `value`, and of the analytic
/// Hessian against central differences of `grad`, both relative to (1 + magnitude).
pub fn fd_errors(obj: &dyn Objective, t: &[f64]) -> (f64, f64) {
    let d = obj.dim();
    let g = obj.grad(t);
    let h = obj.hess(t);
    let gscale = 1.0 + g.iter().fold(0.0f64, |a, b| a.max(b.abs()));
    let hscale = 1.0 + h.iter().flatten().fold(0.0f64, |a, b| a.max(b.abs()));
    let mut eg = 0.0f64;
    let mut eh = 0.0f64;
    for j in 0..d {
        let step = 1e-5 * (1.0 + t[j].abs());
        let mut tp = t.to_vec();
        let mut tm = t.to_vec();
        tp[j] += step;
        tm[j] -= step;
        let fd = (obj.value(&tp) - obj.value(&tm)) / (tp[j] - tm[j]);
        eg = eg.max((fd - g[j]).abs() / gscale);
        let gp = obj.grad(&tp);
        let gm = obj.grad(&tm);
        for a in 0..d {
            let fdh = (gp[a] - gm[a]) / (tp[j] - tm[j]);
            eh = eh.max((fdh - h[a][j]).abs() / hscale);
        }
    }
    (eg, eh)
}
