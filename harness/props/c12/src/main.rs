fn main() {
    if let Some(code) = c12::child_entry() {
        std::process::exit(code);
    }
    vengine::main(c12::property())
}
