fn main() {
    vengine::main(c12::property())
}
