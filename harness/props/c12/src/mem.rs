//! Memory layouts of the record matrices handed to linfa-svm (the logical n x p matrix is always the
//! same): `Fit` is implemented for owned `Array2` (standard or Fortran order) and for `ArrayView2`
//! (any strides), `predict` for any `ArrayBase<D, Ix2>`.

use ndarray::{s, Array2, ArrayView2, ShapeBuilder};

pub const MEMS: u8 = 6;

pub fn mem_name(m: u8) -> &'static str {
    match m % MEMS {
        0 => "mem_owned_row_major",
        1 => "mem_owned_column_major",
        2 => "mem_view_row_major",
        3 => "mem_view_column_major",
        4 => "mem_view_strided_with_gaps",
        _ => "mem_view_reversed_rows",
    }
}

pub fn is_view(m: u8) -> bool {
    m % MEMS >= 2
}

/// an owned matrix equal to `x` in the memory order of layout 0 / 1
pub fn owned<F: Clone + num_traits::Zero>(x: &Array2<F>, m: u8) -> Array2<F> {
    if m % MEMS == 1 {
        let mut f = Array2::zeros(x.raw_dim().f());
        f.assign(x);
        f
    } else {
        x.to_owned()
    }
}

/// backing storage of a view layout; `view_of` borrows the logical matrix from it
pub fn backing<F: Clone + num_traits::Zero>(x: &Array2<F>, m: u8, junk: F) -> Array2<F> {
    let (n, p) = x.dim();
    match m % MEMS {
        3 | 1 => owned(x, 1),
        4 => {
            // columns 1, 3, 5, .. of a wider matrix, rows 0, 2, 4, .. of a taller one; the gaps hold junk
            let mut b = Array2::from_elem((2 * n + 1, 2 * p + 1), junk);
            b.slice_mut(s![..2 * n;2, 1..;2]).assign(x);
            b
        }
        5 => x.slice(s![..;-1, ..]).to_owned(),
        _ => x.to_owned(),
    }
}

pub fn view_of<F>(b: &Array2<F>, m: u8, n: usize, p: usize) -> ArrayView2<'_, F> {
    let v = match m % MEMS {
        4 => b.slice(s![..2 * n;2, 1..;2]),
        5 => b.slice(s![..;-1, ..]),
        _ => b.view(),
    };
    assert_eq!(v.dim(), (n, p));
    v
}

/// Memory layout of the training records handed to `fit` (a view: row-major, column-major, strided with junk-filled
/// gaps, reversed rows), a function of the case's data so that every stored case keeps its meaning.
pub fn train_mem(x: &[Vec<f64>]) -> u8 {
    let b = x.first().and_then(|r| r.first()).map(|v| v.to_bits()).unwrap_or(0);
    2 + (((b >> 7) ^ (b >> 29) ^ (b >> 51) ^ x.len() as u64) % 4) as u8
}
