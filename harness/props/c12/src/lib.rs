//! C12 — logistic and Tweedie regression return stationary points; probabilities valid.
//!
//! The oracle is the harness' own objective (module `model`): value, analytic gradient and Hessian
//! of the documented loss, validated against finite differences by the `oracle_selftest`
//! sub-check. A fit is judged by the norm of that gradient at the point linfa returns.

pub mod batch;
pub mod glm;
pub mod isolate;
pub mod logistic;
pub mod mem;
pub mod model;

use model::{Binary, Lk, Multi, Objective, Tweedie};
use proptest::prelude::*;
use serde::{Deserialize, Serialize};
use vengine::gen::SplitMix;
use vengine::{prop_sub, Obs, Property, Tier};

fn run_inner(sub: &str, json: &str, obs: &mut Obs) -> Result<(), String> {
    match sub {
        "binary" | "multinomial" => {
            let c: logistic::LogitCase = serde_json::from_str(json).map_err(|e| e.to_string())?;
            logistic::check(&c, obs);
        }
        "glm" => {
            let c: glm::GlmCase = serde_json::from_str(json).map_err(|e| e.to_string())?;
            glm::check(&c, obs);
        }
        other => return Err(format!("unknown sub-check {other}")),
    }
    Ok(())
}

/// `Some(exit code)` when this process was started as a per-case child (see `isolate`).
pub fn child_entry() -> Option<i32> {
    isolate::child_main(&run_inner)
}

fn binary_isolated(c: &logistic::LogitCase, obs: &mut Obs) {
    // a fit that never returns gets its own signature when the gradient tolerance is at the float resolution of the
    // problem (NaN iterate -> NaN loss -> endless line search); only evaluated when a case was killed
    let suffix = || if logistic::tolerance_at_gradient_resolution(c) { ":nan-iterate-at-cost-resolution".to_string() } else { String::new() };
    isolate::isolated_with("binary", c, obs, &suffix)
}
fn multinomial_isolated(c: &logistic::LogitCase, obs: &mut Obs) {
    // a fit that never returns is attributed to the known log_sum_exp defect when the harness' own minimiser or the
    // solver's first trial point lies in or near the region where linfa's global-max shift + clamp falsifies the loss:
    // the line search then works with inconsistent values and has no iteration limit (only evaluated when a case was killed)
    let suffix = || {
        if logistic::tolerance_at_gradient_resolution(c) {
            return ":nan-iterate-at-cost-resolution".to_string();
        }
        match logistic::deficit_at_own_minimiser(c) {
            Some(d) if d >= logistic::LSE_DEFECT_REACH => ":log-sum-exp-global-max".to_string(),
            _ => String::new(),
        }
    };
    isolate::isolated_with("multinomial", c, obs, &suffix)
}
fn glm_isolated(c: &glm::GlmCase, obs: &mut Obs) {
    // a fit that never returns gets its own signature when the mean can leave the deviance's domain
    // (identity link, power >= 1): there the cost becomes NaN and argmin's line search spins forever
    let suffix = match glm::derive(c) {
        Some(d) if d.link == Lk::Identity && d.power >= 1.0 => ":identity-link-nan-deviance",
        _ => "",
    };
    isolate::isolated("glm", c, obs, suffix)
}

// ------------------------------------------------------------------------------------------------
// self test of the oracle: analytic gradient vs central differences of the own objective,
// analytic Hessian vs central differences of the own gradient

#[derive(Debug, Clone, Serialize, Deserialize)]
pub struct SelfCase {
    pub seed: u64,
    /// 0 binary, 1 multinomial, 2 Tweedie
    pub model: u8,
    pub n: usize,
    pub p: usize,
    pub k: usize,
    pub intercept: bool,
    pub alpha_ix: u8,
    pub power_ix: u8,
    pub link_ix: u8,
}

/// relative (to 1 + largest entry) error allowed between analytic and finite-difference derivatives
pub const FD_TOL: f64 = 2e-6;

fn selftest(c: &SelfCase, obs: &mut Obs) {
    let mut rng = SplitMix(c.seed);
    let n = c.n.clamp(3, 40);
    let p = c.p.clamp(1, 4);
    let k = c.k.clamp(2, 6);
    let alpha = [0.0, 1e-3, 1.0, 10.0][(c.alpha_ix as usize).min(3)];
    let x: Vec<Vec<f64>> = (0..n).map(|_| (0..p).map(|_| rng.gauss()).collect()).collect();
    let (eg, eh, what) = match c.model % 3 {
        0 => {
            obs.class("selftest_binary");
            let y: Vec<f64> = (0..n).map(|_| if rng.unit() < 0.5 { 1.0 } else { -1.0 }).collect();
            let obj = Binary { x: &x, y: &y, p, intercept: c.intercept, alpha };
            let t: Vec<f64> = (0..obj.dim()).map(|_| rng.gauss()).collect();
            let (a, b) = model::fd_errors(&obj, &t);
            (a, b, "binary")
        }
        1 => {
            obs.class("selftest_multinomial");
            let cl: Vec<usize> = (0..n).map(|_| rng.below(k)).collect();
            let obj = Multi { x: &x, c: &cl, p, k, intercept: c.intercept, alpha };
            let t: Vec<f64> = (0..obj.dim()).map(|_| rng.gauss()).collect();
            let (a, b) = model::fd_errors(&obj, &t);
            (a, b, "multinomial")
        }
        _ => {
            let power = glm::POWERS[(c.power_ix as usize).min(glm::POWERS.len() - 1)];
            let link = [Lk::Identity, Lk::Log, Lk::Logit][(c.link_ix as usize).min(2)];
            obs.class(match link {
                Lk::Identity => "selftest_tweedie_identity",
                Lk::Log => "selftest_tweedie_log",
                Lk::Logit => "selftest_tweedie_logit",
            });
            // parameters that keep every mean well inside the domain
            let mut t: Vec<f64> = (0..p).map(|_| 0.2 * rng.gauss()).collect();
            let intercept = c.intercept || link == Lk::Identity;
            if intercept {
                t.push(if link == Lk::Identity { 4.0 } else { 0.3 * rng.gauss() });
            }
            let x: Vec<Vec<f64>> = x.iter().map(|r| r.iter().map(|v| v.clamp(-2.5, 2.5)).collect()).collect();
            let y: Vec<f64> = (0..n)
                .map(|i| {
                    let u = rng.unit();
                    if (1.0..2.0).contains(&power) && i % 5 == 0 {
                        0.0
                    } else if link == Lk::Logit {
                        0.05 + 0.9 * u
                    } else {
                        0.2 + 4.0 * u
                    }
                })
                .collect();
            let obj = Tweedie { x: &x, y: &y, p, intercept, alpha, power, link };
            if !obj.in_domain(&t) {
                obs.skip("selftest_point_outside_domain");
                return;
            }
            let (a, b) = model::fd_errors(&obj, &t);
            (a, b, "tweedie")
        }
    };
    obs.nontrivial();
    obs.ensure(eg <= FD_TOL, "selftest:gradient-vs-finite-differences", || {
        format!("{what}: analytic gradient of the harness objective differs from central differences by {eg:e} (relative)")
    });
    obs.ensure(eh <= FD_TOL, "selftest:hessian-vs-finite-differences", || {
        format!("{what}: analytic Hessian of the harness objective differs from central differences of its gradient by {eh:e} (relative)")
    });
}

fn self_strategy() -> impl Strategy<Value = SelfCase> {
    (any::<u64>(), 0u8..3, 3usize..=40, 1usize..=4, 2usize..=6, any::<bool>(), 0u8..4, 0u8..7, 0u8..3).prop_map(
        |(seed, model, n, p, k, intercept, alpha_ix, power_ix, link_ix)| SelfCase { seed, model, n, p, k, intercept, alpha_ix, power_ix, link_ix },
    )
}

pub fn property() -> Property {
    Property {
        id: "C12",
        rule: "logistic cases = (n 20..120 rows x p 1..4 gaussian features times scale {1,10,100}, labels drawn from a random linear score plus \
               logistic/Gumbel noise, class balance 0.1..0.9 / 2..6 classes, label type bool|usize|String with permuted names, permuted sample order, \
               alpha {0,1e-3,1,10}, intercept on/off, optional initial parameters, gradient tolerance {1e-4,1e-6}, decision threshold); every case is \
               fitted twice (generated order/naming and canonical order with usize labels). GLM cases = (12..80 rows x 1..4 features) x power {0,1,1.2,1.5,1.8,2,3} x link \
               {identity,log,logit} x alpha {0,1e-3,1,10} x intercept on/off x tol {1e-4,1e-6} x target scale 10^{-9,-8,-6,-3,0,3,6}, targets generated from the model with multiplicative noise, exact zeros for 1<=power<2, planted out-of-support \
               targets. Non-trivial = (alpha = 0 and the harness certified overlapping classes) or (String labels whose names are not in class-index \
               order) or (GLM with 1 <= power < 2 that was judged) or an oracle self-test case; distinct = distinct canonical JSON of the case",
        assumptions: vec![
            format!(
                "stationarity bound: |grad|_2 <= {}*gradient_tolerance + {:e}*sqrt(curv*max(1,M)), M = sum of the magnitudes of the pieces added/subtracted to form F (= |F| for the logistic losses; for Tweedie deviances the cancelling terms, e.g. ~1e8 per sample for power 3 at targets ~1e-8), grad = analytic gradient of the harness' own objective, \
                 curv = trace of its (Fisher) curvature at the returned point; the second term is the gradient size of a point whose objective is within 22 eps*M of the minimum",
                model::GRAD_SLACK,
                model::RESOLUTION_FACTOR
            ),
            format!(
                "a fit whose gradient exceeds the bound but whose objective is within {:e}*max(1,M) of the harness' Newton-polished local minimum is counted as \
                 'stalled at cost resolution' and not judged on stationarity (argmin stops on |prev_cost-cost| < eps and returns the last strictly better cost)",
                model::STALL_REL
            ),
            "fits that return Err (solver/line-search failure) are counted, not judged".into(),
            format!(
                "alpha = 0 is used only when the harness' own Newton solution of the unpenalised problem has |grad| <= {:e}*feature_scale with every class probability of every sample >= {:e} \
                 (certificate that the classes overlap); otherwise alpha = {} is forced",
                logistic::CERT_GRAD,
                logistic::CERT_PROB,
                logistic::FORCED_ALPHA
            ),
            "binary objective: sum ln(1+exp(-y z)) + alpha/2 |w|^2 with y = +1 for labels().pos.class (whichever class linfa reports as positive), intercept unpenalised; \
             multinomial: -sum ln softmax(xW+b)[class] + alpha/2 |W|_F^2, one-hot columns in the order classes() reports"
                .into(),
            "probabilities are compared with the harness' own logistic/softmax of the score, allowing a score rounding error of 16 eps * sum|x_j w_j| and 1e-12 relative; \
             rows sum to one within 1e-9; extreme rows have |x.w| = 1e3 and single features of 1e6*scale"
                .into(),
            "binary decision: predict == pos exactly when linfa's own probability >= threshold; multinomial: the predicted class must have the row-maximal probability within 1e-12 relative (ties may be broken either way)".into(),
            "GLM objective 1/2(sum d_p(y,mu) + alpha |w|^2) with textbook unit deviances, intercept unpenalised; identity link with power >= 1 is always fitted with an intercept and a returned point \
             outside the deviance's domain (mean <= 0) is counted, not judged; log/logit links: targets generated inside the link's mean range"
                .into(),
            format!(
                "convergence evidence: a fit is first run with max_iterations = {} (logistic) / max_iter = {} (GLM); when its gradient exceeds the bound it is re-run with twice that limit —                  different parameters mean the first run was cut off by the iteration limit (counted 'stopped_by_max_iterations', not judged), bit-identical parameters mean the solver stopped on                  its own and the case is judged",
                logistic::MAX_ITER,
                glm::MAX_ITER
            ),
            format!(
                "every linfa-facing case runs in a child process of the check binary; a case that does not finish within {} s (logistic) / {} s (GLM) is killed and reported as failure hang:<sub>                  (ordinary cases take milliseconds, the slowest legitimate ones a few seconds); after the first failure with an unknown signature a worker spends at most {} s on shrinking",
                isolate::case_timeout_s("binary"),
                isolate::case_timeout_s("glm"),
                isolate::SHRINK_BUDGET_S
            ),
            format!(
                "GLM features are halved until the harness' objective is finite at start - t*gradient for t in {{0.5,1,2,5}} and the linear predictor moves by at most {} at t = 1                  (start = linfa's start point: coefficients 0, intercept link(mean y)); without this most fits fail in the first line search. Identity link is drawn for 1 in 8 cases when power >= 1",
                glm::FIRST_STEP_CAP
            ),
            "a multinomial non-stationary result is attributed to the known log_sum_exp defect (own signature) only when the loss recomputed with linfa's global-max shift and 1e-15 clamp differs              from the true loss at the returned point or at the harness-polished minimiser, or when some training row's log-sum-exp lies >= 30 below the global score maximum at one of \
             these two points (the clamp acts from 34.54 on; solvers were observed to stop at the edge of that region)"
                .into(),
            "GLM target scale: the targets are multiplied by 10^s, s in {0 (5 of 12), -9, -8 (2 of 12), -6, -3, 3, 6}; log and logit models then always get an intercept (the scale can only move into it), the logit link \
             takes s <= 0 only; a returned point whose gradient exceeds 10*tol while the curvature estimate overflows (means ~1e-120) is counted, not judged"
                .into(),
            "options at their defaults: in 2 of 5 logistic cases a random subset of {alpha, with_intercept, gradient_tolerance, max_iterations} and in half of the GLM cases a subset of \
             {link, alpha, fit_intercept, tol, max_iter, power} is NOT set on the builder; the oracle then uses the documented default (logistic doc comments: alpha 1.0, intercept true, \
             gradient tolerance 1e-4, 100 iterations; Tweedie: link = identity for power <= 0 and log otherwise per the doc comment of `link`, alpha 1, fit_intercept true, power 1, tol 1e-4, \
             max_iter 100 as set by TweedieRegressorParams::new(), which mirrors scikit-learn)"
                .into(),
            format!("a non-stationary GLM result whose harness Hessian has a condition number above {:e} is counted as ill-conditioned, not judged (the feature shrinking can create such problems at target scale 1e6)", glm::COND_MAX),
            "only f64 is exercised".into(),
            format!("oracle self-test: analytic gradient/Hessian of the harness objectives agree with central differences within {:e} relative", FD_TOL),
        ],
        subs: vec![
            prop_sub("multinomial", 4000, 36000, |t: Tier| logistic::case_strategy(true, t), multinomial_isolated)
                .chunks(16)
                .require(&[
                    "alpha0_overlapping",
                    "labels_string",
                    "classes_6",
                    "multi_extreme_scores",
                    "naming_not_in_class_order",
                    "default_alpha_not_set",
                    "default_intercept_not_set",
                    "default_gradient_tolerance_not_set",
                ]),
            prop_sub("binary", 8000, 72000, |t: Tier| logistic::case_strategy(false, t), binary_isolated)
                .chunks(16)
                .require(&[
                    "alpha0_overlapping",
                    "labels_string",
                    "labels_bool",
                    "binary_extreme_scores",
                    "threshold_at_boundary",
                    "imbalanced",
                    "default_alpha_not_set",
                    "default_intercept_not_set",
                    "default_gradient_tolerance_not_set",
                ]),
            prop_sub("glm", 9000, 90000, glm::case_strategy, glm_isolated)
                .chunks(16)
                .require(&[
                    "power_between_1_and_2",
                    "power_1_poisson",
                    "link_logit",
                    "link_identity",
                    "target_outside_support",
                    "zero_targets_in_support",
                    "target_scale_1e-8",
                    "target_scale_1e6",
                    "tiny_targets_log_link_solver_moved",
                    "default_link_not_set_power_0",
                    "default_alpha_not_set",
                    "default_fit_intercept_not_set",
                    "default_tol_not_set",
                    "default_max_iter_not_set",
                ]),
            prop_sub("logistic_batch", 480, 4800, |_t: Tier| batch::cases(), batch::check).chunks(16).require(&["logistic_batch_many_parameters"]),
            prop_sub("oracle_selftest", 1200, 6000, |_t: Tier| self_strategy(), selftest).chunks(2),
        ],
    }
}
