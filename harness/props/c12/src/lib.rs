//! C12 — stub (to be written; see /verif/harness/AUTHORING.md and DESIGN.md §3 C12)
use vengine::Property;

pub fn property() -> Property {
    Property { id: "C12", rule: "", assumptions: vec![], subs: vec![] }
}
