//! Tweedie GLM: stationarity for 1/2 (deviance + alpha |w|^2) with textbook unit deviances,
//! predictions = inverse link of the linear predictor and inside the link's range, rejection of
//! targets outside the distribution's support.

use crate::model::{self, Lk, Objective, Tweedie, Verdict};
use linfa::traits::{Fit, Predict};
use linfa::DatasetBase;
use linfa_linear::{LinearError, Link, TweedieRegressor};
use ndarray::{Array1, Array2};
use proptest::prelude::*;
use serde::{Deserialize, Serialize};
use vengine::gen::{gauss, idx};
use vengine::{Obs, Tier};

pub const P_MAX: usize = 4;
pub const POWERS: [f64; 7] = [0.0, 1.0, 1.2, 1.5, 1.8, 2.0, 3.0];
pub const ALPHAS: [f64; 4] = [0.0, 1e-3, 1.0, 10.0];
pub const TOLS: [f64; 2] = [1e-4, 1e-6];
pub const NOISE: [f64; 3] = [0.0, 0.1, 0.4];
pub const SCALES: [f64; 2] = [1.0, 10.0];
/// first fit; a non-stationary result is re-fitted with twice as many iterations. Kept small so that the slowest
/// legitimate case stays far below the per-case time limit (a fit that never returns must be told from a slow one).
pub const MAX_ITER: usize = 300;

#[derive(Debug, Clone, Serialize, Deserialize)]
pub struct GRow {
    pub x: Vec<f64>,
    /// standard normal noise
    pub e: f64,
}

#[derive(Debug, Clone, Serialize, Deserialize)]
pub struct GlmCase {
    pub rows: Vec<GRow>,
    pub w: Vec<f64>,
    pub power_ix: u8,
    pub link_ix: u8,
    pub alpha_ix: u8,
    pub intercept: bool,
    pub tight_tol: bool,
    pub noise_ix: u8,
    pub scale_ix: u8,
    /// samples whose target is set to exactly 0 (only used for 1 <= power < 2)
    pub zeros: Vec<u16>,
    /// (sample, kind): kind 0 = negative target, kind 1 = zero target — the rejection class
    pub reject: Option<(u16, u8)>,
    /// index into YSCALE_EXP: the targets are multiplied by 10^s (absent in older replay files = 0 = unscaled)
    #[serde(default)]
    pub yscale_ix: u8,
    /// options left at their documented defaults (bit set = the setter is NOT called, the oracle uses the default):
    /// 1 link (identity for power <= 0, log otherwise — doc comment of `link`), 2 alpha (1), 4 fit_intercept (true),
    /// 8 tol (1e-4), 16 max_iter (100), 32 power (1, only when the case's power is 1). Absent in older replays = 0.
    #[serde(default)]
    pub unset: u8,
}

pub const UNSET_LINK: u8 = 1;
pub const UNSET_ALPHA: u8 = 2;
pub const UNSET_INTERCEPT: u8 = 4;
pub const UNSET_TOL: u8 = 8;
pub const UNSET_MAX_ITER: u8 = 16;
pub const UNSET_POWER: u8 = 32;
/// defaults of TweedieRegressorParams::new() (alpha, fit_intercept, max_iter, tol are not spelled out in doc comments;
/// they are the scikit-learn defaults the type mirrors)
pub const DEFAULT_ALPHA: f64 = 1.0;
pub const DEFAULT_TOL: f64 = 1e-4;

/// decimal exponent of the target scale; index 0 must stay 0. "Targets in range" includes tiny and huge positive
/// targets: with the log link the scale moves into the intercept (s ln 10), with the identity link into all
/// coefficients; the logit link (means in (0,1)) only takes the downward scales.
pub const YSCALE_EXP: [i32; 12] = [0, 0, 0, 0, 0, -9, -8, -8, -6, -3, 3, 6];

pub fn case_strategy(_tier: Tier) -> impl Strategy<Value = GlmCase> {
    (1usize..=P_MAX)
        .prop_flat_map(|p| {
            let row = (proptest::collection::vec(gauss(), p), gauss()).prop_map(|(x, e)| GRow { x, e });
            (
                (
                    proptest::collection::vec(row, 12..=80),
                    proptest::collection::vec(gauss(), P_MAX),
                    0u8..7,
                    0u8..8,
                    0u8..4,
                ),
                (
                    any::<bool>(),
                    any::<bool>(),
                    0u8..3,
                    0u8..2,
                    proptest::collection::vec(any::<u16>(), 0..=3),
                    proptest::option::weighted(0.12, (any::<u16>(), 0u8..2)),
                    0u8..12,
                    prop_oneof![3 => Just(0u8), 1 => Just(UNSET_LINK), 2 => 0u8..64],
                ),
            )
        })
        .prop_map(
            |((rows, w, power_ix, link_ix, alpha_ix), (intercept, tight_tol, noise_ix, scale_ix, zeros, reject, yscale_ix, unset))| GlmCase {
                rows,
                w,
                power_ix,
                link_ix,
                alpha_ix,
                intercept,
                tight_tol,
                noise_ix,
                scale_ix,
                zeros,
                reject,
                yscale_ix,
                unset,
            },
        )
}

fn at(v: &[f64], i: usize) -> f64 {
    let t = v.get(i).copied().unwrap_or(0.0);
    if t.is_finite() {
        t
    } else {
        0.0
    }
}

pub struct Derived {
    pub p: usize,
    pub x: Vec<Vec<f64>>,
    pub y: Vec<f64>,
    pub power: f64,
    pub link: Lk,
    pub intercept: bool,
    pub zero_targets: usize,
    /// Some(..) = a target outside the support was planted
    pub planted: Option<&'static str>,
    /// how many times the features were halved to keep the solver's first trial points inside the domain
    pub shrunk_steps: usize,
    /// decimal exponent of the target scale actually applied
    pub yexp: i32,
}

pub fn derive(case: &GlmCase) -> Option<Derived> {
    let n = case.rows.len();
    if n < 6 {
        return None;
    }
    let p = case.rows.iter().map(|r| r.x.len()).min().unwrap_or(0).min(P_MAX);
    if p == 0 {
        return None;
    }
    if case.rows.iter().any(|r| !r.e.is_finite() || r.x.iter().any(|v| !v.is_finite() || v.abs() > 1e3)) {
        return None;
    }
    let power = POWERS[(case.power_ix as usize).min(POWERS.len() - 1)];
    // link_ix 0..8: identity is the natural link of power 0; with power >= 1 it does not keep the mean positive
    // and is generated less often
    let link = if power == 0.0 {
        [Lk::Identity, Lk::Identity, Lk::Identity, Lk::Log, Lk::Log, Lk::Logit, Lk::Logit, Lk::Logit][(case.link_ix as usize).min(7)]
    } else {
        [Lk::Identity, Lk::Log, Lk::Log, Lk::Log, Lk::Log, Lk::Logit, Lk::Logit, Lk::Logit][(case.link_ix as usize).min(7)]
    };
    // link left unset: the documented default decides
    let link = if case.unset & UNSET_LINK != 0 {
        if power <= 0.0 {
            Lk::Identity
        } else {
            Lk::Log
        }
    } else {
        link
    };
    let scale = SCALES[(case.scale_ix as usize).min(1)];
    let sigma = NOISE[(case.noise_ix as usize).min(2)];
    // identity link with power >= 1 needs positive means: the model must have an intercept to start inside the domain
    let yexp_raw = YSCALE_EXP[(case.yscale_ix as usize).min(YSCALE_EXP.len() - 1)];
    // ... and a log/logit model can follow a change of the target scale only through its intercept (s ln 10)
    let intercept = case.intercept || case.unset & UNSET_INTERCEPT != 0 || (link == Lk::Identity && power >= 1.0) || (link != Lk::Identity && yexp_raw != 0);
    let mut y = vec![0.0; n];
    for (i, r) in case.rows.iter().enumerate() {
        let lin: f64 = (0..p).map(|j| r.x[j] * 0.4 * at(&case.w, j).clamp(-3.0, 3.0)).sum();
        let e = r.e.clamp(-4.0, 4.0);
        y[i] = match link {
            Lk::Identity => {
                if power == 0.0 {
                    lin + sigma * e
                } else {
                    (3.0 + lin).max(0.5) * (sigma * e).exp()
                }
            }
            Lk::Log => (0.5 + lin).exp() * (sigma * e).exp(),
            Lk::Logit => (model::sigmoid(lin) * (sigma * e).exp()).clamp(0.02, 0.98),
        };
    }
    let mut yexp = yexp_raw;
    if link == Lk::Logit && yexp > 0 {
        yexp = 0;
    }
    let c = 10f64.powi(yexp);
    for v in y.iter_mut() {
        *v *= c;
    }
    let mut zero_targets = 0;
    if (1.0..2.0).contains(&power) {
        for z in &case.zeros {
            let i = idx(*z, n);
            if y[i] != 0.0 {
                y[i] = 0.0;
                zero_targets += 1;
            }
        }
    }
    let mut planted = None;
    if let Some((s, kind)) = case.reject {
        let i = idx(s, n);
        if power >= 1.0 && kind == 0 {
            y[i] = -(y[i].abs()) - 0.5 * c;
            planted = Some("negative");
        } else if power >= 2.0 && kind == 1 {
            y[i] = 0.0;
            planted = Some("zero");
        }
    }
    // Feature magnitude. linfa starts L-BFGS at (link(mean y), 0) and argmin's first trial point is
    // start - 1 * gradient (extrapolating up to 5 * gradient). The features are shrunk by a power of two until
    // the harness' own objective is finite at those trial points and the linear predictor moves by at most
    // FIRST_STEP_CAP there: otherwise the deviance is NaN at the first trial point and argmin's line search never returns.
    let mut shrink = 1.0f64;
    let mut shrunk_steps = 0usize;
    let x = loop {
        let x: Vec<Vec<f64>> = case.rows.iter().map(|r| r.x[..p].iter().map(|v| v * scale * shrink).collect()).collect();
        // the cap on the first move of the linear predictor is in units of the mean for the identity link
        let cap = if link == Lk::Identity { FIRST_STEP_CAP * c } else { FIRST_STEP_CAP };
        if planted.is_some() || first_steps_ok(&x, &y, p, intercept, power, link, cap) {
            break x;
        }
        shrink *= 0.5;
        shrunk_steps += 1;
        if shrunk_steps > 60 {
            return None;
        }
    };
    Some(Derived { p, x, y, power, link, intercept, zero_targets, planted, shrunk_steps, yexp })
}

pub const FIRST_STEP_CAP: f64 = 6.0;
/// a non-stationary GLM result is not judged when the harness Hessian at the returned point has a condition number above this
pub const COND_MAX: f64 = 1e10;

/// start point of linfa's solver: coefficients 0, intercept = link(mean(y))
pub fn start_point(y: &[f64], p: usize, intercept: bool, link: Lk) -> Vec<f64> {
    let mut t = vec![0.0; p];
    if intercept {
        let m = y.iter().sum::<f64>() / y.len().max(1) as f64;
        t.push(match link {
            Lk::Identity => m,
            Lk::Log => m.ln(),
            Lk::Logit => (m / (1.0 - m)).ln(),
        });
    }
    t
}

fn first_steps_ok(x: &[Vec<f64>], y: &[f64], p: usize, intercept: bool, power: f64, link: Lk, cap: f64) -> bool {
    use crate::model::Objective;
    let obj = Tweedie { x, y, p, intercept, alpha: 0.0, power, link };
    let t0 = start_point(y, p, intercept, link);
    if t0.iter().any(|v| !v.is_finite()) || !obj.in_domain(&t0) || !obj.value(&t0).is_finite() {
        return false;
    }
    let g = obj.grad(&t0);
    if g.iter().any(|v| !v.is_finite()) {
        return false;
    }
    for step in [0.5, 1.0, 2.0, 5.0] {
        let t: Vec<f64> = t0.iter().zip(&g).map(|(a, b)| a - step * b).collect();
        if !obj.in_domain(&t) || !obj.value(&t).is_finite() || obj.grad(&t).iter().any(|v| !v.is_finite()) {
            return false;
        }
    }
    let t1: Vec<f64> = t0.iter().zip(&g).map(|(a, b)| a - b).collect();
    (0..x.len()).all(|i| (obj.eta(&t1, i) - obj.eta(&t0, i)).abs() <= cap)
}

fn to_array2(x: &[Vec<f64>], p: usize) -> Array2<f64> {
    Array2::from_shape_fn((x.len(), p), |(i, j)| x.get(i).and_then(|r| r.get(j)).copied().unwrap_or(0.0))
}

pub fn check(case: &GlmCase, obs: &mut Obs) {
    let Some(d) = derive(case) else {
        obs.skip("degenerate_case");
        return;
    };
    let alpha = if case.unset & UNSET_ALPHA != 0 { DEFAULT_ALPHA } else { ALPHAS[(case.alpha_ix as usize).min(3)] };
    let tol = if case.unset & UNSET_TOL != 0 { DEFAULT_TOL } else { TOLS[case.tight_tol as usize] };
    let n = d.x.len();
    obs.class(match d.power {
        v if v == 0.0 => "power_0_normal",
        v if v == 1.0 => "power_1_poisson",
        v if v < 2.0 => "power_between_1_and_2",
        v if v == 2.0 => "power_2_gamma",
        _ => "power_3_inverse_gaussian",
    });
    obs.class(match d.link {
        Lk::Identity => "link_identity",
        Lk::Log => "link_log",
        Lk::Logit => "link_logit",
    });
    obs.class(match d.yexp {
        0 => "target_scale_1",
        -9 => "target_scale_1e-9",
        -8 => "target_scale_1e-8",
        -6 => "target_scale_1e-6",
        -3 => "target_scale_1e-3",
        3 => "target_scale_1e3",
        _ => "target_scale_1e6",
    });
    obs.class_if(d.intercept, "intercept");
    obs.class_if(!d.intercept, "no_intercept");
    obs.class_if(alpha == 0.0, "alpha_0");
    obs.class_if(d.zero_targets > 0, "zero_targets_in_support");
    obs.class_if(d.y.iter().any(|v| *v < 0.0) && d.planted.is_none(), "negative_targets_in_support");

    let link = match d.link {
        Lk::Identity => Link::Identity,
        Lk::Log => Link::Log,
        Lk::Logit => Link::Logit,
    };
    let xa = to_array2(&d.x, d.p);
    // the records reach `fit` as a view in the memory layout of the case (the logical matrix is `xa`)
    let mem = crate::mem::train_mem(&d.x);
    obs.class(crate::mem::mem_name(mem));
    let backing = crate::mem::backing(&xa, mem, 1.0e30);
    let ds = DatasetBase::new(crate::mem::view_of(&backing, mem, d.x.len(), d.p), Array1::from(d.y.clone()));
    // options whose bit is set in `unset` stay at their defaults; the oracle above already uses the default values.
    // fit_intercept may only stay unset when the case did not ask for "no intercept" (d.intercept is then true anyway)
    let build = |max_iter: Option<usize>| {
        let mut b = TweedieRegressor::<f64>::params();
        if case.unset & UNSET_ALPHA == 0 {
            b = b.alpha(alpha);
        }
        if case.unset & UNSET_INTERCEPT == 0 {
            b = b.fit_intercept(d.intercept);
        }
        if !(case.unset & UNSET_POWER != 0 && d.power == 1.0) {
            b = b.power(d.power);
        }
        if case.unset & UNSET_LINK == 0 {
            b = b.link(link);
        }
        if let Some(m) = max_iter {
            b = b.max_iter(m);
        }
        if case.unset & UNSET_TOL == 0 {
            b = b.tol(tol);
        }
        b
    };
    let first_iters = if case.unset & UNSET_MAX_ITER != 0 { None } else { Some(MAX_ITER) };
    obs.class_if(case.unset & UNSET_LINK != 0, "default_link_not_set");
    obs.class_if(case.unset & UNSET_LINK != 0 && d.power == 0.0, "default_link_not_set_power_0");
    obs.class_if(case.unset & UNSET_ALPHA != 0, "default_alpha_not_set");
    obs.class_if(case.unset & UNSET_INTERCEPT != 0, "default_fit_intercept_not_set");
    obs.class_if(case.unset & UNSET_TOL != 0, "default_tol_not_set");
    obs.class_if(case.unset & UNSET_MAX_ITER != 0, "default_max_iter_not_set");
    obs.class_if(case.unset & UNSET_POWER != 0 && d.power == 1.0, "default_power_not_set");
    obs.class_if(d.shrunk_steps > 0, "features_shrunk_for_first_step");
    let Some(res) = obs.call("glm:fit", || build(first_iters).fit(&ds)) else { return };

    if let Some(what) = d.planted {
        obs.class("target_outside_support");
        match res {
            Err(LinearError::InvalidTargetRange(_)) => {}
            Err(e) => obs.fail(
                "glm:out-of-support-wrong-error",
                format!("a {what} target with power {} gave the error '{e}' instead of InvalidTargetRange", d.power),
            ),
            Ok(_) => obs.fail(
                "glm:out-of-support-accepted",
                format!("a {what} target with power {} was accepted", d.power),
            ),
        }
        return;
    }
    let model = match res {
        Ok(m) => m,
        Err(LinearError::InvalidTargetRange(_)) => {
            obs.fail(
                "glm:in-support-rejected",
                format!("targets inside the support of power {} were rejected (min target {:?})", d.power, d.y.iter().cloned().fold(f64::INFINITY, f64::min)),
            );
            return;
        }
        Err(e @ (LinearError::InvalidPenalty(_) | LinearError::InvalidTweediePower(_) | LinearError::NotEnoughSamples | LinearError::NotEnoughTargets)) => {
            obs.fail(
                "glm:fit-refuses-valid-configuration",
                format!("fit returned the error '{e}' for power {}, link {:?}, alpha {alpha}, n = {} finite samples inside the support", d.power, d.link, d.y.len()),
            );
            return;
        }
        Err(_) => {
            obs.class("glm_fit_err");
            obs.class_if(d.power == 1.0, "glm_fit_err_poisson");
            obs.skip("fit_not_judged");
            return;
        }
    };
    let w: Vec<f64> = model.coef.to_vec();
    let b = model.intercept;
    if !obs.ensure(w.len() == d.p, "glm:shape", || format!("coef has {} entries for {} features", w.len(), d.p)) {
        return;
    }
    if !d.intercept {
        obs.ensure(b == 0.0, "glm:intercept-without-intercept", || format!("fit_intercept(false) but intercept = {b}"));
    }
    let obj = Tweedie { x: &d.x, y: &d.y, p: d.p, intercept: d.intercept, alpha, power: d.power, link: d.link };
    let mut theta = w.clone();
    if d.intercept {
        theta.push(b);
    }
    let finite = theta.iter().all(|v| v.is_finite());
    let j = if finite && obj.in_domain(&theta) {
        model::judge(&obj, &theta, tol)
    } else {
        model::Judged { verdict: Verdict::Undefined, gnorm: f64::NAN, bound: 0.0, f: f64::NAN, gap: None }
    };
    if std::env::var("C12_DEBUG").is_ok() {
        eprintln!("DEBUG glm: y = {:?}", d.y); // manual child runs only (stderr of real children is discarded)
        eprintln!("DEBUG glm: x[0..3] = {:?} shrunk_steps {}", &d.x[..d.x.len().min(3)], d.shrunk_steps);
        eprintln!("DEBUG glm: start {:?} returned {:?}", start_point(&d.y, d.p, d.intercept, d.link), theta);
        eprintln!("DEBUG glm: hessian condition {:e}", model::hessian_condition(&obj, &theta));
        eprintln!("DEBUG glm: F {:e} grad {:?} curv {:e} verdict {:?} gap {:?}", obj.value(&theta), obj.grad(&theta), obj.curv(&theta), j.verdict, j.gap);
    }
    let mut j = j;
    if j.verdict == Verdict::NotStationary {
        // stopped on its own or cut off by max_iter? (same parameters with twice the iteration limit = stopped on its own)
        let same = match vengine::guard(|| build(Some(2 * MAX_ITER)).fit(&ds)) {
            Ok(Ok(m2)) => {
                m2.intercept.to_bits() == b.to_bits() && m2.coef.len() == w.len() && m2.coef.iter().zip(&w).all(|(a, c)| a.to_bits() == c.to_bits())
            }
            _ => false,
        };
        if !same {
            j.verdict = Verdict::IterationCap;
        }
    }
    let mut ill_conditioned = false;
    if j.verdict == Verdict::NotStationary && model::hessian_condition(&obj, &theta) > COND_MAX {
        // the feature shrinking above can produce absurdly conditioned problems (observed 1e14 at target scale 1e6):
        // L-BFGS in f64 stalls there on correct code; such a result says nothing about the gradient code
        ill_conditioned = true;
    }
    let mut judged = true;
    match j.verdict {
        Verdict::IterationCap => {
            obs.class("glm_stopped_by_max_iterations");
            judged = false;
        }
        Verdict::CurvatureOverflow => {
            obs.class("glm_curvature_overflow_not_judged");
            judged = false;
        }
        Verdict::Stationary => {
            obs.class(model::grad_class(j.gnorm, tol));
            if d.link == Lk::Log && d.yexp <= -6 {
                // fitted means far below 1e-7 (where a lower bound on exp() in the chain rule would bite)
                obs.class("tiny_targets_log_link_stationary");
                let t0 = start_point(&d.y, d.p, d.intercept, d.link);
                let moved = theta.len() != t0.len() || theta.iter().zip(&t0).any(|(a, c)| a != c);
                obs.class_if(moved, "tiny_targets_log_link_solver_moved");
            }
        }
        Verdict::Stalled => {
            obs.class("glm_stalled_at_cost_resolution");
            judged = false;
        }
        Verdict::Undefined => {
            if d.link == Lk::Identity && d.power >= 1.0 && finite {
                // the identity link does not keep the mean positive: the iteration left the deviance's domain
                obs.class("glm_identity_link_left_domain");
                judged = false;
            } else {
                obs.fail(
                    "glm:undefined-at-returned-point",
                    format!(
                        "fit returned Ok with coef {:?}, intercept {} where the objective is not defined (power {}, link {:?}); own F = {:e}, |grad| = {:e}, curvature = {:e}",
                        w,
                        b,
                        d.power,
                        d.link,
                        obj.value(&theta),
                        vengine::num::norm2(&obj.grad(&theta)),
                        obj.curv(&theta)
                    ),
                );
            }
        }
        Verdict::NotStationary if ill_conditioned => {
            obs.class("glm_ill_conditioned_not_judged");
            judged = false;
        }
        Verdict::NotStationary => {
            let sig = if d.power == 1.0 { "glm:not-stationary:poisson" } else { "glm:not-stationary" };
            let t0 = start_point(&d.y, d.p, d.intercept, d.link);
            let at_start = theta.len() == t0.len() && theta.iter().zip(&t0).all(|(a, c)| (a - c).abs() <= 1e-12 * c.abs().max(1.0));
            obs.fail(
                sig,
                format!(
                    "|grad| = {:.3e} > bound {:.3e} (tol {:.0e}) for 1/2(deviance + alpha |w|^2): power {}, link {:?}, alpha {}, intercept {}, n = {}, F = {:.6}, F - F(polished) = {:?}{}",
                    j.gnorm,
                    j.bound,
                    tol,
                    d.power,
                    d.link,
                    alpha,
                    d.intercept,
                    n,
                    j.f,
                    j.gap,
                    if at_start { "; the returned point is the solver's start point" } else { "" }
                ),
            );
        }
    }

    // predictions
    let mut q = d.x.clone();
    let mut n_ext = 0;
    if d.link == Lk::Logit {
        for r in d.x.iter().take(4) {
            let z: f64 = r.iter().zip(&w).map(|(a, c)| a * c).sum();
            let s: f64 = r.iter().zip(&w).map(|(a, c)| (a * c).abs()).sum();
            if z.abs() > 1e-3 * s && z.abs() > 1e-12 {
                let f = 1e3 / z.abs();
                q.push(r.iter().map(|v| v * f).collect());
                q.push(r.iter().map(|v| -v * f).collect());
                n_ext += 2;
            }
        }
    }
    obs.class_if(n_ext > 0, "logit_extreme_inputs");
    let qa = to_array2(&q, d.p);
    if finite {
        if let Some(pred) = obs.call("glm:predict", || model.predict(&qa)) {
            if obs.ensure(pred.len() == q.len(), "glm:predict-shape", || "wrong number of predictions".into()) {
                for (i, r) in q.iter().enumerate() {
                    let z: f64 = r.iter().zip(&w).map(|(a, c)| a * c).sum::<f64>() + b;
                    let s: f64 = r.iter().zip(&w).map(|(a, c)| (a * c).abs()).sum::<f64>() + b.abs();
                    let delta = 16.0 * model::EPS * s;
                    let (lo, hi) = (d.link.inv(z - delta), d.link.inv(z + delta));
                    let v = pred[i];
                    let in_range = match d.link {
                        Lk::Identity => v.is_finite(),
                        Lk::Log => v >= 0.0 && (v > 0.0 || z < -700.0) && (v.is_finite() || z > 700.0),
                        Lk::Logit => (0.0..=1.0).contains(&v),
                    };
                    if !obs.ensure(in_range, "glm:prediction-outside-link-range", || {
                        format!("prediction {v} for linear predictor {z:e} with link {:?}", d.link)
                    }) {
                        continue;
                    }
                    let slack = 1e-12 * lo.abs().max(hi.abs()) + 1e-300;
                    obs.ensure(v >= lo - slack && v <= hi + slack, "glm:prediction-value", || {
                        format!("prediction {v:e} for linear predictor {z:.17e}; inverse link gives [{lo:e}, {hi:e}]")
                    });
                }
            }
        }
    }
    if judged {
        obs.nontrivial_if((1.0..2.0).contains(&d.power));
    } else if obs.fails.is_empty() {
        obs.skip("fit_not_judged");
    }
}
