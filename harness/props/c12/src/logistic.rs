//! Binary and multinomial logistic regression: stationarity of the returned point for the harness'
//! own objective, reported class set, probabilities, decision rule.

use crate::model::{self, Binary, Multi, Objective, Verdict};
use linfa::traits::{Fit, Predict};
use linfa::DatasetBase;
use linfa_logistic::{LogisticRegression, MultiLogisticRegression};
use ndarray::{Array1, Array2};
use proptest::prelude::*;
use serde::{Deserialize, Serialize};
use std::fmt::Debug;
use vengine::gen::{gauss, perm_from_keys};
use vengine::{Obs, Tier};

pub const K_MAX: usize = 6;
pub const P_MAX: usize = 4;
pub const N_MAX: usize = 120;
pub const SCALES: [f64; 3] = [1.0, 10.0, 100.0];
pub const ALPHAS: [f64; 4] = [0.0, 1e-3, 1.0, 10.0];
pub const SIGNALS: [f64; 4] = [0.0, 0.7, 2.0, 5.0];
pub const TOLS: [f64; 2] = [1e-4, 1e-6];
/// first fit; a non-stationary result is re-fitted with twice as many iterations; kept moderate so that the
/// slowest legitimate case (four capped fits with six classes) stays far below the per-case time limit
pub const MAX_ITER: u64 = 500;
/// alpha used instead of 0 when the harness cannot certify that the data are not separable
pub const FORCED_ALPHA: f64 = 1.0;
/// certificate of non-separability: own Newton solution of the alpha = 0 problem with
/// |grad| <= CERT_GRAD * feature scale and every class probability of every sample >= CERT_PROB
pub const CERT_GRAD: f64 = 1e-10;
pub const CERT_PROB: f64 = 1e-6;
/// a non-stationary multinomial result is attributed to the log_sum_exp defect when some training row's
/// log-sum-exp lies at least this far below the global score maximum (the clamp acts from 34.54 on)
pub const LSE_DEFECT_REACH: f64 = 30.0;
/// rows of a multinomial probability matrix sum to one within this
pub const ROW_SUM_TOL: f64 = 1e-9;

const STR_POOL: [&str; 12] = ["a", "b", "B", "aa", "zebra", "10", "9", "cat", "dog", "", "\u{e9}t\u{e9}", "Z"];
const USIZE_POOL: [usize; 12] = [0, 1, 2, 3, 5, 7, 10, 11, 42, 100, 1000, usize::MAX];

#[derive(Debug, Clone, Serialize, Deserialize)]
pub struct Row {
    /// features (standard scale, multiplied by the case's feature scale)
    pub x: Vec<f64>,
    /// K_MAX uniforms in (0,1) turned into logistic / Gumbel noise
    pub u: Vec<f64>,
}

#[derive(Debug, Clone, Copy, Serialize, Deserialize, PartialEq)]
pub enum LabelKind {
    Bool,
    Usize,
    Str,
}

#[derive(Debug, Clone, Serialize, Deserialize)]
pub struct LogitCase {
    pub multi: bool,
    /// number of classes (binary: 2)
    pub k: usize,
    pub rows: Vec<Row>,
    /// K_MAX x P_MAX weights of the generating model
    pub w: Vec<Vec<f64>>,
    pub bias: Vec<f64>,
    pub signal_ix: u8,
    /// binary: share of the class with index 0 (mapped into 0.1..0.9)
    pub balance: u16,
    pub scale_ix: u8,
    pub alpha_ix: u8,
    pub intercept: bool,
    /// (P_MAX+1) x K_MAX gaussians, scaled down, used as initial parameters
    pub init: Option<Vec<f64>>,
    pub tight_tol: bool,
    pub kind: LabelKind,
    pub name_keys: Vec<u16>,
    pub order_keys: Vec<u16>,
    pub threshold: u16,
    /// options left at their documented defaults (bit set = the setter is NOT called and the oracle uses the default):
    /// 1 alpha (1.0), 2 with_intercept (true), 4 gradient_tolerance (1e-4), 8 max_iterations (100). Absent in older replays = 0.
    #[serde(default)]
    pub unset: u8,
}

pub const UNSET_ALPHA: u8 = 1;
pub const UNSET_INTERCEPT: u8 = 2;
pub const UNSET_TOL: u8 = 4;
pub const UNSET_MAX_ITER: u8 = 8;
/// documented defaults of LogisticRegressionParams (doc comments of the setters)
pub const DEFAULT_ALPHA: f64 = 1.0;
pub const DEFAULT_TOL: f64 = 1e-4;

impl LogitCase {
    /// alpha requested by the case (before the separability rule), the documented default when left unset
    pub fn alpha_raw(&self) -> f64 {
        if self.unset & UNSET_ALPHA != 0 {
            DEFAULT_ALPHA
        } else {
            ALPHAS[(self.alpha_ix as usize).min(3)]
        }
    }
    pub fn intercept_eff(&self) -> bool {
        self.unset & UNSET_INTERCEPT != 0 || self.intercept
    }
    pub fn tol_eff(&self) -> f64 {
        if self.unset & UNSET_TOL != 0 {
            DEFAULT_TOL
        } else {
            TOLS[self.tight_tol as usize]
        }
    }
}

// ------------------------------------------------------------------------------------------------
// generator

fn row_strategy(p: usize) -> impl Strategy<Value = Row> {
    (
        proptest::collection::vec(gauss(), p),
        proptest::collection::vec(1u32..u32::MAX, K_MAX),
    )
        .prop_map(|(x, u)| Row {
            x,
            u: u.into_iter().map(|v| v as f64 / u32::MAX as f64).collect(),
        })
}

pub fn case_strategy(multi: bool, _tier: Tier) -> impl Strategy<Value = LogitCase> {
    let k = if multi { (2usize..=K_MAX).boxed() } else { Just(2usize).boxed() };
    (1usize..=P_MAX, k)
        .prop_flat_map(move |(p, k)| {
            let kind = if k == 2 {
                prop_oneof![Just(LabelKind::Bool), Just(LabelKind::Usize), Just(LabelKind::Str)].boxed()
            } else {
                prop_oneof![Just(LabelKind::Usize), Just(LabelKind::Str)].boxed()
            };
            (
                (
                    Just(k),
                    proptest::collection::vec(row_strategy(p), 20..=N_MAX),
                    proptest::collection::vec(proptest::collection::vec(gauss(), P_MAX), K_MAX),
                    proptest::collection::vec(gauss(), K_MAX),
                    0u8..4,
                    any::<u16>(),
                    0u8..3,
                ),
                (
                    0u8..4,
                    any::<bool>(),
                    proptest::option::weighted(0.3, proptest::collection::vec(gauss(), (P_MAX + 1) * K_MAX)),
                    any::<bool>(),
                    kind,
                    proptest::collection::vec(any::<u16>(), STR_POOL.len()),
                    proptest::collection::vec(any::<u16>(), N_MAX),
                    any::<u16>(),
                    prop_oneof![3 => Just(0u8), 2 => 0u8..16],
                ),
            )
        })
        .prop_map(
            move |(
                (k, rows, w, bias, signal_ix, balance, scale_ix),
                (alpha_ix, intercept, init, tight_tol, kind, name_keys, order_keys, threshold, unset),
            )| LogitCase {
                multi,
                k,
                rows,
                w,
                bias,
                signal_ix,
                balance,
                scale_ix,
                alpha_ix,
                intercept,
                init,
                tight_tol,
                kind,
                name_keys,
                order_keys,
                threshold,
                unset,
            },
        )
}

// ------------------------------------------------------------------------------------------------
// derived data

pub struct Derived {
    pub p: usize,
    pub n: usize,
    pub k: usize,
    pub scale: f64,
    /// features in generated order, already scaled
    pub x: Vec<Vec<f64>>,
    /// class index 0..k of every sample, generated order
    pub c: Vec<usize>,
}

fn at(v: &[f64], i: usize) -> f64 {
    v.get(i).copied().unwrap_or(0.0)
}

fn unit(u: f64) -> f64 {
    if u.is_finite() {
        u.clamp(1e-9, 1.0 - 1e-9)
    } else {
        0.5
    }
}

pub fn derive(case: &LogitCase) -> Option<Derived> {
    let n = case.rows.len();
    if n < 4 {
        return None;
    }
    let p = case.rows.iter().map(|r| r.x.len()).min().unwrap_or(0).min(P_MAX);
    if p == 0 {
        return None;
    }
    let k = if case.multi { case.k.clamp(2, K_MAX) } else { 2 };
    if n < 2 * k {
        return None;
    }
    let scale = SCALES[(case.scale_ix as usize).min(2)];
    let signal = SIGNALS[(case.signal_ix as usize).min(3)];
    if case.rows.iter().any(|r| r.x.iter().any(|v| !v.is_finite() || v.abs() > 1e3)) {
        return None;
    }
    let wrow = |kk: usize, j: usize| -> f64 {
        let v = case.w.get(kk).map(|r| at(r, j)).unwrap_or(0.0);
        if v.is_finite() {
            v.clamp(-10.0, 10.0)
        } else {
            0.0
        }
    };
    let mut c = vec![0usize; n];
    if !case.multi {
        let s: Vec<f64> = case
            .rows
            .iter()
            .map(|r| {
                let lin: f64 = (0..p).map(|j| r.x[j] * wrow(0, j)).sum();
                let u = unit(at(&r.u, 0));
                signal * lin + (u / (1.0 - u)).ln()
            })
            .collect();
        let mut sorted = s.clone();
        sorted.sort_by(|a, b| a.partial_cmp(b).unwrap_or(std::cmp::Ordering::Equal));
        let frac = 0.1 + 0.8 * (case.balance as f64 / 65535.0);
        let m = ((frac * n as f64).round() as usize).clamp(2, n - 2);
        let thr = sorted[m - 1];
        for i in 0..n {
            c[i] = if s[i] > thr { 1 } else { 0 };
        }
    } else {
        for (i, r) in case.rows.iter().enumerate() {
            if i < k {
                c[i] = i;
                continue;
            }
            let mut best = 0usize;
            let mut bv = f64::NEG_INFINITY;
            for kk in 0..k {
                let lin: f64 = (0..p).map(|j| r.x[j] * wrow(kk, j)).sum();
                let u = unit(at(&r.u, kk));
                let b = at(&case.bias, kk);
                let b = if b.is_finite() { b.clamp(-5.0, 5.0) } else { 0.0 };
                let v = signal * lin + b - (-(u.ln())).ln();
                if v > bv {
                    bv = v;
                    best = kk;
                }
            }
            c[i] = best;
        }
    }
    let mut present = vec![false; k];
    for &ci in &c {
        present[ci] = true;
    }
    if present.iter().any(|b| !*b) {
        return None;
    }
    let x: Vec<Vec<f64>> = case.rows.iter().map(|r| r.x[..p].iter().map(|v| v * scale).collect()).collect();
    Some(Derived { p, n, k, scale, x, c })
}

/// Certificate that the alpha = 0 problem has a finite minimiser (data not separable, also not
/// quasi-separable with a noticeable margin): the harness' own Newton iteration from zero reaches a
/// numerically vanishing gradient at a point where every sample keeps probability >= CERT_PROB
/// for every class.
pub fn not_separable(d: &Derived, intercept: bool, multi: bool) -> bool {
    let xs = d.scale;
    if !multi {
        let y: Vec<f64> = d.c.iter().map(|&c| if c == 1 { 1.0 } else { -1.0 }).collect();
        let obj = Binary { x: &d.x, y: &y, p: d.p, intercept, alpha: 0.0 };
        let Some(pl) = model::polish(&obj, &vec![0.0; obj.dim()], 60) else { return false };
        if !(pl.gnorm <= CERT_GRAD * xs) {
            return false;
        }
        (0..d.n).all(|i| {
            let q = model::sigmoid(obj.z(&pl.theta, i));
            q >= CERT_PROB && 1.0 - q >= CERT_PROB
        })
    } else {
        let obj = Multi { x: &d.x, c: &d.c, p: d.p, k: d.k, intercept, alpha: 0.0 };
        let Some(pl) = model::polish(&obj, &vec![0.0; obj.dim()], 60) else { return false };
        if !(pl.gnorm <= CERT_GRAD * xs) {
            return false;
        }
        (0..d.n).all(|i| model::softmax(&obj.scores(&pl.theta, i)).iter().all(|q| *q >= CERT_PROB))
    }
}

/// For a multinomial case whose fit never returned: does the harness' own minimiser (Newton from zero, the case's
/// alpha) or the solver's first trial point lie in or near the region where linfa's log_sum_exp clamp acts?
/// Returns the larger of the two row deficits.
pub fn deficit_at_own_minimiser(case: &LogitCase) -> Option<f64> {
    let d = derive(case)?;
    if !case.multi {
        return None;
    }
    let mut alpha = case.alpha_raw();
    if alpha == 0.0 && !not_separable(&d, case.intercept_eff(), true) {
        alpha = FORCED_ALPHA;
    }
    let obj = Multi { x: &d.x, c: &d.c, p: d.p, k: d.k, intercept: case.intercept_eff(), alpha };
    let pl = model::polish(&obj, &vec![0.0; obj.dim()], 200)?;
    // L-BFGS' first trial point is start - 1 * gradient (start = zeros unless initial parameters were given; the
    // rough location is all that matters here). With un-normalised features it lies deep inside the clamp region.
    let t0 = vec![0.0; obj.dim()];
    let g = obj.grad(&t0);
    let t1: Vec<f64> = t0.iter().zip(&g).map(|(a, b)| a - b).collect();
    Some(obj.max_row_deficit(&pl.theta).max(obj.max_row_deficit(&t1)))
}

/// For a logistic case whose fit never returned: is the requested gradient tolerance within a factor 10 of the float
/// resolution of the gradient at the harness' own minimiser (the resolution term of the stationarity bound)? There
/// L-BFGS can no longer reduce the cost, a zero step makes its scaling factor 0/0, the iterate becomes NaN, the
/// loss is NaN and argmin's line search (no iteration limit) never ends.
pub fn tolerance_at_gradient_resolution(case: &LogitCase) -> bool {
    let Some(d) = derive(case) else { return false };
    let mut alpha = case.alpha_raw();
    if alpha == 0.0 && !not_separable(&d, case.intercept_eff(), case.multi) {
        alpha = FORCED_ALPHA;
    }
    let tol = case.tol_eff();
    let resolution = |obj: &dyn Objective| -> Option<f64> {
        let pl = model::polish(obj, &vec![0.0; obj.dim()], 200)?;
        Some(model::grad_bound(0.0, obj.curv(&pl.theta), obj.mag(&pl.theta)))
    };
    let r = if case.multi {
        resolution(&Multi { x: &d.x, c: &d.c, p: d.p, k: d.k, intercept: case.intercept_eff(), alpha })
    } else {
        let y: Vec<f64> = d.c.iter().map(|&c| if c == 1 { 1.0 } else { -1.0 }).collect();
        resolution(&Binary { x: &d.x, y: &y, p: d.p, intercept: case.intercept_eff(), alpha })
    };
    matches!(r, Some(r) if r >= 0.1 * tol)
}

pub trait Lab: Ord + Clone + Default + Debug + 'static {}
impl<T: Ord + Clone + Default + Debug + 'static> Lab for T {}

pub struct Cfg {
    pub alpha: f64,
    pub intercept: bool,
    pub tol: f64,
    pub init: Option<Vec<f64>>,
    pub threshold: f64,
    /// see LogitCase::unset
    pub unset: u8,
}

fn to_array2(x: &[Vec<f64>], p: usize) -> Array2<f64> {
    Array2::from_shape_fn((x.len(), p), |(i, j)| x.get(i).map(|r| at(r, j)).unwrap_or(0.0))
}

fn threshold_of(t: u16) -> f64 {
    match t % 8 {
        0 => 0.0,
        1 => 1.0,
        2 | 3 => 0.5,
        _ => (t as f64) / 65535.0,
    }
}

/// extreme query rows: training rows rescaled so that the largest score is about ±1e3, and single huge features
fn extreme_rows(x: &[Vec<f64>], p: usize, scale: f64, lin: &dyn Fn(&[f64]) -> (f64, f64)) -> Vec<Vec<f64>> {
    let mut out = vec![];
    for r in x.iter().take(6) {
        let (z, absum) = lin(r);
        if z.abs() > 1e-3 * absum && z.abs() > 1e-12 && absum.is_finite() {
            let f = 1e3 / z.abs();
            out.push(r.iter().map(|v| v * f).collect());
            out.push(r.iter().map(|v| -v * f).collect());
        }
    }
    for j in 0..p {
        for s in [1e6, -1e6] {
            let mut r = vec![0.0; p];
            r[j] = s * scale;
            out.push(r);
        }
    }
    out
}

// ------------------------------------------------------------------------------------------------
// binary

pub struct Outcome {
    pub verdict: Option<Verdict>,
    /// the non-stationary verdict carries the signature of the log-sum-exp defect (see fit_multi)
    pub lse_defect: bool,
}

fn fit_binary<C: Lab>(obs: &mut Obs, tag: &'static str, x: &[Vec<f64>], labels: &[C], p: usize, scale: f64, cfg: &Cfg) -> Outcome {
    let n = x.len();
    let xa = to_array2(x, p);
    let ya: Array1<C> = Array1::from(labels.to_vec());
    // the records reach `fit` as a view in the memory layout of the case (the logical matrix is `xa`)
    let mem = crate::mem::train_mem(x);
    obs.class(crate::mem::mem_name(mem));
    let backing = crate::mem::backing(&xa, mem, 1.0e30);
    let ds = DatasetBase::new(crate::mem::view_of(&backing, mem, n, p), ya);
    // max_iterations left unset = the documented default of 100; the re-fit always sets 2 * MAX_ITER explicitly
    let first_iters = if cfg.unset & UNSET_MAX_ITER != 0 { None } else { Some(MAX_ITER) };
    let build = |max_iter: Option<u64>| {
        // options whose bit is set in `unset` stay at their documented defaults (the oracle uses those values)
        let mut params = LogisticRegression::<f64>::default();
        if cfg.unset & UNSET_ALPHA == 0 || cfg.alpha != DEFAULT_ALPHA {
            params = params.alpha(cfg.alpha);
        }
        if cfg.unset & UNSET_INTERCEPT == 0 {
            params = params.with_intercept(cfg.intercept);
        }
        if let Some(m) = max_iter {
            params = params.max_iterations(m);
        }
        if cfg.unset & UNSET_TOL == 0 {
            params = params.gradient_tolerance(cfg.tol);
        }
        if let Some(init) = &cfg.init {
            let d = p + cfg.intercept as usize;
            params = params.initial_params(Array1::from((0..d).map(|j| at(init, j)).collect::<Vec<_>>()));
        }
        params
    };
    let Some(res) = obs.call("binary:fit", || build(first_iters).fit(&ds)) else { return Outcome { verdict: None, lse_defect: false } };
    let model = match res {
        Ok(m) => m,
        // the optimiser may give up (line search failure, non-finite cost): counted, not judged. Every other
        // error refuses a configuration the generator only draws from the documented ranges
        Err(linfa_logistic::error::Error::ArgMinError(_)) => {
            obs.class("binary_fit_err");
            return Outcome { verdict: None, lse_defect: false };
        }
        Err(e) => {
            obs.fail(
                "binary:fit-refuses-valid-configuration",
                format!("[{tag}] fit returned the error '{e}' for alpha = {}, gradient tolerance {:e}, intercept {}, finite data with two classes", cfg.alpha, cfg.tol, cfg.intercept),
            );
            return Outcome { verdict: None, lse_defect: false };
        }
    };
    // reported classes
    let mut train: Vec<C> = labels.to_vec();
    train.sort();
    train.dedup();
    let pos = model.labels().pos.class.clone();
    let neg = model.labels().neg.class.clone();
    let mut rep = vec![pos.clone(), neg.clone()];
    rep.sort();
    if !obs.ensure(rep == train, "binary:labels-not-training-classes", || {
        format!("[{tag}] labels() reports {:?} / {:?}, training classes are {:?}", pos, neg, train)
    }) {
        return Outcome { verdict: None, lse_defect: false };
    }
    obs.ensure(
        model.labels().pos.label == 1.0 && model.labels().neg.label == -1.0,
        "binary:label-coding",
        || format!("[{tag}] pos.label = {}, neg.label = {}", model.labels().pos.label, model.labels().neg.label),
    );
    obs.class_if(pos > neg, "binary_pos_is_ord_larger");
    obs.class_if(pos < neg, "binary_pos_is_ord_smaller");
    let w: Vec<f64> = model.params().to_vec();
    let b = model.intercept();
    if !obs.ensure(w.len() == p, "binary:shape", || format!("[{tag}] params() has {} entries for {} features", w.len(), p)) {
        return Outcome { verdict: None, lse_defect: false };
    }
    if !cfg.intercept {
        obs.ensure(b == 0.0, "binary:intercept-without-intercept", || {
            format!("[{tag}] with_intercept(false) but intercept() = {b}")
        });
    }
    let y: Vec<f64> = labels.iter().map(|l| if *l == pos { 1.0 } else { -1.0 }).collect();
    let obj = Binary { x, y: &y, p, intercept: cfg.intercept, alpha: cfg.alpha };
    let mut theta = w.clone();
    if cfg.intercept {
        theta.push(b);
    }
    let mut j = model::judge(&obj, &theta, cfg.tol);
    if j.verdict == Verdict::NotStationary {
        // Did the run stop on its own, or was it cut off by max_iterations? A deterministic solver that stopped on
        // its own returns bit-identical parameters when it is allowed twice as many iterations.
        let same = match vengine::guard(|| build(Some(2 * MAX_ITER)).fit(&ds)) {
            Ok(Ok(m2)) => {
                m2.intercept().to_bits() == b.to_bits()
                    && m2.params().len() == w.len()
                    && m2.params().iter().zip(&w).all(|(a, c)| a.to_bits() == c.to_bits())
            }
            _ => false,
        };
        if !same {
            j.verdict = Verdict::IterationCap;
        }
    }
    match j.verdict {
        Verdict::Stationary => obs.class(model::grad_class(j.gnorm, cfg.tol)),
        Verdict::Stalled => obs.class("binary_stalled_at_cost_resolution"),
        Verdict::IterationCap => obs.class("binary_stopped_by_max_iterations"),
        Verdict::Undefined | Verdict::CurvatureOverflow => obs.fail(
            "binary:nonfinite-params",
            format!("[{tag}] fit returned Ok with params {:?}, intercept {}", w, b),
        ),
        Verdict::NotStationary => obs.fail(
            "binary:not-stationary",
            format!(
                "[{tag}] |grad| = {:.3e} > bound {:.3e} (tol {:.0e}) at the returned point; F = {:.6}, F - F(polished) = {:?}; alpha = {}, intercept = {}, n = {}",
                j.gnorm, j.bound, cfg.tol, j.f, j.gap, cfg.alpha, cfg.intercept, n
            ),
        ),
    }

    // probabilities and decisions, training rows + extreme rows
    let lin = |r: &[f64]| -> (f64, f64) {
        let z: f64 = r.iter().zip(&w).map(|(a, b)| a * b).sum();
        let s: f64 = r.iter().zip(&w).map(|(a, b)| (a * b).abs()).sum();
        (z, s)
    };
    let mut q: Vec<Vec<f64>> = x.to_vec();
    let ext = extreme_rows(x, p, scale, &lin);
    let n_ext = ext.len();
    q.extend(ext);
    let qa = to_array2(&q, p);
    let model = model.set_threshold(cfg.threshold);
    if let Some(probs) = obs.call("binary:predict_probabilities", || model.predict_probabilities(&qa)) {
        if obs.ensure(probs.len() == q.len(), "binary:prob-shape", || format!("[{tag}] {} probabilities for {} rows", probs.len(), q.len())) {
            let mut saw_extreme = false;
            for (i, r) in q.iter().enumerate() {
                let pr = probs[i];
                let (z0, s0) = lin(r);
                let z = z0 + b;
                let delta = 16.0 * model::EPS * (s0 + b.abs());
                let lo = model::sigmoid(z - delta) * (1.0 - 1e-12) - 1e-300;
                let hi = model::sigmoid(z + delta) * (1.0 + 1e-12) + 1e-300;
                if z.abs() > 500.0 {
                    saw_extreme = true;
                }
                if !obs.ensure(pr >= 0.0 && pr <= 1.0, "binary:prob-out-of-range", || {
                    format!("[{tag}] probability {pr} for score {z:.6e} (row {i}, {} extreme rows appended)", n_ext)
                }) {
                    continue;
                }
                obs.ensure(pr >= lo && pr <= hi, "binary:prob-value", || {
                    format!("[{tag}] probability {pr:e} for score {z:.17e}, logistic function gives [{lo:e}, {hi:e}]")
                });
            }
            obs.class_if(saw_extreme, "binary_extreme_scores");
            if let Some(pred) = obs.call("binary:predict", || model.predict(&qa)) {
                if obs.ensure(pred.len() == q.len(), "binary:predict-shape", || "wrong number of predictions".into()) {
                    for i in 0..q.len() {
                        let want_pos = probs[i] >= cfg.threshold;
                        let got_pos = pred[i] == pos;
                        let got_neg = pred[i] == neg;
                        obs.ensure(got_pos || got_neg, "binary:predict-unknown-class", || {
                            format!("[{tag}] predicted {:?} which is not a training class", pred[i])
                        });
                        obs.ensure(want_pos == got_pos, "binary:predict-vs-threshold", || {
                            format!(
                                "[{tag}] probability {:e}, threshold {}, predicted {:?} (pos = {:?})",
                                probs[i], cfg.threshold, pred[i], pos
                            )
                        });
                    }
                }
            }
        }
    }
    Outcome { verdict: Some(j.verdict), lse_defect: false }
}

// ------------------------------------------------------------------------------------------------
// multinomial

fn fit_multi<C: Lab>(obs: &mut Obs, tag: &'static str, x: &[Vec<f64>], labels: &[C], p: usize, scale: f64, cfg: &Cfg) -> Outcome {
    let n = x.len();
    let xa = to_array2(x, p);
    let ya: Array1<C> = Array1::from(labels.to_vec());
    // the records reach `fit` as a view in the memory layout of the case (the logical matrix is `xa`)
    let mem = crate::mem::train_mem(x);
    obs.class(crate::mem::mem_name(mem));
    let backing = crate::mem::backing(&xa, mem, 1.0e30);
    let ds = DatasetBase::new(crate::mem::view_of(&backing, mem, n, p), ya);
    let mut train: Vec<C> = labels.to_vec();
    train.sort();
    train.dedup();
    let k = train.len();
    let rows = p + cfg.intercept as usize;
    // max_iterations left unset = the documented default of 100; the re-fit always sets 2 * MAX_ITER explicitly
    let first_iters = if cfg.unset & UNSET_MAX_ITER != 0 { None } else { Some(MAX_ITER) };
    let build = |max_iter: Option<u64>| {
        // options whose bit is set in `unset` stay at their documented defaults (the oracle uses those values)
        let mut params = MultiLogisticRegression::<f64>::default();
        if cfg.unset & UNSET_ALPHA == 0 || cfg.alpha != DEFAULT_ALPHA {
            params = params.alpha(cfg.alpha);
        }
        if cfg.unset & UNSET_INTERCEPT == 0 {
            params = params.with_intercept(cfg.intercept);
        }
        if let Some(m) = max_iter {
            params = params.max_iterations(m);
        }
        if cfg.unset & UNSET_TOL == 0 {
            params = params.gradient_tolerance(cfg.tol);
        }
        if let Some(init) = &cfg.init {
            params = params.initial_params(Array2::from_shape_fn((rows, k), |(r, c)| at(init, r * K_MAX + c)));
        }
        params
    };
    let Some(res) = obs.call("multi:fit", || build(first_iters).fit(&ds)) else { return Outcome { verdict: None, lse_defect: false } };
    let model = match res {
        Ok(m) => m,
        Err(linfa_logistic::error::Error::ArgMinError(_)) => {
            obs.class("multi_fit_err");
            return Outcome { verdict: None, lse_defect: false };
        }
        Err(e) => {
            obs.fail(
                "multi:fit-refuses-valid-configuration",
                format!("[{tag}] fit returned the error '{e}' for alpha = {}, gradient tolerance {:e}, intercept {}, finite data with {k} classes", cfg.alpha, cfg.tol, cfg.intercept),
            );
            return Outcome { verdict: None, lse_defect: false };
        }
    };
    let classes: Vec<C> = model.classes().to_vec();
    // the statement promises the class SET; the column order is whatever classes() reports (sorted on this tree)
    let mut rep = classes.clone();
    rep.sort();
    obs.class_if(classes == train, "multi_classes_reported_in_sorted_order");
    if !obs.ensure(rep == train, "multi:classes-not-training-classes", || {
        format!("[{tag}] classes() = {:?}, training classes are {:?}", classes, train)
    }) {
        return Outcome { verdict: None, lse_defect: false };
    }
    let wm = model.params().clone();
    let bv = model.intercept().clone();
    if !obs.ensure(wm.dim() == (p, k) && bv.len() == k, "multi:shape", || {
        format!("[{tag}] params() is {:?}, intercept() has {} entries; expected ({p},{k}) and {k}", wm.dim(), bv.len())
    }) {
        return Outcome { verdict: None, lse_defect: false };
    }
    if !cfg.intercept {
        obs.ensure(bv.iter().all(|v| *v == 0.0), "multi:intercept-without-intercept", || {
            format!("[{tag}] with_intercept(false) but intercept() = {:?}", bv.to_vec())
        });
    }
    let c: Vec<usize> = labels.iter().map(|l| classes.iter().position(|cl| cl == l).unwrap_or(0)).collect();
    let obj = Multi { x, c: &c, p, k, intercept: cfg.intercept, alpha: cfg.alpha };
    let mut theta = vec![0.0; rows * k];
    for j in 0..p {
        for kk in 0..k {
            theta[j * k + kk] = wm[(j, kk)];
        }
    }
    if cfg.intercept {
        for kk in 0..k {
            theta[p * k + kk] = bv[kk];
        }
    }
    let mut lse_defect = false;
    let mut j = model::judge(&obj, &theta, cfg.tol);
    if j.verdict == Verdict::NotStationary {
        // see fit_binary: was the run cut off by max_iterations?
        let same = match vengine::guard(|| build(Some(2 * MAX_ITER)).fit(&ds)) {
            Ok(Ok(m2)) => {
                m2.params().dim() == wm.dim()
                    && m2.params().iter().zip(wm.iter()).all(|(a, c)| a.to_bits() == c.to_bits())
                    && m2.intercept().len() == bv.len()
                    && m2.intercept().iter().zip(bv.iter()).all(|(a, c)| a.to_bits() == c.to_bits())
            }
            _ => false,
        };
        if !same {
            j.verdict = Verdict::IterationCap;
        }
    }
    match j.verdict {
        Verdict::Stationary => obs.class(model::grad_class(j.gnorm, cfg.tol)),
        Verdict::Stalled => obs.class("multi_stalled_at_cost_resolution"),
        Verdict::IterationCap => obs.class("multi_stopped_by_max_iterations"),
        Verdict::Undefined | Verdict::CurvatureOverflow => obs.fail("multi:nonfinite-params", format!("[{tag}] fit returned Ok with non-finite parameters {:?}", theta)),
        Verdict::NotStationary => {
            // linfa's log_sum_exp subtracts the maximum of the WHOLE score matrix and clamps every row sum at 1e-15.
            // When some training row lies more than ~34.5 below the global maximum its log-probabilities (hence loss
            // and gradient) are wrong. The harness recomputes the loss that way: if it differs from the true loss at
            // the returned point, the failure is attributed to that defect and gets its own signature.
            let f_def = obj.value_global_max_clamped(&theta);
            lse_defect = (f_def - j.f).abs() > 1e-9 * j.f.abs().max(1.0);
            // ... or at the true minimiser (harness' Newton polish started from the returned point): then linfa's
            // loss has no stationary point where the true loss has its minimum
            let mut deficit_opt = f64::NAN;
            if let Some(pl) = model::polish(&obj, &theta, 200) {
                let fd = obj.value_global_max_clamped(&pl.theta);
                deficit_opt = obj.max_row_deficit(&pl.theta);
                if (fd - pl.f).abs() > 1e-9 * pl.f.abs().max(1.0) {
                    lse_defect = true;
                }
            }
            let deficit_ret = obj.max_row_deficit(&theta);
            // ... or within reach of it: the clamp acts where a row's log-sum-exp lies more than 34.54 below the global
            // maximum; a solver that stops at the edge of that region (observed: deficits of 34.6 with the clamp just
            // inactive) stopped because its trial points beyond the edge return wrong losses
            if deficit_ret >= LSE_DEFECT_REACH || deficit_opt >= LSE_DEFECT_REACH {
                lse_defect = true;
            }
            obs.fail(
                if lse_defect { "multi:not-stationary:log-sum-exp-global-max" } else { "multi:not-stationary" },
                format!(
                    "[{tag}] |grad| = {:.3e} > bound {:.3e} (tol {:.0e}) at the returned point; F = {:.6}, F - F(polished) = {:?}; alpha = {}, intercept = {}, n = {}, classes = {}{}",
                    j.gnorm,
                    j.bound,
                    cfg.tol,
                    j.f,
                    j.gap,
                    cfg.alpha,
                    cfg.intercept,
                    n,
                    k,
                    format!(
                        "; largest score deficit of a row below the global maximum: {:.1} at the returned point, {:.1} at the minimiser (clamp acts beyond 34.5); loss with global-max shift and clamp = {:.6}",
                        deficit_ret, deficit_opt, f_def
                    )
                ),
            )
        }
    }

    // probabilities
    let score = |r: &[f64], kk: usize| -> (f64, f64) {
        let mut z = 0.0;
        let mut s = 0.0;
        for jx in 0..p {
            let t = at(r, jx) * wm[(jx, kk)];
            z += t;
            s += t.abs();
        }
        (z, s)
    };
    let lin = |r: &[f64]| -> (f64, f64) {
        let mut best = (0.0f64, 0.0f64);
        for kk in 0..k {
            let (z, s) = score(r, kk);
            if z.abs() > best.0.abs() {
                best.0 = z;
            }
            best.1 = best.1.max(s);
        }
        best
    };
    let mut q: Vec<Vec<f64>> = x.to_vec();
    q.extend(extreme_rows(x, p, scale, &lin));
    let qa = to_array2(&q, p);
    if let Some(probs) = obs.call("multi:predict_probabilities", || model.predict_probabilities(&qa)) {
        if obs.ensure(probs.dim() == (q.len(), k), "multi:prob-shape", || format!("[{tag}] probability matrix {:?}", probs.dim())) {
            let pred = obs.call("multi:predict", || model.predict(&qa));
            let mut saw_extreme = false;
            for (i, r) in q.iter().enumerate() {
                let mut h = vec![0.0; k];
                let mut smax = 0.0f64;
                for kk in 0..k {
                    let (z, s) = score(r, kk);
                    h[kk] = z + bv[kk];
                    smax = smax.max(s + bv[kk].abs());
                }
                let spread = h.iter().cloned().fold(f64::NEG_INFINITY, f64::max) - h.iter().cloned().fold(f64::INFINITY, f64::min);
                if spread > 500.0 {
                    saw_extreme = true;
                }
                let mine = model::softmax(&h);
                let delta = 16.0 * model::EPS * smax;
                let row: Vec<f64> = (0..k).map(|kk| probs[(i, kk)]).collect();
                if !obs.ensure(row.iter().all(|v| *v >= 0.0 && *v <= 1.0), "multi:prob-out-of-range", || {
                    format!("[{tag}] probability row {:?} for scores {:?}", row, h)
                }) {
                    continue;
                }
                let sum: f64 = row.iter().sum();
                obs.ensure((sum - 1.0).abs() <= ROW_SUM_TOL, "multi:prob-row-sum", || {
                    format!("[{tag}] probability row {:?} sums to {sum}", row)
                });
                for kk in 0..k {
                    let tol = mine[kk] * (4.0 * delta + 1e-12) + 1e-300;
                    obs.ensure((row[kk] - mine[kk]).abs() <= tol, "multi:prob-value", || {
                        format!("[{tag}] class {kk}: probability {:e}, softmax of scores {:?} gives {:e}", row[kk], h, mine[kk])
                    });
                }
                if let Some(pred) = &pred {
                    if pred.len() == q.len() {
                        let pmax = row.iter().cloned().fold(f64::NEG_INFINITY, f64::max);
                        match classes.iter().position(|cl| *cl == pred[i]) {
                            None => obs.fail("multi:predict-unknown-class", format!("[{tag}] predicted {:?}", pred[i])),
                            Some(ci) => {
                                // margin rule: a class whose probability equals the maximum within float tolerance is accepted
                                obs.ensure(row[ci] >= pmax * (1.0 - 1e-12), "multi:predict-vs-argmax", || {
                                    format!("[{tag}] predicted class index {ci} with probability {:e}, row maximum {:e} ({:?})", row[ci], pmax, row)
                                });
                            }
                        }
                    } else {
                        obs.fail("multi:predict-shape", "wrong number of predictions");
                    }
                }
            }
            obs.class_if(saw_extreme, "multi_extreme_scores");
        }
    }
    Outcome { verdict: Some(j.verdict), lse_defect }
}

// ------------------------------------------------------------------------------------------------
// the check

fn name_perm(keys: &[u16], pool: usize) -> Vec<usize> {
    perm_from_keys(keys, pool)
}

fn run_variant(obs: &mut Obs, case: &LogitCase, tag: &'static str, x: &[Vec<f64>], c: &[usize], kind: LabelKind, perm: &[usize], p: usize, scale: f64, cfg: &Cfg) -> Outcome {
    macro_rules! go {
        ($labels:expr) => {{
            let labels = $labels;
            if case.multi {
                fit_multi(obs, tag, x, &labels, p, scale, cfg)
            } else {
                fit_binary(obs, tag, x, &labels, p, scale, cfg)
            }
        }};
    }
    match kind {
        LabelKind::Bool => go!(c.iter().map(|&ci| (perm.first().copied().unwrap_or(0) % 2 == 0) ^ (ci == 0)).collect::<Vec<bool>>()),
        LabelKind::Usize => go!(c.iter().map(|&ci| USIZE_POOL[perm.get(ci).copied().unwrap_or(ci) % USIZE_POOL.len()]).collect::<Vec<usize>>()),
        LabelKind::Str => go!(c
            .iter()
            .map(|&ci| STR_POOL[perm.get(ci).copied().unwrap_or(ci) % STR_POOL.len()].to_string())
            .collect::<Vec<String>>()),
    }
}

pub fn check(case: &LogitCase, obs: &mut Obs) {
    let Some(d) = derive(case) else {
        obs.skip("degenerate_case");
        return;
    };
    let mut alpha = case.alpha_raw();
    let tol = case.tol_eff();
    let mut overlapping = false;
    if alpha == 0.0 {
        if not_separable(&d, case.intercept_eff(), case.multi) {
            overlapping = true;
            obs.class("alpha0_overlapping");
        } else {
            alpha = FORCED_ALPHA;
            obs.class("alpha_forced_not_certified_overlapping");
        }
    }
    obs.class(match alpha {
        a if a == 0.0 => "alpha_0",
        a if a == 1e-3 => "alpha_1e-3",
        a if a == 1.0 => "alpha_1",
        _ => "alpha_10",
    });
    obs.class(match d.scale as u32 {
        1 => "scale_1",
        10 => "scale_10",
        _ => "scale_100",
    });
    obs.class_if(case.intercept_eff(), "intercept");
    obs.class_if(!case.intercept_eff(), "no_intercept");
    obs.class_if(case.init.is_some(), "initial_params");
    obs.class_if(tol == 1e-6, "tol_1e-6");
    obs.class_if(tol == 1e-4, "tol_1e-4");
    obs.class_if(case.unset & UNSET_ALPHA != 0, "default_alpha_not_set");
    obs.class_if(case.unset & UNSET_INTERCEPT != 0, "default_intercept_not_set");
    obs.class_if(case.unset & UNSET_TOL != 0, "default_gradient_tolerance_not_set");
    obs.class_if(case.unset & UNSET_MAX_ITER != 0, "default_max_iterations_not_set");
    obs.class(match case.kind {
        LabelKind::Bool => "labels_bool",
        LabelKind::Usize => "labels_usize",
        LabelKind::Str => "labels_string",
    });
    if case.multi {
        obs.class(match d.k {
            2 => "classes_2",
            3 => "classes_3",
            4 => "classes_4",
            5 => "classes_5",
            _ => "classes_6",
        });
    } else {
        let n0 = d.c.iter().filter(|&&c| c == 0).count();
        let share = n0 as f64 / d.n as f64;
        obs.class_if(!(0.25..=0.75).contains(&share), "imbalanced");
        obs.class_if(n0 * 2 == d.n, "tied_class_counts");
    }
    // initial parameters: feature rows divided by the feature scale (keeps x.w moderate), intercept row last.
    // binary: vector of p (+1) entries; multinomial: table with K_MAX columns, row r at r * K_MAX.
    let init = case.init.as_ref().map(|v| {
        let g = |i: usize| -> f64 {
            let t = at(v, i);
            if t.is_finite() {
                0.5 * t.clamp(-6.0, 6.0)
            } else {
                0.0
            }
        };
        if case.multi {
            let mut out = vec![0.0; (P_MAX + 1) * K_MAX];
            for r in 0..=d.p {
                for kk in 0..K_MAX {
                    let src = g(r * K_MAX + kk);
                    out[r * K_MAX + kk] = if r < d.p { src / d.scale } else { src };
                }
            }
            out
        } else {
            (0..=d.p).map(|j| if j < d.p { g(j) / d.scale } else { g(j) }).collect()
        }
    });
    let cfg = Cfg { alpha, intercept: case.intercept_eff(), tol, init, threshold: threshold_of(case.threshold), unset: case.unset };
    obs.class_if(cfg.threshold == 0.0 || cfg.threshold == 1.0, "threshold_at_boundary");

    // variant A: generated sample order, generated label type and naming
    let order = perm_from_keys(&case.order_keys, d.n);
    let xa: Vec<Vec<f64>> = order.iter().map(|&i| d.x[i].clone()).collect();
    let ca: Vec<usize> = order.iter().map(|&i| d.c[i]).collect();
    let pool = match case.kind {
        LabelKind::Bool => 2,
        LabelKind::Usize => USIZE_POOL.len(),
        LabelKind::Str => STR_POOL.len(),
    };
    let perm = name_perm(&case.name_keys, pool);
    // are the label values in a different order than the class indices? (non-sorted naming)
    let unsorted_names = match case.kind {
        LabelKind::Bool => perm.first().copied().unwrap_or(0) % 2 == 0,
        LabelKind::Usize => (0..d.k.saturating_sub(1)).any(|i| USIZE_POOL[perm[i] % pool] > USIZE_POOL[perm[i + 1] % pool]),
        LabelKind::Str => (0..d.k.saturating_sub(1)).any(|i| STR_POOL[perm[i] % pool] > STR_POOL[perm[i + 1] % pool]),
    };
    obs.class_if(unsorted_names, "naming_not_in_class_order");
    obs.class_if(order.iter().enumerate().any(|(i, &o)| i != o), "samples_permuted");
    let a = run_variant(obs, case, "generated order/naming", &xa, &ca, case.kind, &perm, d.p, d.scale, &cfg);

    // variant B: original order, canonical usize labels (class index) — same data, other order / type / names
    let ident: Vec<usize> = (0..USIZE_POOL.len()).collect();
    let b = run_variant(obs, case, "canonical order/usize labels", &d.x, &d.c, LabelKind::Usize, &ident, d.p, d.scale, &cfg);

    let bad = |v: &Verdict| matches!(v, Verdict::NotStationary | Verdict::Undefined);
    let unjudged = |v: &Verdict| matches!(v, Verdict::Stalled | Verdict::IterationCap);
    if let (Some(va), Some(vb)) = (&a.verdict, &b.verdict) {
        // (a failure already attributed to the log-sum-exp defect is not reported a second time under this signature)
        if (bad(va) && !a.lse_defect && *vb == Verdict::Stationary) || (bad(vb) && !b.lse_defect && *va == Verdict::Stationary) {
            obs.fail(
                if case.multi { "multi:verdict-changes-under-relabelling" } else { "binary:verdict-changes-under-relabelling" },
                format!("stationarity verdict {:?} for the generated order/naming but {:?} for the same data in canonical order with usize labels", va, vb),
            );
        }
    }
    // a case counts as judged when at least one of its two fits got a stationarity verdict
    let judged = [&a.verdict, &b.verdict].iter().any(|v| matches!(v, Some(v) if !unjudged(v)));
    let partly = [&a.verdict, &b.verdict].iter().any(|v| !matches!(v, Some(v) if !unjudged(v)));
    if judged {
        obs.class_if(partly, "one_fit_not_judged_on_stationarity");
        obs.nontrivial_if(overlapping || (case.kind == LabelKind::Str && unsorted_names));
    } else if obs.fails.is_empty() {
        obs.skip("fit_not_judged");
    }
}
