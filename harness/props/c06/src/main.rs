fn main() {
    vengine::main(c06::property())
}
