//! Sub-check `kernel`: dense and sparse kernel matrices against the kernel function, the k-NN
//! validity predicate and the densified matrix.

use crate::gen::{DataClass, Mat};
use crate::oracle::*;
use linfa::dataset::DatasetBase;
use linfa::traits::Transformer;
use linfa::Float;
use linfa_kernel::{Inner, Kernel, KernelBase, KernelInner, KernelMethod, KernelParams, KernelType};
use linfa_nn::CommonNearestNeighbour;
use ndarray::{Array1, Array2};
use serde::{Deserialize, Serialize};
use vengine::gen::{idx, SplitMix};
use vengine::Obs;

/// eigenvalues of a Gaussian kernel matrix must be >= -PSD_TOL_PER_N * n
pub const PSD_TOL_PER_N: f64 = 1e-12;

#[derive(Debug, Clone, Serialize, Deserialize)]
pub struct KCase {
    pub class: DataClass,
    pub x: Mat,
    pub method: KM,
    /// neighbour count, mapped monotonically into 1..n
    pub k: u16,
    /// number of columns of the right-hand side of `dot`
    pub rhs_cols: u8,
    pub rhs_seed: u64,
    /// which `transform` overload builds the kernels
    pub path: u8,
    /// the records handed to linfa are `x * scale + offset` (offset per feature, missing entries = 0)
    #[serde(default)]
    pub offset: Vec<f64>,
    #[serde(default = "one")]
    pub scale: f64,
    /// build `Kernel<f32>` (records and kernel parameters rounded to f32 first)
    #[serde(default)]
    pub single: bool,
    /// order of the `KernelParams` builder calls, see `params_in_order`
    #[serde(default)]
    pub order: u8,
    /// memory layout of the records handed to linfa, see `layout_name`
    #[serde(default)]
    pub layout: u8,
}

fn one() -> f64 {
    1.0
}

pub fn to_arr<F: Float>(x: &Mat) -> Array2<F> {
    let n = x.len();
    let p = x.first().map(|r| r.len()).unwrap_or(0);
    Array2::from_shape_fn((n, p), |(i, j)| F::cast(x[i][j]))
}

fn f<F: Float>(v: F) -> f64 {
    num_traits::ToPrimitive::to_f64(&v).unwrap_or(f64::NAN)
}

pub fn to_method<F: Float>(m: &KM) -> KernelMethod<F> {
    match m {
        KM::Linear => KernelMethod::Linear,
        KM::Gaussian(e) => KernelMethod::Gaussian(F::cast(*e)),
        KM::Polynomial(c, d) => KernelMethod::Polynomial(F::cast(*c), F::cast(*d)),
    }
}

/// the kernel method with its parameters rounded to the element type (what linfa really receives)
fn rounded_method<F: Float>(m: &KM) -> KM {
    match m {
        KM::Linear => KM::Linear,
        KM::Gaussian(e) => KM::Gaussian(f(F::cast(*e))),
        KM::Polynomial(c, d) => KM::Polynomial(f(F::cast(*c)), f(F::cast(*d))),
    }
}

pub fn nn_name(nn: &CommonNearestNeighbour) -> &'static str {
    match nn {
        CommonNearestNeighbour::LinearSearch => "linear",
        CommonNearestNeighbour::KdTree => "kdtree",
        CommonNearestNeighbour::BallTree => "balltree",
        _ => "other",
    }
}

/// `KernelParams` built by calling the setters in a generated order (the last call of a setter wins):
/// `order % 6` = permutation of (kind, method, nn_algo); `order / 6 % 3` = 0: `Kernel::params()` + the three
/// setters, 1: the three setters with decoy values first, then the real ones, 2: `Kernel::params_with_nn(nn)`
/// + kind/method (nn_algo not called).
pub fn params_in_order<F: Float>(method: &KM, kind: KernelType, nn: CommonNearestNeighbour, order: u8) -> KernelParams<F, CommonNearestNeighbour> {
    const PERMS: [[u8; 3]; 6] = [[0, 1, 2], [0, 2, 1], [1, 0, 2], [1, 2, 0], [2, 0, 1], [2, 1, 0]];
    let perm = PERMS[(order % 6) as usize];
    let mode = (order / 6) % 3;
    let apply = |p: KernelParams<F, CommonNearestNeighbour>, which: u8, kind: &KernelType, method: &KM, nn: &CommonNearestNeighbour| match which {
        0 => p.kind(kind.clone()),
        1 => p.method(to_method(method)),
        _ => p.nn_algo(nn.clone()),
    };
    if mode == 2 {
        let mut p: KernelParams<F, CommonNearestNeighbour> = Kernel::params_with_nn(nn.clone());
        for w in perm {
            if w != 2 {
                p = apply(p, w, &kind, method, &nn);
            }
        }
        return p;
    }
    let mut p: KernelParams<F, CommonNearestNeighbour> = Kernel::params();
    if mode == 1 {
        let decoy_kind = if matches!(kind, KernelType::Dense) { KernelType::Sparse(1) } else { KernelType::Dense };
        let decoy_method = if matches!(method, KM::Linear) { KM::Gaussian(0.5) } else { KM::Linear };
        let decoy_nn = if matches!(nn, CommonNearestNeighbour::BallTree) { CommonNearestNeighbour::LinearSearch } else { CommonNearestNeighbour::BallTree };
        for w in [perm[2], perm[0], perm[1]] {
            p = apply(p, w, &decoy_kind, &decoy_method, &decoy_nn);
        }
    }
    for w in perm {
        p = apply(p, w, &kind, method, &nn);
    }
    p
}

/// Memory layouts of the record matrix handed to linfa (the logical n x p matrix is always the same).
pub const LAYOUTS: u8 = 7;
pub fn layout_name(layout: u8) -> &'static str {
    match layout % LAYOUTS {
        0 => "layout_row_major",
        1 => "layout_column_major",
        2 => "layout_strided_view_with_gaps",
        3 => "layout_reversed_rows",
        4 => "layout_reversed_columns",
        5 => "layout_transposed_feature_major",
        _ => "layout_row_gapped_view",
    }
}
/// every logical row is one contiguous unit-stride slice (what linfa-nn's KdTree documents as its
/// precondition: it panics otherwise)
pub fn rows_contiguous(layout: u8, n: usize, p: usize) -> bool {
    if p <= 1 {
        return true;
    }
    match layout % LAYOUTS {
        0 | 3 | 6 => true,
        1 | 5 => n <= 1, // column stride = n
        _ => false,      // column stride 2 or -1
    }
}

/// backing storage for a layout; `view_of` borrows the logical matrix from it
fn layout_storage<F: Float>(x: &Array2<F>, layout: u8) -> Array2<F> {
    use ndarray::ShapeBuilder;
    let (n, p) = x.dim();
    let junk = F::nan();
    match layout % LAYOUTS {
        0 => x.to_owned(),
        1 => {
            let mut h = Array2::from_elem((n, p).f(), junk);
            h.assign(x);
            h
        }
        2 => {
            let mut h = Array2::from_elem((2 * n + 1, 2 * p + 1), junk);
            for i in 0..n {
                for j in 0..p {
                    h[(2 * i + 1, 2 * j + 1)] = x[(i, j)];
                }
            }
            h
        }
        3 => Array2::from_shape_fn((n, p), |(i, j)| x[(n - 1 - i, j)]),
        4 => Array2::from_shape_fn((n, p), |(i, j)| x[(i, p - 1 - j)]),
        5 => Array2::from_shape_fn((p, n), |(j, i)| x[(i, j)]),
        _ => {
            let mut h = Array2::from_elem((2 * n + 1, p), junk);
            for i in 0..n {
                for j in 0..p {
                    h[(2 * i + 1, j)] = x[(i, j)];
                }
            }
            h
        }
    }
}
fn view_of<F: Float>(h: &Array2<F>, layout: u8, n: usize, p: usize) -> ndarray::ArrayView2<'_, F> {
    use ndarray::s;
    match layout % LAYOUTS {
        0 | 1 => h.view(),
        2 => h.slice(s![1..2 * n + 1;2, 1..2 * p + 1;2]),
        3 => h.slice(s![..;-1, ..]),
        4 => h.slice(s![.., ..;-1]),
        5 => h.t(),
        _ => h.slice(s![1..2 * n + 1;2, ..]),
    }
}
/// an *owned* array with the layout, where ndarray can own one (no gaps)
fn owned_of<F: Float>(h: Array2<F>, layout: u8) -> Option<Array2<F>> {
    match layout % LAYOUTS {
        0 | 1 => Some(h),
        3 => {
            let mut h = h;
            h.invert_axis(ndarray::Axis(0));
            Some(h)
        }
        4 => {
            let mut h = h;
            h.invert_axis(ndarray::Axis(1));
            Some(h)
        }
        5 => Some(h.reversed_axes()),
        _ => None,
    }
}

/// Build a kernel through one of the public construction paths (`path % 7`: transform(ArrayView2),
/// transform(&Array2), transform(&ArrayView2), transform(Dataset), transform(&Dataset), Kernel::new,
/// transform(&DatasetView)) from records stored in the given memory layout. Paths that need an owned array
/// fall back to the corresponding view path for layouts only a view can have. Returns the kernel and whether
/// the path preserved the targets it was given (true when the path carries no targets).
pub fn build<F: Float>(
    x: &Array2<F>,
    method: &KM,
    kind: KernelType,
    nn: CommonNearestNeighbour,
    path: u8,
    order: u8,
    layout: u8,
) -> (Kernel<F>, bool) {
    let params: KernelParams<F, CommonNearestNeighbour> = params_in_order(method, kind, nn, order);
    let (n, p) = x.dim();
    let mut path = path % 7;
    let ownable = owned_of(Array2::<F>::zeros((0, 0)), layout).is_some();
    if !ownable {
        path = match path {
            1 => 2,
            3 | 4 => 6,
            other => other,
        };
    }
    let targets = Array1::from_shape_fn(n, |i| 7 * i + 1);
    let storage = layout_storage(x, layout);
    match path {
        1 | 3 | 4 => {
            let owned = owned_of(storage, layout).unwrap_or_else(|| x.to_owned());
            debug_assert!(owned == *x);
            match path {
                1 => (params.transform(&owned), true),
                3 => {
                    let ds = DatasetBase::new(owned, targets.clone());
                    let out: DatasetBase<Kernel<F>, Array1<usize>> = params.transform(ds);
                    let ok = out.targets == targets;
                    (out.records, ok)
                }
                _ => {
                    let ds = DatasetBase::new(owned, targets.clone());
                    let out = params.transform(&ds);
                    let ok = out.targets.to_owned() == targets;
                    (out.records, ok)
                }
            }
        }
        _ => {
            let v = view_of(&storage, layout, n, p);
            debug_assert!(v == *x);
            match path {
                0 => (params.transform(v), true),
                2 => (params.transform(&v), true),
                6 => {
                    let ds = DatasetBase::new(v, targets.clone());
                    let out = params.transform(&ds);
                    let ok = out.targets.to_owned() == targets;
                    (out.records, ok)
                }
                _ => (Kernel::new(v, &params), true),
            }
        }
    }
}

/// Densified copy of the kernel's inner matrix; for the sparse variant also the stored pattern.
pub fn densify<F: Float>(k: &Kernel<F>, n: usize) -> Result<(Mat, Option<Vec<Vec<bool>>>), String> {
    match &k.inner {
        KernelInner::Dense(a) => {
            if a.nrows() != n || a.ncols() != n {
                return Err(format!("dense inner has shape {:?} for {n} records", a.shape()));
            }
            Ok(((0..n).map(|i| (0..n).map(|j| f(a[(i, j)])).collect()).collect(), None))
        }
        KernelInner::Sparse(s) => {
            if s.rows() != n || s.cols() != n {
                return Err(format!("sparse inner has shape {}x{} for {n} records", s.rows(), s.cols()));
            }
            let mut m = vec![vec![0.0; n]; n];
            let mut pat = vec![vec![false; n]; n];
            for (v, (r, c)) in s.iter() {
                if r >= n || c >= n {
                    return Err(format!("stored entry ({r},{c}) out of bounds"));
                }
                if pat[r][c] {
                    return Err(format!("entry ({r},{c}) stored twice"));
                }
                pat[r][c] = true;
                m[r][c] = f(*v);
            }
            Ok((m, Some(pat)))
        }
    }
}

fn rhs_matrix<F: Float>(n: usize, cols: usize, seed: u64) -> Array2<F> {
    let mut r = SplitMix(seed);
    Array2::from_shape_fn((n, cols), |_| {
        let v = r.below(9) as f64 - 4.0;
        F::cast(if r.below(4) == 0 { v + 0.5 } else { v })
    })
}

/// size / sum / column / diagonal / to_upper_triangle / dot against the densified matrix `m`
pub fn check_ops<F: Float, K1: Inner<Elem = F>, K2: Inner<Elem = F>>(
    tag: &str,
    k: &KernelBase<K1, K2>,
    m: &Mat,
    rhs: &Array2<F>,
    prec: Prec,
    obs: &mut Obs,
) {
    let n = m.len();
    let sum_tol = (TOL_ULPS + 2.0 * n as f64) * prec.eps;
    let tiny = prec.tiny;
    if let Some(s) = obs.call(&format!("{tag}:size"), || k.size()) {
        obs.ensure(s == n, &format!("{tag}:size"), || format!("size() = {s} for a {n}x{n} kernel matrix"));
    }
    if let Some(s) = obs.call(&format!("{tag}:sum"), || k.sum().iter().map(|v| f(*v)).collect::<Vec<f64>>()) {
        if obs.ensure(s.len() == n, &format!("{tag}:sum-length"), || format!("sum() has length {} for n = {n}", s.len())) {
            for i in 0..n {
                let want: f64 = m[i].iter().sum();
                let scale: f64 = m[i].iter().map(|v| v.abs()).sum();
                obs.ensure((s[i] - want).abs() <= sum_tol * scale + tiny, &format!("{tag}:sum"), || {
                    format!("sum()[{i}] = {}, row {i} of the kernel matrix sums to {want}", s[i])
                });
            }
        }
    }
    for i in 0..n {
        if let Some(c) = obs.call(&format!("{tag}:column"), || k.column(i).into_iter().map(f).collect::<Vec<f64>>()) {
            let want: Vec<f64> = (0..n).map(|r| m[r][i]).collect();
            obs.ensure(c == want, &format!("{tag}:column"), || format!("column({i}) = {:?}, matrix column is {:?}", c, want));
        }
    }
    if let Some(d) = obs.call(&format!("{tag}:diagonal"), || k.diagonal().iter().map(|v| f(*v)).collect::<Vec<f64>>()) {
        let want: Vec<f64> = (0..n).map(|i| m[i][i]).collect();
        obs.ensure(d == want, &format!("{tag}:diagonal"), || format!("diagonal() = {:?}, matrix diagonal is {:?}", d, want));
    }
    if let Some(u) = obs.call(&format!("{tag}:upper"), || k.to_upper_triangle().into_iter().map(f).collect::<Vec<f64>>()) {
        let mut want = vec![];
        for i in 0..n {
            for j in i + 1..n {
                want.push(m[i][j]);
            }
        }
        obs.ensure(u == want, &format!("{tag}:upper-triangle"), || {
            format!("to_upper_triangle() has {} values {:?}, strict upper triangle (row-major) has {} values {:?}", u.len(), u, want.len(), want)
        });
    }
    if let Some(p) = obs.call(&format!("{tag}:dot"), || k.dot(&rhs.view())) {
        if obs.ensure(p.nrows() == n && p.ncols() == rhs.ncols(), &format!("{tag}:dot-shape"), || {
            format!("dot() has shape {:?}, expected {n}x{}", p.shape(), rhs.ncols())
        }) {
            for i in 0..n {
                for c in 0..rhs.ncols() {
                    let mut want = 0.0;
                    let mut scale = 0.0;
                    for l in 0..n {
                        want += m[i][l] * f(rhs[(l, c)]);
                        scale += (m[i][l] * f(rhs[(l, c)])).abs();
                    }
                    let got = f(p[(i, c)]);
                    obs.ensure((got - want).abs() <= sum_tol * scale + tiny, &format!("{tag}:dot"), || {
                        format!("dot()[{i},{c}] = {got}, matrix product gives {want}")
                    });
                }
            }
        }
    }
}

fn class_labels(c: &KCase, obs: &mut Obs) {
    obs.class(match c.class {
        DataClass::Lattice => "data_lattice",
        DataClass::Duplicates => "data_duplicates",
        DataClass::Clustered => "data_clustered",
        DataClass::Gaussian => "data_gaussian",
    });
    obs.class(match c.method {
        KM::Linear => "kernel_linear",
        KM::Gaussian(_) => "kernel_gaussian",
        KM::Polynomial(..) => "kernel_polynomial",
    });
}

/// Faithful replay of the insertion algorithm of the `kdtree` crate (0.6.0: `add_unchecked`, `add_to_bucket`,
/// `split`) in the element type `F`, with linfa-nn's default leaf size 16. Returns true when the recursion
/// does not terminate: a bucket of more than 16 points whose widest dimension spans two adjacent floats so
/// that `min + (max - min) / 2` rounds onto `min` sends every point to the right child again and again
/// (stack overflow, SIGABRT - not catchable, so the real call must be avoided for such inputs).
pub fn kdtree_build_diverges<F: Float>(x: &Array2<F>) -> bool {
    struct Node<F> {
        kids: Option<Box<(Node<F>, Node<F>)>>,
        min: Vec<F>,
        max: Vec<F>,
        split: Option<(usize, F)>,
        pts: Vec<Vec<F>>,
        size: usize,
    }
    const CAP: usize = 16;
    fn leaf<F: Float>(d: usize) -> Node<F> {
        Node { kids: None, min: vec![F::infinity(); d], max: vec![F::neg_infinity(); d], split: None, pts: vec![], size: 0 }
    }
    fn extend<F: Float>(n: &mut Node<F>, p: &[F]) {
        for j in 0..p.len() {
            if p[j] < n.min[j] {
                n.min[j] = p[j];
            }
            if p[j] > n.max[j] {
                n.max[j] = p[j];
            }
        }
    }
    fn add<F: Float>(n: &mut Node<F>, p: Vec<F>, depth: usize, limit: usize) -> bool {
        if depth > limit {
            return false;
        }
        if n.kids.is_none() {
            return add_to_bucket(n, p, depth, limit);
        }
        extend(n, &p);
        n.size += 1;
        let (dim, val) = n.split.unwrap_or((0, F::zero()));
        let left = p[dim] < val;
        match n.kids.as_mut() {
            Some(k) => add(if left { &mut k.0 } else { &mut k.1 }, p, depth + 1, limit),
            None => true,
        }
    }
    fn add_to_bucket<F: Float>(n: &mut Node<F>, p: Vec<F>, depth: usize, limit: usize) -> bool {
        if depth > limit {
            return false;
        }
        extend(n, &p);
        n.pts.push(p);
        n.size += 1;
        if n.size <= CAP {
            return true;
        }
        // split
        let d = n.min.len();
        let mut widest = F::zero();
        let mut dim = n.split.map(|s| s.0);
        for j in 0..d {
            let diff = n.max[j] - n.min[j];
            if !diff.is_nan() && diff > widest {
                widest = diff;
                dim = Some(j);
            }
        }
        let Some(dim) = dim else { return true };
        let val = n.min[dim] + (n.max[dim] - n.min[dim]) / F::cast(2.0);
        n.split = Some((dim, val));
        let mut l = leaf::<F>(d);
        let mut r = leaf::<F>(d);
        let mut pts = std::mem::take(&mut n.pts);
        while !pts.is_empty() {
            let q = pts.swap_remove(0);
            let ok = if q[dim] < val { add_to_bucket(&mut l, q, depth + 1, limit) } else { add_to_bucket(&mut r, q, depth + 1, limit) };
            if !ok {
                return false;
            }
        }
        n.kids = Some(Box::new((l, r)));
        true
    }
    let d = x.ncols();
    if d == 0 {
        return false;
    }
    let limit = x.nrows() + 8;
    let mut root = leaf::<F>(d);
    for row in x.rows() {
        if !add(&mut root, row.to_vec(), 0, limit) {
            return true;
        }
    }
    false
}

/// the record matrix handed to linfa, in f64 (already rounded to f32 when the case is single precision)
pub fn actual_records(c: &KCase) -> Mat {
    c.x.iter()
        .map(|row| {
            row.iter()
                .enumerate()
                .map(|(j, v)| {
                    let r = v * c.scale + c.offset.get(j).copied().unwrap_or(0.0);
                    if c.single {
                        r as f32 as f64
                    } else {
                        r
                    }
                })
                .collect()
        })
        .collect()
}

pub fn check_kernel(c: &KCase, obs: &mut Obs) {
    if c.single {
        obs.class("element_f32");
        check_kernel_t::<f32>(c, F32, obs)
    } else {
        obs.class("element_f64");
        check_kernel_t::<f64>(c, F64, obs)
    }
}

fn check_kernel_t<F: Float>(c: &KCase, prec: Prec, obs: &mut Obs) {
    let n = c.x.len();
    if n >= 1 && (c.x.iter().any(|r| r.len() != c.x[0].len()) || c.x[0].is_empty()) || !(c.scale.is_finite() && c.scale > 0.0) {
        obs.skip("malformed_case");
        return;
    }
    class_labels(c, obs);
    let recs = actual_records(c);
    let max_off = c.offset.iter().fold(0.0f64, |a, b| a.max(b.abs()));
    obs.class_if(max_off == 0.0, "offset_none");
    obs.class_if(max_off > 0.0 && max_off < 1e5, "offset_1e3");
    obs.class_if(max_off >= 1e5 && max_off < 1e7, "offset_1e6");
    obs.class_if(max_off >= 1e7, "offset_1e8");
    obs.class_if(c.offset.windows(2).any(|w| w[0] != w[1]), "offset_differs_per_feature");
    obs.class_if(c.scale != 1.0, "spacing_scaled");
    obs.class(layout_name(c.layout));
    obs.class(match (c.order / 6) % 3 {
        0 => "params_setters_permuted",
        1 => "params_setters_called_twice",
        _ => "params_with_nn",
    });
    let method = rounded_method::<F>(&c.method);
    let x: Array2<F> = to_arr(&recs);
    obs.class_if(n == 0, "n_eq_0");
    obs.class_if(n == 1, "n_eq_1");
    obs.class_if(n == 2, "n_eq_2");
    // a sparse kernel needs 0 < k < n (documented), i.e. n >= 2
    let k = if n >= 2 { 1 + idx(c.k, n - 1) } else { 0 };
    obs.class_if(k == 1, "k_eq_1");
    obs.class_if(n >= 2 && k == n - 1, "k_eq_n_minus_1");
    let rhs: Array2<F> = rhs_matrix(n, c.rhs_cols.clamp(1, 3) as usize, c.rhs_seed);

    // reference kernel matrix (f64 arithmetic on the exact element values, differences first)
    let mut r = vec![vec![0.0; n]; n];
    let mut tol = vec![vec![0.0; n]; n];
    for i in 0..n {
        for j in 0..n {
            let (v, t) = kernel_ref(&method, &recs[i], &recs[j], prec);
            r[i][j] = v;
            tol[i][j] = t;
        }
    }
    let huge = if c.single { 1e34 } else { 1e300 };
    if r.iter().any(|row| row.iter().any(|v| v.abs() > huge)) {
        obs.skip("kernel_value_overflows_element_type");
        return;
    }
    obs.class_if((0..n).any(|i| (0..n).any(|j| i != j && r[i][j] == 0.0)) && matches!(c.method, KM::Gaussian(_)), "gaussian_underflow_to_zero");
    if let KM::Polynomial(pc, pd) = &method {
        let frac = !is_small_integer(*pd);
        obs.class_if(frac, "poly_fractional_degree");
        obs.class_if(!frac, "poly_integral_degree");
        obs.class_if(*pd == 0.0, "poly_degree_zero");
        obs.class_if(*pc < 0.0, "poly_negative_constant");
        obs.class_if(pc.fract() != 0.0, "poly_non_integral_constant");
        let mut zero_base = false;
        let mut neg_base = false;
        for i in 0..n {
            for j in 0..n {
                let b: f64 = recs[i].iter().zip(&recs[j]).map(|(a, b)| a * b).sum::<f64>() + pc;
                zero_base |= b == 0.0;
                neg_base |= b < 0.0;
            }
        }
        obs.class_if(zero_base, "poly_zero_base");
        obs.class_if(neg_base, "poly_negative_base");
        if frac && (*pd < 0.0 || *pc < 0.0 || recs.iter().any(|r| r.iter().any(|v| *v < 0.0)) || r.iter().any(|row| row.iter().any(|v| v.is_nan()))) {
            // (negative base)^(fractional degree) is NaN by definition: kept out of the generator
            obs.skip("fractional_degree_outside_domain");
            return;
        }
    }
    let psd_tol = PSD_TOL_PER_N.max(TOL_ULPS * prec.eps) * n as f64;

    // ---------------------------------------------------------------- dense
    let mut dense_m: Option<Mat> = None;
    if let Some((kd, targets_ok)) = obs.call("build-dense", || build::<F>(&x, &method, KernelType::Dense, CommonNearestNeighbour::KdTree, c.path, c.order, c.layout)) {
        obs.ensure(targets_ok, "build:targets-changed", || "the dataset transform did not hand the targets through unchanged".into());
        obs.ensure(matches!(kd.inner, KernelInner::Dense(_)), "dense:wrong-variant", || "KernelType::Dense produced a sparse inner matrix".into());
        match densify(&kd, n) {
            Err(e) => obs.fail("dense:shape", e),
            Ok((m, _)) => {
                for i in 0..n {
                    for j in 0..n {
                        obs.ensure((m[i][j] - r[i][j]).abs() <= tol[i][j], "dense:entry", || {
                            format!(
                                "entry ({i},{j}) = {}, kernel function of rows {i},{j} = {} (tolerance {:e}); rows {:?} and {:?}",
                                m[i][j], r[i][j], tol[i][j], recs[i], recs[j]
                            )
                        });
                        obs.ensure(m[i][j] == m[j][i], "dense:asymmetric", || {
                            format!("entry ({i},{j}) = {} but entry ({j},{i}) = {}", m[i][j], m[j][i])
                        });
                    }
                }
                if matches!(c.method, KM::Gaussian(_)) {
                    for i in 0..n {
                        obs.ensure((m[i][i] - 1.0).abs() <= TOL_ULPS * prec.eps, "gaussian:diagonal", || {
                            format!("Gaussian kernel diagonal entry {i} = {}", m[i][i])
                        });
                    }
                    let (vals, _) = vengine::num::jacobi_eigh(&m);
                    let lo = vals.iter().copied().fold(f64::INFINITY, f64::min);
                    obs.ensure(lo >= -psd_tol, "gaussian:not-psd", || {
                        format!("smallest eigenvalue of the Gaussian kernel matrix is {lo}")
                    });
                    // a few quadratic forms as a second witness
                    let mut g = SplitMix(c.rhs_seed ^ 0x5eed);
                    for _ in 0..4 {
                        let v: Vec<f64> = (0..n).map(|_| g.gauss()).collect();
                        let mut q = 0.0;
                        let mut sc = 0.0;
                        for i in 0..n {
                            for j in 0..n {
                                q += v[i] * m[i][j] * v[j];
                                sc += (v[i] * m[i][j] * v[j]).abs();
                            }
                        }
                        obs.ensure(q >= -psd_tol * sc.max(1.0), "gaussian:not-psd", || {
                            format!("quadratic form v'Kv = {q} for v = {:?}", v)
                        });
                    }
                }
                check_ops("dense", &kd, &m, &rhs, prec, obs);
                let view = kd.view();
                check_ops("dense_view", &view, &m, &rhs, prec, obs);
                if let Some(back) = obs.call("dense:to_owned", || view.to_owned()) {
                    obs.ensure(back == kd, "dense:view-roundtrip", || "kernel.view().to_owned() differs from the kernel".into());
                }
                dense_m = Some(m);
            }
        }
    }

    // ---------------------------------------------------------------- sparse, all three neighbour indices
    if n < 2 {
        return;
    }
    // neighbour structure from exact differences of the records (never from their norms)
    let knn = Knn::new(&recs, k, prec);
    let (d2, dk) = knn_radii(&recs, k);
    let mut asym = false;
    let mut tie = false;
    for i in 0..n {
        for j in 0..n {
            if i != j {
                asym |= knn.surely_neighbour(i, j) && !knn.possibly_neighbour(j, i);
                tie |= knn.must_pair(i, j) != knn.may_pair(i, j);
            }
        }
    }
    obs.class_if(asym, "knn_relation_asymmetric");
    obs.class_if(!asym, "knn_relation_symmetric");
    obs.class_if(tie, "knn_tie_at_rank_k");
    obs.class_if(
        (0..n).any(|i| (0..n).filter(|&j| j != i && d2[i][j] == 0.0).count() > k),
        "more_than_k_exact_duplicates",
    );
    obs.nontrivial_if(asym);

    // The kd-tree build of the `kdtree` crate recurses without bound on some inputs (see
    // `kdtree_build_diverges`); the process would die, so the call is replaced by a recorded failure.
    let kd_trap = kdtree_build_diverges(&x);
    obs.class_if(kd_trap, "kdtree_unsplittable_bucket");
    let mut patterns: Vec<(&'static str, Vec<Vec<bool>>)> = vec![];
    for nn in [CommonNearestNeighbour::LinearSearch, CommonNearestNeighbour::KdTree, CommonNearestNeighbour::BallTree] {
        let name = nn_name(&nn);
        if kd_trap && matches!(nn, CommonNearestNeighbour::KdTree) && rows_contiguous(c.layout, n, x.ncols()) {
            obs.fail(
                "kdtree:build-recursion-unbounded",
                format!(
                    "sparse kernel with the KdTree index on {n} records (k = {k}): more than 16 records lie within one ulp of each other and the split value min + (max - min)/2 rounds onto min, so kdtree::add_to_bucket recurses until the stack overflows (call not made; records {:?})",
                    recs
                ),
            );
            continue;
        }
        let what = format!("build-sparse:{name}");
        let p_cols = x.ncols();
        let ks_res = if matches!(nn, CommonNearestNeighbour::KdTree) && !rows_contiguous(c.layout, n, p_cols) {
            // linfa-nn documents that the kd-tree needs every row contiguous in memory and panics otherwise
            // (kdtree.rs: "views should be contiguous"); for exactly these layouts a panic is accepted
            match vengine::guard(|| build::<F>(&x, &method, KernelType::Sparse(k), nn.clone(), c.path, c.order, c.layout)) {
                Ok(v) => {
                    obs.class("kdtree_accepts_noncontiguous_rows");
                    Some(v)
                }
                Err(_) => {
                    obs.class("kdtree_documented_panic_noncontiguous_rows");
                    None
                }
            }
        } else {
            obs.call(&what, || build::<F>(&x, &method, KernelType::Sparse(k), nn.clone(), c.path, c.order, c.layout))
        };
        let Some((ks, targets_ok)) = ks_res else { continue };
        obs.ensure(targets_ok, "build:targets-changed", || "the dataset transform did not hand the targets through unchanged".into());
        obs.ensure(matches!(ks.inner, KernelInner::Sparse(_)), "sparse:wrong-variant", || "KernelType::Sparse produced a dense inner matrix".into());
        let (m, pat) = match densify(&ks, n) {
            Err(e) => {
                obs.fail("sparse:shape", format!("[{name}] {e}"));
                continue;
            }
            Ok((m, Some(p))) => (m, p),
            Ok((_, None)) => continue,
        };
        for i in 0..n {
            obs.ensure(pat[i][i], "sparse:diagonal-missing", || format!("[{name}, k={k}] diagonal entry ({i},{i}) is not stored"));
            for j in 0..n {
                obs.ensure(pat[i][j] == pat[j][i], "sparse:pattern-asymmetric", || {
                    format!("[{name}, k={k}] ({i},{j}) stored = {} but ({j},{i}) stored = {}", pat[i][j], pat[j][i])
                });
                if knn.must_pair(i, j) {
                    obs.ensure(pat[i][j], "sparse:neighbour-pair-missing", || {
                        format!(
                            "[{name}, k={k}] pair ({i},{j}) is not stored although one is among the other's k nearest under every tie-break: d2 = {}, k-th neighbour distances {} (of {i}) and {} (of {j})",
                            d2[i][j], dk[i], dk[j]
                        )
                    });
                }
                if !knn.may_pair(i, j) {
                    obs.ensure(!pat[i][j], "sparse:non-neighbour-pair-stored", || {
                        format!(
                            "[{name}, k={k}] pair ({i},{j}) is stored although d2 = {} exceeds the k-th neighbour distances {} (of {i}) and {} (of {j})",
                            d2[i][j], dk[i], dk[j]
                        )
                    });
                }
                if pat[i][j] {
                    obs.ensure((m[i][j] - r[i][j]).abs() <= tol[i][j], "sparse:entry", || {
                        format!("[{name}] stored entry ({i},{j}) = {}, kernel function = {} (tolerance {:e})", m[i][j], r[i][j], tol[i][j])
                    });
                    if let Some(dm) = &dense_m {
                        obs.ensure(m[i][j] == dm[i][j], "sparse:value-differs-from-dense", || {
                            format!("[{name}] stored entry ({i},{j}) = {} but the dense kernel holds {}", m[i][j], dm[i][j])
                        });
                    }
                }
            }
        }
        let tag = format!("sparse_{name}");
        check_ops(&tag, &ks, &m, &rhs, prec, obs);
        let view = ks.view();
        check_ops(&format!("sparse_view_{name}"), &view, &m, &rhs, prec, obs);
        if let Some(back) = obs.call("sparse:to_owned", || view.to_owned()) {
            obs.ensure(back == ks, "sparse:view-roundtrip", || "kernel.view().to_owned() differs from the kernel".into());
        }
        patterns.push((name, pat));
    }
    if !tie {
        for w in patterns.windows(2) {
            obs.ensure(w[0].1 == w[1].1, "sparse:index-dependent-pattern", || {
                format!("no distance tie at rank k = {k}, yet the stored patterns under {} and {} differ", w[0].0, w[1].0)
            });
        }
    }
}
