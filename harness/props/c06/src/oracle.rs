//! Independent reference code for C06: kernel functions, k-nearest-neighbour validity bounds,
//! connected components, naive Lance–Williams agglomeration. Deliberately naive.

use serde::{Deserialize, Serialize};

pub type Mat = Vec<Vec<f64>>;

pub const EPS: f64 = f64::EPSILON;
/// §1.5: recomputed by an independent formula ⇒ |a-b| <= 64*eps*scale + tiny
pub const TOL_ULPS: f64 = 64.0;
pub const TINY: f64 = 1e-300;
/// relative band around the k-th neighbour distance inside which membership is free (ties)
pub const KNN_BAND: f64 = 1e-9;
/// two candidate merges closer than GAP*(1+|h|) make the dendrogram ambiguous ⇒ case not judged
pub const MERGE_GAP: f64 = 1e-9;
/// similarity floor of the -ln transform (property statement)
pub const SIM_FLOOR: f64 = 1e-6;

/// machine epsilon of the element type the kernel is built with, and the absolute floor of its tolerances
#[derive(Debug, Clone, Copy)]
pub struct Prec {
    pub eps: f64,
    pub tiny: f64,
}
pub const F64: Prec = Prec { eps: f64::EPSILON, tiny: TINY };
/// f32: results below the smallest normal number are rounded to multiples of 1.4e-45
pub const F32: Prec = Prec { eps: f32::EPSILON as f64, tiny: 1e-44 };

#[derive(Debug, Clone, Serialize, Deserialize, PartialEq)]
pub enum KM {
    Linear,
    Gaussian(f64),
    /// (constant, degree), degree >= 0; a fractional degree is only generated together with
    /// non-negative records and constant (base >= 0), where the power is defined
    Polynomial(f64, f64),
}

/// kernel value and the absolute tolerance that goes with it
/// (the reference itself runs in f64 on the exact element values; differences of the records are formed
/// first, so a common offset of the records does not enter the tolerance of the Gaussian kernel)
pub fn kernel_ref(m: &KM, a: &[f64], b: &[f64], prec: Prec) -> (f64, f64) {
    let (ep, tiny) = (prec.eps, prec.tiny);
    match m {
        KM::Linear => {
            let mut s = 0.0;
            let mut scale = 0.0;
            for (x, y) in a.iter().zip(b) {
                s += x * y;
                scale += (x * y).abs();
            }
            (s, TOL_ULPS * ep * scale + tiny)
        }
        KM::Gaussian(eps) => {
            let mut d2 = 0.0;
            for (x, y) in a.iter().zip(b) {
                d2 += (x - y) * (x - y);
            }
            let t = d2 / eps;
            let v = (-t).exp();
            // relative error of exp(-t) under a relative error delta of t is about t*delta
            (v, TOL_ULPS * ep * (1.0 + t) * v + tiny)
        }
        KM::Polynomial(c, d) => {
            let mut s = 0.0;
            let mut scale = 0.0;
            for (x, y) in a.iter().zip(b) {
                s += x * y;
                scale += (x * y).abs();
            }
            let base = s + c;
            let e_base = TOL_ULPS * ep * (scale + c.abs()) + tiny;
            let v = pow_ref(base, *d);
            if is_small_integer(*d) {
                // |d base^(d-1)| e_base, with the base taken at the far end of its error interval
                let mut slope = *d;
                let mut i = 1.0;
                while i < *d {
                    slope *= base.abs() + e_base;
                    i += 1.0;
                }
                (v, TOL_ULPS * ep * v.abs() + slope * e_base + tiny)
            } else {
                // base >= 0 by construction: x^d is monotone there, so the images of the end points of the
                // error interval of the base bound the propagated error; plus the error of the reference itself
                let lo = pow_ref((base - e_base).max(0.0), *d);
                let hi = pow_ref(base + e_base, *d);
                let prop = (hi - v).abs().max((v - lo).abs());
                let cond = if base > 0.0 { 1.0 + (d * base.ln()).abs() } else { 1.0 };
                (v, prop + TOL_ULPS * ep * cond * v.abs() + tiny)
            }
        }
    }
}

pub fn is_small_integer(d: f64) -> bool {
    d.fract() == 0.0 && (0.0..=16.0).contains(&d)
}

/// base^d without `powf`/`powi`: repeated multiplication for integral d, sqrt(sqrt(base))^(4d) for
/// multiples of 1/4, exp(d ln base) otherwise; NaN for a negative base with a fractional degree
pub fn pow_ref(base: f64, d: f64) -> f64 {
    if is_small_integer(d) {
        let mut v = 1.0;
        let mut i = 0.0;
        while i < d {
            v *= base;
            i += 1.0;
        }
        return v;
    }
    if !(base >= 0.0) || !(d > 0.0) {
        return f64::NAN;
    }
    let q = 4.0 * d;
    if q.fract() == 0.0 && q <= 64.0 {
        let r = base.sqrt().sqrt();
        let mut v = 1.0;
        let mut i = 0.0;
        while i < q {
            v *= r;
            i += 1.0;
        }
        v
    } else if base == 0.0 {
        0.0
    } else {
        (d * base.ln()).exp()
    }
}

pub fn sq_dist(a: &[f64], b: &[f64]) -> f64 {
    let mut d2 = 0.0;
    for (x, y) in a.iter().zip(b) {
        d2 += (x - y) * (x - y);
    }
    d2
}

/// squared distance matrix and, per point, the k-th smallest squared distance to the *other* points
pub fn knn_radii(x: &Mat, k: usize) -> (Mat, Vec<f64>) {
    let n = x.len();
    let mut d2 = vec![vec![0.0; n]; n];
    for i in 0..n {
        for j in 0..n {
            d2[i][j] = sq_dist(&x[i], &x[j]);
        }
    }
    let mut dk = vec![0.0; n];
    for i in 0..n {
        let mut o: Vec<f64> = (0..n).filter(|&j| j != i).map(|j| d2[i][j]).collect();
        o.sort_by(|a, b| a.partial_cmp(b).unwrap_or(std::cmp::Ordering::Equal));
        dk[i] = if k >= 1 && k <= o.len() { o[k - 1] } else { f64::INFINITY };
    }
    (d2, dk)
}

/// Squared distances (from exact differences of the records) with the band inside which two distances
/// count as tied: relative `rel` on the squared distance plus an absolute `slack` on the distance
/// (rounding of a neighbour index that works in the element type: proportional to the data diameter,
/// never to the norm of the records).
pub struct Knn {
    pub d2: Mat,
    pub k: usize,
    pub rel: f64,
    pub slack: f64,
}
impl Knn {
    pub fn new(x: &Mat, k: usize, prec: Prec) -> Knn {
        let (d2, _) = knn_radii(x, k);
        let diam = d2.iter().flat_map(|r| r.iter()).copied().fold(0.0, f64::max).sqrt();
        Knn { d2, k, rel: KNN_BAND.max(TOL_ULPS * prec.eps), slack: TOL_ULPS * prec.eps * diam }
    }
    fn lo(&self, v: f64) -> f64 {
        v * (1.0 - self.rel) - 2.0 * v.sqrt() * self.slack
    }
    fn hi(&self, v: f64) -> f64 {
        v * (1.0 + self.rel) + 2.0 * v.sqrt() * self.slack
    }
    /// number of other points that are certainly closer to `i` than `j` is
    fn certainly_closer(&self, i: usize, j: usize) -> usize {
        let d2 = &self.d2;
        (0..d2.len()).filter(|&l| l != i && l != j && self.hi(d2[i][l]) < self.lo(d2[i][j])).count()
    }
    /// number of other points that are possibly closer to `i` than `j` is, or tied with it
    fn possibly_closer_or_tied(&self, i: usize, j: usize) -> usize {
        let d2 = &self.d2;
        (0..d2.len()).filter(|&l| l != i && l != j && self.lo(d2[i][l]) <= self.hi(d2[i][j])).count()
    }
    /// `j` is among the k nearest neighbours of `i` however distance ties are broken
    pub fn surely_neighbour(&self, i: usize, j: usize) -> bool {
        i != j && self.possibly_closer_or_tied(i, j) < self.k
    }
    /// `j` is among the k nearest neighbours of `i` for at least one way of breaking distance ties
    pub fn possibly_neighbour(&self, i: usize, j: usize) -> bool {
        i != j && self.certainly_closer(i, j) < self.k
    }
    /// pair (i,j) must be stored: one of the two is unambiguously among the other's k nearest
    pub fn must_pair(&self, i: usize, j: usize) -> bool {
        i == j || self.surely_neighbour(i, j) || self.surely_neighbour(j, i)
    }
    /// pair (i,j) may be stored: one of the two is possibly (ties included) among the other's k nearest
    pub fn may_pair(&self, i: usize, j: usize) -> bool {
        i == j || self.possibly_neighbour(i, j) || self.possibly_neighbour(j, i)
    }
}

pub struct Dsu(Vec<usize>);
impl Dsu {
    pub fn new(n: usize) -> Self {
        Dsu((0..n).collect())
    }
    pub fn find(&mut self, mut a: usize) -> usize {
        while self.0[a] != a {
            self.0[a] = self.0[self.0[a]];
            a = self.0[a];
        }
        a
    }
    pub fn union(&mut self, a: usize, b: usize) {
        let (ra, rb) = (self.find(a), self.find(b));
        if ra != rb {
            self.0[ra] = rb;
        }
    }
    pub fn labels(&mut self) -> Vec<usize> {
        let n = self.0.len();
        (0..n).map(|i| self.find(i)).collect()
    }
}

/// relabel by first occurrence so that two labellings are equal iff they are the same partition
pub fn canonical(labels: &[usize]) -> Vec<usize> {
    let mut map: Vec<(usize, usize)> = vec![];
    let mut out = Vec::with_capacity(labels.len());
    for &l in labels {
        let id = match map.iter().find(|(k, _)| *k == l) {
            Some((_, v)) => *v,
            None => {
                map.push((l, map.len()));
                map.len() - 1
            }
        };
        out.push(id);
    }
    out
}

pub fn n_clusters(labels: &[usize]) -> usize {
    canonical(labels).iter().copied().max().map(|m| m + 1).unwrap_or(0)
}

/// -ln(max(sim, 1e-6))
pub fn dissimilarity(sim: f64) -> f64 {
    if sim > SIM_FLOOR {
        -sim.ln()
    } else {
        -SIM_FLOOR.ln()
    }
}

/// connected components of the graph { (i,j) : d_ij < theta }
pub fn components_below(d: &Mat, theta: f64) -> Vec<usize> {
    let n = d.len();
    let mut u = Dsu::new(n);
    for i in 0..n {
        for j in i + 1..n {
            if d[i][j] < theta {
                u.union(i, j);
            }
        }
    }
    canonical(&u.labels())
}

#[derive(Debug, Clone, Copy, Serialize, Deserialize, PartialEq, Eq)]
pub enum Link {
    Single,
    Complete,
    Average,
    Weighted,
    Ward,
    /// non-monotone: the dendrogram stays in merge order and may contain inversions
    Centroid,
    Median,
}
impl Link {
    /// kodama runs these on squared dissimilarities and reports the square root
    pub fn on_squares(self) -> bool {
        matches!(self, Link::Ward | Link::Centroid | Link::Median)
    }
    pub fn monotone(self) -> bool {
        !matches!(self, Link::Centroid | Link::Median)
    }
}

pub struct Agglomeration {
    /// (representative of cluster a, representative of cluster b, height) in merge order
    pub merges: Vec<(usize, usize, f64)>,
    /// per step: another candidate merge was within MERGE_GAP of the chosen one (merge order ambiguous)
    pub ambiguous: Vec<bool>,
    /// heights never decrease (beyond MERGE_GAP)
    pub monotone: bool,
}

/// Naive O(n^3) agglomeration: at every step merge the globally closest pair, update by the
/// textbook Lance–Williams formula. Ward works on squared dissimilarities (height = sqrt).
pub fn agglomerate(d: &Mat, link: Link) -> Agglomeration {
    let n = d.len();
    let mut m: Mat = d.clone();
    if link.on_squares() {
        for r in m.iter_mut() {
            for v in r.iter_mut() {
                *v = *v * *v;
            }
        }
    }
    let mut active = vec![true; n];
    let mut size = vec![1.0f64; n];
    let mut merges = vec![];
    let mut ambiguous = vec![];
    let mut monotone = true;
    let mut last = f64::NEG_INFINITY;
    for _ in 1..n {
        // global minimum and runner-up
        let mut best: Option<(usize, usize, f64)> = None;
        let mut second = f64::INFINITY;
        for i in 0..n {
            if !active[i] {
                continue;
            }
            for j in i + 1..n {
                if !active[j] {
                    continue;
                }
                let v = m[i][j];
                match best {
                    None => best = Some((i, j, v)),
                    Some((_, _, bv)) => {
                        if v < bv {
                            second = bv;
                            best = Some((i, j, v));
                        } else if v < second {
                            second = v;
                        }
                    }
                }
            }
        }
        let Some((a, b, v)) = best else { break };
        let amb = !v.is_finite() || (second.is_finite() && second - v <= MERGE_GAP * (1.0 + v.abs().max(second.abs())));
        ambiguous.push(amb);
        let h = if link.on_squares() { v.max(0.0).sqrt() } else { v };
        if h < last - MERGE_GAP * (1.0 + h.abs().max(last.abs())) {
            monotone = false;
        }
        last = h;
        merges.push((a, b, h));
        let (na, nb) = (size[a], size[b]);
        for x in 0..n {
            if !active[x] || x == a || x == b {
                continue;
            }
            let dax = m[a][x];
            let dbx = m[b][x];
            let nx = size[x];
            let new = match link {
                Link::Single => dax.min(dbx),
                Link::Complete => dax.max(dbx),
                Link::Average => (na * dax + nb * dbx) / (na + nb),
                Link::Weighted => 0.5 * (dax + dbx),
                Link::Ward => ((na + nx) * dax + (nb + nx) * dbx - nx * v) / (na + nb + nx),
                Link::Centroid => (na * dax + nb * dbx) / (na + nb) - na * nb * v / ((na + nb) * (na + nb)),
                Link::Median => 0.5 * (dax + dbx) - 0.25 * v,
            };
            m[b][x] = new;
            m[x][b] = new;
        }
        active[a] = false;
        size[b] = na + nb;
    }
    Agglomeration { merges, ambiguous, monotone }
}

/// Documented rule of the Distance criterion ("the merging process will stop [when] the distance exceeds this
/// value"; the code stops in front of the first step with dissimilarity >= theta): walk the dendrogram in
/// merge order and stop at the first step that is not below the threshold. For the monotone linkages this is
/// "every merge below the threshold"; for Centroid/Median (inversions) later, smaller merges are not performed.
/// partition after performing, in order, every merge whose height is < theta
pub fn cut_below(n: usize, agg: &Agglomeration, theta: f64) -> Vec<usize> {
    let mut u = Dsu::new(n);
    for &(a, b, h) in &agg.merges {
        if h < theta {
            u.union(a, b);
        } else {
            break;
        }
    }
    canonical(&u.labels())
}
