//! Sub-checks `threshold`, `num_clusters`, `num_clusters_all`: agglomerative clustering on a kernel.

use crate::gen::{DataClass, Mat, Theta};
use crate::kernel::{build, densify, to_arr};
use crate::oracle::*;
use linfa::dataset::DatasetBase;
use linfa::traits::Transformer;
use linfa_hierarchical::{HierarchicalCluster, Method};
use linfa_kernel::{KernelInner, KernelType};
use linfa_nn::CommonNearestNeighbour;
use serde::{Deserialize, Serialize};
use vengine::gen::idx;
use vengine::Obs;

#[derive(Debug, Clone, Serialize, Deserialize, PartialEq)]
pub enum Crit {
    /// requested number of clusters, mapped monotonically into 1..=n+2
    Num(u16),
    Dist(Theta),
}

#[derive(Debug, Clone, Serialize, Deserialize)]
pub struct HCase {
    pub class: DataClass,
    pub x: Mat,
    pub method: KM,
    /// Some(k): cluster a sparse kernel with k neighbours (mapped into 1..n); None: dense kernel
    pub sparse_k: Option<u16>,
    pub link: Link,
    pub crit: Crit,
    /// call the `DatasetBase<Kernel, T>` overload instead of the `Kernel` one
    pub via_dataset: bool,
    /// order of the `HierarchicalCluster` builder calls (last call of a setter wins):
    /// 0 method, criterion; 1 criterion, method; 2 decoy method, decoy criterion, method, criterion;
    /// 3 decoy criterion, criterion, decoy method, method; 4 criterion, decoy method, method;
    /// 5 criterion only when the linkage is the documented default (Average), else as 1
    #[serde(default)]
    pub order: u8,
    /// memory layout of the records the clustered kernel is built from (see `kernel::layout_name`)
    #[serde(default)]
    pub layout: u8,
}

fn to_kodama(l: Link) -> Method {
    match l {
        Link::Single => Method::Single,
        Link::Complete => Method::Complete,
        Link::Average => Method::Average,
        Link::Weighted => Method::Weighted,
        Link::Ward => Method::Ward,
        Link::Centroid => Method::Centroid,
        Link::Median => Method::Median,
    }
}

fn sorted_unique(mut v: Vec<f64>) -> Vec<f64> {
    v.sort_by(|a, b| a.partial_cmp(b).unwrap_or(std::cmp::Ordering::Equal));
    v.dedup_by(|a, b| a == b);
    v
}

/// a value strictly inside (lo, hi) when one exists, else hi
fn inside(lo: f64, hi: f64, frac: u8) -> f64 {
    let t = (frac as f64 + 1.0) / 257.0;
    let v = lo + (hi - lo) * t;
    if lo < v && v < hi {
        return v;
    }
    let mid = lo + (hi - lo) * 0.5;
    if lo < mid && mid < hi {
        mid
    } else {
        hi
    }
}

fn between(sorted: &[f64], rank: u16, frac: u8) -> f64 {
    let len = sorted.len();
    if len == 0 {
        return 1.0;
    }
    let pos = idx(rank, len + 1);
    if pos == 0 {
        0.5 * sorted[0]
    } else if pos == len {
        sorted[len - 1] + 1.0
    } else {
        inside(sorted[pos - 1], sorted[pos], frac)
    }
}

/// the threshold handed to linfa: always finite and >= 0 (anything else is a documented parameter error)
fn derive_theta(spec: &Theta, pairwise: &[f64], heights: &[f64]) -> f64 {
    let v = match spec {
        Theta::BetweenPairwise { rank, frac } => between(pairwise, *rank, *frac),
        Theta::EqualPairwise { rank } => pairwise.get(idx(*rank, pairwise.len())).copied().unwrap_or(1.0),
        Theta::BetweenMerges { rank, frac } => between(heights, *rank, *frac),
        Theta::EqualFirstMerge => heights.first().copied().unwrap_or(1.0),
        Theta::Raw(v) => *v,
    };
    if v.is_finite() && v > 0.0 {
        v
    } else {
        0.0
    }
}

fn class_labels(c: &HCase, obs: &mut Obs) {
    obs.class(match c.class {
        DataClass::Lattice => "data_lattice",
        DataClass::Duplicates => "data_duplicates",
        DataClass::Clustered => "data_clustered",
        DataClass::Gaussian => "data_gaussian",
    });
    obs.class(match c.method {
        KM::Linear => "kernel_linear",
        KM::Gaussian(_) => "kernel_gaussian",
        KM::Polynomial(..) => "kernel_polynomial",
    });
    obs.class(match c.link {
        Link::Single => "link_single",
        Link::Complete => "link_complete",
        Link::Average => "link_average",
        Link::Weighted => "link_weighted",
        Link::Ward => "link_ward",
        Link::Centroid => "link_centroid",
        Link::Median => "link_median",
    });
    obs.class(crate::kernel::layout_name(c.layout));
    obs.class_if(c.sparse_k.is_some() && c.x.len() >= 2, "sparse_kernel");
    obs.class_if(c.sparse_k.is_none() || c.x.len() < 2, "dense_kernel");
}

pub fn check_hier(c: &HCase, obs: &mut Obs) {
    let n = c.x.len();
    if n >= 1 && (c.x.iter().any(|r| r.len() != c.x[0].len()) || c.x[0].is_empty()) {
        obs.skip("malformed_case");
        return;
    }
    class_labels(c, obs);
    obs.class_if(n == 0, "n_eq_0");
    obs.class_if(n == 1, "n_eq_1");
    obs.class_if(n == 2, "n_eq_2");
    let x = to_arr::<f64>(&c.x);
    let kind = match c.sparse_k {
        Some(k) if n >= 2 => KernelType::Sparse(1 + idx(k, n - 1)),
        _ => KernelType::Dense,
    };
    if matches!(kind, KernelType::Sparse(_)) && crate::kernel::kdtree_build_diverges(&x) {
        obs.skip("kdtree_build_would_not_terminate");
        return;
    }
    // the kd-tree documents a panic for rows that are not contiguous in memory: use the ball tree there
    let p_cols = x.ncols();
    let nn = if crate::kernel::rows_contiguous(c.layout, n, p_cols) { CommonNearestNeighbour::KdTree } else { CommonNearestNeighbour::BallTree };
    let path = c.order / 6 + 3 * (c.order % 2); // 0..=5, derived: no further case field
    let Some((kernel, _)) = obs.call("build-kernel", || build(&x, &c.method, kind, nn, path, c.order, c.layout)) else { return };
    // the similarity matrix *is* the input of the clustering: read it off the kernel object
    let sim = match densify(&kernel, n) {
        Ok((m, _)) => m,
        Err(e) => {
            obs.fail("hier:kernel-shape", e);
            return;
        }
    };
    // ... but it must be the kernel of the *logical* rows, whatever the memory layout of the records
    if let KernelInner::Dense(_) = &kernel.inner {
        for i in 0..n {
            for j in 0..n {
                let (v, t) = kernel_ref(&c.method, &c.x[i], &c.x[j], F64);
                obs.ensure((sim[i][j] - v).abs() <= t, "hier:kernel-entry", || {
                    format!("clustered kernel: entry ({i},{j}) = {}, kernel function of rows {i},{j} = {v} ({})", sim[i][j], crate::kernel::layout_name(c.layout))
                });
            }
        }
    }
    let d: Mat = sim.iter().map(|r| r.iter().map(|s| dissimilarity(*s)).collect()).collect();
    let mut pairwise = vec![];
    for i in 0..n {
        for j in i + 1..n {
            pairwise.push(d[i][j]);
        }
    }
    let any_negative = pairwise.iter().any(|v| *v < 0.0);
    obs.class_if(any_negative, "negative_dissimilarities");
    obs.class_if(pairwise.iter().any(|v| *v == dissimilarity(0.0)), "similarity_floor_reached");
    if c.link.on_squares() && any_negative {
        // Ward / Centroid / Median work on squared dissimilarities: "below the threshold" has no meaning for negative ones
        obs.skip("squared_linkage_with_negative_dissimilarity");
        return;
    }
    let pairwise = sorted_unique(pairwise);
    let agg = agglomerate(&d, c.link);
    let heights = sorted_unique(agg.merges.iter().map(|m| m.2).collect());

    let (theta, requested) = match &c.crit {
        Crit::Num(q) => (None, Some(1 + idx(*q, n + 2))),
        Crit::Dist(spec) => (Some(derive_theta(spec, &pairwise, &heights)), None),
    };
    let real_method = to_kodama(c.link);
    let decoy_method = if c.link == Link::Single { Method::Complete } else { Method::Single };
    let crit = |p: HierarchicalCluster<f64>| match (requested, theta) {
        (Some(req), _) => p.num_clusters(req),
        (None, Some(t)) => p.max_distance(t),
        (None, None) => p,
    };
    // decoy criterion of the *other* kind, so that a criterion that is not overwritten shows
    let decoy_crit = |p: HierarchicalCluster<f64>| if requested.is_some() { p.max_distance(0.5) } else { p.num_clusters(1) };
    let start = HierarchicalCluster::<f64>::default();
    let order = c.order % 6;
    obs.class(match order {
        0 => "builder_method_then_criterion",
        1 => "builder_criterion_then_method",
        2 | 3 | 4 => "builder_setter_called_twice",
        _ => "builder_default_method_or_criterion_first",
    });
    let params = match order {
        0 => crit(start.with_method(real_method)),
        1 => crit(start).with_method(real_method),
        2 => crit(decoy_crit(start.with_method(decoy_method)).with_method(real_method)),
        3 => crit(decoy_crit(start)).with_method(decoy_method).with_method(real_method),
        4 => crit(start).with_method(decoy_method).with_method(real_method),
        _ => {
            if c.link == Link::Average {
                crit(start)
            } else {
                crit(start).with_method(real_method)
            }
        }
    };
    let via = c.via_dataset;
    let res = obs.call("transform", || {
        if via {
            let ds = DatasetBase::new(kernel, ());
            params.transform(ds).map(|o| o.targets)
        } else {
            params.transform(kernel).map(|o| o.targets)
        }
    });
    let Some(res) = res else { return };
    let labels: Vec<usize> = match res {
        Ok(l) => l,
        Err(e) => {
            obs.fail("hier:spurious-error", format!("valid stopping criterion {:?} / theta {:?} rejected: {e}", requested, theta));
            return;
        }
    };
    if !obs.ensure(labels.len() == n, "hier:label-count", || format!("{} labels for {n} samples", labels.len())) {
        return;
    }
    let got = canonical(&labels);
    let got_k = n_clusters(&labels);

    if let Some(req) = requested {
        obs.class_if(req > n, "requested_more_than_n");
        obs.class_if(req == n, "requested_eq_n");
        obs.class_if(req == 1, "requested_one");
        obs.class_if(req > 1 && req < n, "requested_strictly_between");
        obs.nontrivial_if(req > n || (req > 1 && req < n));
        let want = req.min(n);
        obs.ensure(got_k == want, "num_clusters:count", || {
            format!("requested {req} clusters of {n} samples with {:?} linkage: got {got_k} clusters, expected {want}; labels {:?}", c.link, labels)
        });
        return;
    }

    let theta = theta.unwrap_or(0.0);
    obs.class_if(pairwise.iter().any(|v| *v == theta), "theta_equals_a_pairwise_dissimilarity");
    obs.class_if(agg.merges.first().map(|m| m.2 == theta).unwrap_or(false), "theta_equals_first_merge_height");
    obs.class_if(theta == 0.0, "theta_zero");

    if c.link == Link::Single {
        let want = components_below(&d, theta);
        let want_k = n_clusters(&want);
        obs.class_if(want_k == 1, "expect_one_cluster");
        obs.class_if(want_k == n, "expect_n_clusters");
        obs.class_if(want_k > 1 && want_k < n, "expect_strictly_between");
        obs.nontrivial_if(want_k > 1 && want_k < n);
        obs.ensure(got == want, "threshold:single-components", || {
            format!(
                "single linkage, theta = {theta}: got partition {:?} ({got_k} clusters), connected components of the graph d < theta are {:?} ({want_k} clusters)",
                got, want
            )
        });
        return;
    }

    if !c.link.monotone() {
        // Centroid / Median: kodama keeps the dendrogram in merge order and it may contain inversions.
        // Documented rule (Criterion / max_distance docs, and the loop of the unchanged code): merging stops in
        // front of the first step, in merge order, whose dissimilarity is not below the threshold.
        let hs: Vec<f64> = agg.merges.iter().map(|m| m.2).collect();
        obs.class_if(hs.windows(2).any(|w| w[1] < w[0] - MERGE_GAP * (1.0 + w[0].abs())), "reference_dendrogram_has_inversion");
        let mut stop: Option<usize> = None;
        for (s, (m, amb)) in agg.merges.iter().zip(&agg.ambiguous).enumerate() {
            if s != 0 && (theta - m.2).abs() <= MERGE_GAP * (1.0 + m.2.abs()) {
                obs.skip("not_judged_theta_within_rounding_of_a_merge_height");
                return;
            }
            if m.2 >= theta {
                stop = Some(s);
                break;
            }
            if *amb {
                obs.skip("not_judged_ambiguous_dendrogram");
                return;
            }
        }
        let in_gap = stop.map(|s| hs[s + 1..].iter().any(|h| *h < theta)).unwrap_or(false);
        obs.class_if(in_gap, "theta_inside_inversion_gap");
        let want = cut_below(n, &agg, theta);
        let want_k = n_clusters(&want);
        obs.class_if(want_k == 1, "expect_one_cluster");
        obs.class_if(want_k == n, "expect_n_clusters");
        obs.class_if(want_k > 1 && want_k < n, "expect_strictly_between");
        obs.nontrivial_if((want_k > 1 && want_k < n) || in_gap);
        obs.ensure(got == want, "threshold:merge-order-stop", || {
            format!(
                "{:?} linkage, theta = {theta}: got partition {:?} ({got_k} clusters); stopping in front of the first merge (in merge order) that is not below theta gives {:?} ({want_k} clusters); merge heights in merge order {:?}",
                c.link, got, want, hs
            )
        });
        return;
    }

    // other linkages: judged only when the reference dendrogram is unambiguous and theta is clear of
    // every merge height that was obtained by arithmetic (the first height is a pairwise value, complete
    // linkage heights are maxima of pairwise values: both exact)
    // only the merges that are performed (height < theta) need an unambiguous order; ties among the
    // merges above the threshold cannot change the partition below it
    let performed_ambiguous = agg.merges.iter().zip(&agg.ambiguous).any(|(m, amb)| *amb && m.2 < theta);
    obs.class_if(agg.ambiguous.iter().any(|a| *a), "reference_dendrogram_has_ties");
    if performed_ambiguous {
        obs.skip("not_judged_ambiguous_dendrogram");
        return;
    }
    if !agg.monotone {
        obs.skip("not_judged_non_monotone_reference");
        return;
    }
    for (s, m) in agg.merges.iter().enumerate() {
        let exact = s == 0 || c.link == Link::Complete;
        if !exact && (theta - m.2).abs() <= MERGE_GAP * (1.0 + m.2.abs()) {
            obs.skip("not_judged_theta_within_rounding_of_a_merge_height");
            return;
        }
    }
    let want = cut_below(n, &agg, theta);
    let want_k = n_clusters(&want);
    obs.class_if(want_k == 1, "expect_one_cluster");
    obs.class_if(want_k == n, "expect_n_clusters");
    obs.class_if(want_k > 1 && want_k < n, "expect_strictly_between");
    obs.nontrivial_if(want_k > 1 && want_k < n);
    obs.ensure(got == want, "threshold:linkage-partition", || {
        format!(
            "{:?} linkage, theta = {theta}: got partition {:?} ({got_k} clusters), performing every merge below theta gives {:?} ({want_k} clusters); merge heights {:?}",
            c.link,
            got,
            want,
            agg.merges.iter().map(|m| m.2).collect::<Vec<_>>()
        )
    });
}
