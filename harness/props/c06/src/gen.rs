//! Generators for C06: record matrices by class, kernel methods, linkage methods, thresholds.

use crate::oracle::{Link, KM};
use proptest::prelude::*;
use serde::{Deserialize, Serialize};
use vengine::gen::{gauss, idx, small_int_f64};

pub type Mat = Vec<Vec<f64>>;

#[derive(Debug, Clone, Copy, Serialize, Deserialize, PartialEq, Eq)]
pub enum DataClass {
    /// integer coordinates in -3..=3: many exact distance ties
    Lattice,
    /// rows copied from 1..=3 base rows
    Duplicates,
    /// 2..=3 well separated centres plus small noise
    Clustered,
    /// i.i.d. gaussian coordinates (generic: no ties)
    Gaussian,
}

fn round20(v: f64) -> f64 {
    (v * 1048576.0).round() / 1048576.0
}

fn rows_of_class(n: usize, p: usize, class: DataClass) -> BoxedStrategy<Mat> {
    use proptest::collection::vec;
    match class {
        DataClass::Lattice => vec(vec(small_int_f64(-3, 3), p), n).boxed(),
        DataClass::Duplicates => (
            vec(vec(prop_oneof![gauss(), small_int_f64(-2, 2)], p), 1..=3usize),
            vec(any::<u16>(), n),
        )
            .prop_map(|(base, sel)| sel.iter().map(|s| base[idx(*s, base.len())].clone()).collect())
            .boxed(),
        DataClass::Clustered => (
            vec(vec(small_int_f64(-2, 2), p), 2..=3usize),
            vec((any::<u16>(), vec(gauss(), p)), n),
        )
            .prop_map(|(centres, pts)| {
                pts.iter()
                    .map(|(s, noise)| {
                        let c = &centres[idx(*s, centres.len())];
                        c.iter().zip(noise).map(|(c, g)| round20(1.5 * c + 0.125 * g)).collect()
                    })
                    .collect()
            })
            .boxed(),
        DataClass::Gaussian => vec(vec(gauss(), p), n).boxed(),
    }
}

pub fn data_class() -> impl Strategy<Value = DataClass> {
    prop_oneof![
        Just(DataClass::Lattice),
        Just(DataClass::Duplicates),
        Just(DataClass::Clustered),
        Just(DataClass::Gaussian),
    ]
}

/// (class, n×p records), n in min_n..=max_n, p in 1..=4
pub fn records(min_n: usize, max_n: usize, class: impl Strategy<Value = DataClass>) -> impl Strategy<Value = (DataClass, Mat)> {
    (min_n..=max_n, 1usize..=4, class).prop_flat_map(|(n, p, class)| rows_of_class(n, p, class).prop_map(move |m| (class, m)))
}

pub fn kernel_method() -> impl Strategy<Value = KM> {
    prop_oneof![
        2 => Just(KM::Linear),
        4 => gaussian_method(),
        3 => (0u8..=12, 1u8..=3).prop_map(|(q, d)| KM::Polynomial(q as f64 / 4.0, d as f64)),
    ]
}

/// polynomial constants: quarters, tenths (not dyadic) and integers, either sign when `signed`
fn poly_constant(signed: bool) -> BoxedStrategy<f64> {
    let lo = if signed { -12i32 } else { 0 };
    prop_oneof![
        3 => (lo..=12).prop_map(|q| q as f64 / 4.0),
        2 => (lo * 3..=36).prop_map(|q| q as f64 / 10.0),
        1 => (lo / 4..=3).prop_map(|q| q as f64),
        1 => Just(0.0),
    ]
    .boxed()
}

/// Kernel methods for the kernel-matrix sub-check. The flag says that the records must be made
/// non-negative (fractional polynomial degree: the power is only defined for a base >= 0).
pub fn kernel_method_any() -> impl Strategy<Value = (KM, bool)> {
    prop_oneof![
        2 => Just((KM::Linear, false)),
        4 => gaussian_method().prop_map(|m| (m, false)),
        // integral degree 0..=4, any constant, any records (negative bases are fine)
        3 => (poly_constant(true), prop_oneof![8 => 1u8..=3, 1 => Just(0u8), 1 => Just(4u8)])
            .prop_map(|(c, d)| (KM::Polynomial(c, d as f64), false)),
        // fractional degree: multiples of 1/4 in (0, 3.75] and tenths in (0, 3.5]; constant >= 0, records >= 0
        3 => (poly_constant(false), prop_oneof![
                3 => (1u8..=15).prop_map(|k| k as f64 / 4.0),
                2 => (1u8..=35).prop_map(|k| k as f64 / 10.0),
            ])
            .prop_map(|(c, d)| (KM::Polynomial(c, d), d.fract() != 0.0)),
    ]
}

/// bandwidth 10^(e/4), e in -8..=8  (10^-2 .. 10^2)
pub fn gaussian_method() -> impl Strategy<Value = KM> {
    (-8i32..=8).prop_map(|e| KM::Gaussian(10f64.powf(e as f64 / 4.0)))
}

/// bandwidth 10^(e/4), e in 0..=8 (1 .. 100): few similarities fall below the 1e-6 floor
pub fn wide_gaussian_method() -> impl Strategy<Value = KM> {
    (0i32..=8).prop_map(|e| KM::Gaussian(10f64.powf(e as f64 / 4.0)))
}

pub fn link() -> impl Strategy<Value = Link> {
    prop_oneof![
        3 => Just(Link::Single),
        2 => Just(Link::Complete),
        2 => Just(Link::Average),
        2 => Just(Link::Weighted),
        2 => Just(Link::Ward),
        2 => Just(Link::Centroid),
        2 => Just(Link::Median),
    ]
}

/// How the distance threshold is derived from the dissimilarities of the case.
#[derive(Debug, Clone, Serialize, Deserialize, PartialEq)]
pub enum Theta {
    /// strictly between two consecutive distinct pairwise dissimilarities (rank 0 = below the smallest,
    /// last rank = above the largest); `frac` positions it inside the gap
    BetweenPairwise { rank: u16, frac: u8 },
    /// exactly equal to one of the pairwise dissimilarities
    EqualPairwise { rank: u16 },
    /// strictly between two consecutive merge heights of the reference agglomeration
    BetweenMerges { rank: u16, frac: u8 },
    /// exactly equal to the first merge height (= smallest pairwise dissimilarity)
    EqualFirstMerge,
    /// a fixed number
    Raw(f64),
}

pub fn theta() -> impl Strategy<Value = Theta> {
    prop_oneof![
        4 => (any::<u16>(), any::<u8>()).prop_map(|(rank, frac)| Theta::BetweenPairwise { rank, frac }),
        3 => any::<u16>().prop_map(|rank| Theta::EqualPairwise { rank }),
        4 => (any::<u16>(), any::<u8>()).prop_map(|(rank, frac)| Theta::BetweenMerges { rank, frac }),
        1 => Just(Theta::EqualFirstMerge),
        1 => prop_oneof![
            Just(0.0),
            Just(0.5),
            Just(1.0),
            Just(3.0),
            Just(-(1e-6f64.ln())),
            Just(20.0),
        ]
        .prop_map(Theta::Raw),
    ]
}

/// Where the point cloud sits and in which element type the kernel is built:
/// (single precision?, per-feature offsets (4 entries), spacing scale).
/// f64: offsets from {0, 1e3, 1e6, 1e8}; f32: offsets from {0, 1000, 2048}. Scale 1 or 0.25.
pub fn placement() -> impl Strategy<Value = (bool, Vec<f64>, f64)> {
    fn offsets(values: &'static [f64]) -> BoxedStrategy<Vec<f64>> {
        let pick = move || (0..values.len()).prop_map(move |i| values[i]);
        prop_oneof![
            3 => Just(vec![0.0; 4]),
            4 => (1..values.len()).prop_map(move |i| vec![values[i]; 4]),
            2 => proptest::collection::vec(pick(), 4),
        ]
        .boxed()
    }
    let scale = prop_oneof![3 => Just(1.0), 1 => Just(0.25)];
    prop_oneof![
        3 => (offsets(&[0.0, 1e3, 1e6, 1e8]), scale.clone()).prop_map(|(o, s)| (false, o, s)),
        1 => (offsets(&[0.0, 1000.0, 2048.0]), scale).prop_map(|(o, s)| (true, o, s)),
    ]
}

/// memory layout of the records (see `kernel::layout_name`): row-major half of the time
pub fn layout() -> impl Strategy<Value = u8> {
    prop_oneof![3 => Just(0u8), 4 => 1u8..7]
}
