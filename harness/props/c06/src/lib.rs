//! C06 — stub (to be written; see /verif/harness/AUTHORING.md and DESIGN.md §3 C06)
use vengine::Property;

pub fn property() -> Property {
    Property { id: "C06", rule: "", assumptions: vec![], subs: vec![] }
}
